#!/bin/bash
# Offline set-up: nothing to build (pure Python machinery); verify the interpreter sees /repo's tree.
set -e
cd "$(dirname "$0")"
mkdir -p evidence replay
/venv/bin/python - <<'PY'
import os, pydrobert.torch as p
assert os.path.realpath(p.__file__).startswith("/repo/"), p.__file__
import torch, numpy
print("setup ok: torch", torch.__version__, "numpy", numpy.__version__, "pydrobert from", p.__file__)
PY
python3-vt -c "import jsonschema; print('jsonschema ok')"
