#!/usr/bin/env python3
"""tools/compare_baseline.py <junit.xml>: every test in BASELINE.json stable_pass must have passed."""
import json, sys, xml.etree.ElementTree as ET
base = json.load(open("/root/.vp/BASELINE.json"))
want = set(base["stable_pass"])
res = {}
for tc in ET.parse(sys.argv[1]).getroot().iter("testcase"):
    tid = f"{tc.get('classname')}::{tc.get('name')}"
    bad = [c.tag for c in tc if c.tag in ("failure", "error", "skipped")]
    res[tid] = bad[0] if bad else "passed"
missing = [t for t in want if t not in res]
notpass = [(t, res[t]) for t in want if t in res and res[t] != "passed"]
print(f"baseline stable_pass={len(want)} seen={len(res)} missing={len(missing)} not-passed={len(notpass)}")
for t in missing[:10]: print("  MISSING", t)
for t, r in notpass[:20]: print("  ", r.upper(), t)
newpass = [t for t, r in res.items() if r == "passed" and t not in want]
print(f"passing now but not in stable_pass: {len(newpass)}")
sys.exit(1 if (missing or notpass) else 0)
