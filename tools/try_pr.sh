#!/bin/bash
# tools/try_pr.sh <dir with patch.diff, patch_corrected.diff, demo.py> <Cxx> [more...]
# Round-4 seeds are whole pull requests: the defective PR must be reported (exit 1), the same PR with the defect
# corrected must leave the check silent (exit 0) - detection and false-alarm resistance on the same diff.
set -u
SRC="$1"; shift
for VAR in patch patch_corrected; do
  [ -f "$SRC/$VAR.diff" ] || { echo "$VAR.diff missing"; continue; }
  WT="/tmp/wt_pr_$$_$VAR"
  git -C /repo worktree add -q --detach "$WT" HEAD || exit 2
  ( cd "$WT"; if ! git apply "$SRC/$VAR.diff"; then echo "RESULT $VAR does-not-apply"; else
      PYTHONPATH="$WT/src" OMP_NUM_THREADS=1 timeout 900 /venv/bin/python "$SRC/demo.py" >/dev/null 2>&1; echo "$VAR: demo exit=$?"
      for C in "$@"; do
        (cd /verif && VERIF_REPO="$WT" timeout 2400 ./check "$C" --no-evidence ${TRY_ARGS:-} > /tmp/try_pr.$$ 2>&1; echo "$VAR: check $C exit=$?"; grep -A6 "violation classes" /tmp/try_pr.$$ | grep NEW | head -3 | cut -c1-220; rm -f /tmp/try_pr.$$)
      done
    fi )
  git -C /repo worktree remove --force "$WT" >/dev/null 2>&1
done
