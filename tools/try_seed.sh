#!/bin/bash
# tools/try_seed.sh <dir with patch.diff + demo.py> <Cxx> [more check ids...]
# Confirms a seeded property-breaking change in a scratch worktree: demo passes without / fails with the patch,
# then runs the given checks (quick tier, no evidence) against the patched worktree. Prints a summary line.
set -u
SRC="$1"; shift
WT="/tmp/wt_try_$$"
git -C /repo worktree add -q --detach "$WT" HEAD || exit 2
trap 'git -C /repo worktree remove --force "$WT" >/dev/null 2>&1' EXIT
cd "$WT"
PYTHONPATH="$WT/src" timeout 600 /venv/bin/python "$SRC/demo.py" >/tmp/try_seed_clean.$$ 2>&1; CLEAN=$?
if ! git apply "$SRC/patch.diff"; then echo "RESULT patch-does-not-apply"; exit 2; fi
PYTHONPATH="$WT/src" timeout 600 /venv/bin/python "$SRC/demo.py" >/tmp/try_seed_mut.$$ 2>&1; MUT=$?
echo "demo: clean exit=$CLEAN mutated exit=$MUT"
tail -3 /tmp/try_seed_mut.$$
rm -f /tmp/try_seed_clean.$$ /tmp/try_seed_mut.$$
for C in "$@"; do
  (cd /verif && VERIF_REPO="$WT" timeout 1800 ./check "$C" --no-evidence ${TRY_ARGS:-} > /tmp/try_seed_check.$$ 2>&1; echo "check $C exit=$?"; grep -E "^\[|^VIOLATION" /tmp/try_seed_check.$$ | head -4; grep -A6 "violation classes" /tmp/try_seed_check.$$ | grep NEW | head -5; rm -f /tmp/try_seed_check.$$)
done
