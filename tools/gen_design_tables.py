#!/usr/bin/env python3
"""Regenerates the generated tables of DESIGN.md (between <!-- X:BEGIN --> / <!-- X:END --> markers) from
findings/known_findings.json and seeded/*/meta.json."""
import glob, json, os, re
V = "/verif"
p = os.path.join(V, "DESIGN.md")
s = open(p).read()
d = json.load(open(os.path.join(V, "findings", "known_findings.json")))
order = {"C%02d" % i: i for i in range(1, 21)}
rows = []
for f in d["findings"]:
    if f["status"] == "fixed":
        disp = f"**fixed** in `{f['commit']}` ({f['subject']})"
    else:
        disp = "**known finding** (matcher in `findings/known_findings.json`; printed as `KNOWN-FINDING`)"
    what = f["what"].replace("|", "\\|")
    rows.append((order[f["property"]], f["id"], f"| {f['id']} | {f['property']} | {what} | {disp} |"))
rows.sort()
findings = ("| # | prop | concrete failing input on the original tree | disposition |\n|---|---|---|---|\n"
            + "\n".join(r[2] for r in rows))
srows = []
for m in sorted(glob.glob(os.path.join(V, "seeded", "*", "meta.json"))):
    j = json.load(open(m))
    srows.append(f"| {j['id']} | {j['property']} | {j['needs_to_manifest'].replace('|', chr(92) + '|')} | {j['detected_by_check']} |")
seeded = "| seed | prop | what it needs in order to manifest | detected by `./check <prop>` |\n|---|---|---|---|\n" + "\n".join(srows)
# what every check enumerates today: taken from the check modules themselves (text only, nothing is imported)
import ast
rules = []
for i in range(1, 21):
    src = open(os.path.join(V, "checks", f"c{i:02d}.py")).read()
    vals = {}
    for node in ast.parse(src).body:
        if isinstance(node, ast.Assign) and len(node.targets) == 1 and isinstance(node.targets[0], ast.Name) \
                and node.targets[0].id in ("PROP", "LEVEL", "RULE", "ASSUMPTIONS"):
            try:
                vals[node.targets[0].id] = ast.literal_eval(node.value)
            except Exception:
                vals[node.targets[0].id] = None
    rule = vals.get("RULE") or "(RULE is computed at import time - see the module)"
    ass = vals.get("ASSUMPTIONS") or []
    rules.append(f"### {vals.get('PROP', 'C%02d' % i)} ({vals.get('LEVEL')})\n\n*Enumeration rule.* {rule}\n\n*Assumptions.*\n"
                 + "\n".join(f"- {a}" for a in ass))
rules = "\n\n".join(rules)
for name, body in (("FINDINGS", findings), ("SEEDED", seeded), ("RULES", rules)):
    pat = re.compile(rf"(<!-- {name}:BEGIN -->\n).*?(\n<!-- {name}:END -->)", re.S)
    if not pat.search(s):
        raise SystemExit(f"marker {name} missing in DESIGN.md")
    s = pat.sub(lambda m: m.group(1) + body + m.group(2), s)
open(p, "w").write(s)
print("DESIGN.md tables regenerated:", len(rows), "findings,", len(srows), "seeds")
