#!/bin/bash
# tools/try_refactor.sh <dir with patch.diff> <Cxx> [more check ids...]
# Applies a behaviour-PRESERVING refactoring in a scratch worktree and runs the given checks (quick tier) against it:
# every check must stay silent (exit 0); a VIOLATION here is a false alarm of the check (or the patch is not preserving).
set -u
SRC="$1"; shift
WT="/tmp/wt_ref_$$"
git -C /repo worktree add -q --detach "$WT" HEAD || exit 2
trap 'git -C /repo worktree remove --force "$WT" >/dev/null 2>&1' EXIT
cd "$WT"
if ! git apply "$SRC/patch.diff"; then echo "RESULT patch-does-not-apply"; exit 2; fi
git diff --stat | tail -1
for C in "$@"; do
  (cd /verif && VERIF_REPO="$WT" timeout 2400 ./check "$C" --no-evidence ${TRY_ARGS:-} > /tmp/try_ref_check.$$ 2>&1; echo "check $C exit=$?"; grep -E "^\[" /tmp/try_ref_check.$$ | cut -c1-160; grep -A8 "violation classes" /tmp/try_ref_check.$$ | grep NEW | head -6; rm -f /tmp/try_ref_check.$$)
done
