#!/usr/bin/env python3
"""tools/regress_seeds.py [--streams 4] [--procs 4] [--only Cxx,...] [--match -r6] [--out FILE.md]
Re-runs every kept seeded change (seeded/*/) against the CURRENT checks and the CURRENT /repo HEAD: applies patch.diff in a
scratch worktree, runs demo.py with and without it, runs ./check <prop> on the changed tree (and on patch_corrected.diff when
the seed has one).  Writes seeded/REGRESSION.md.  A patch that no longer applies (the library was repaired in the same place
since the seed was written) is recorded as such."""
import concurrent.futures as cf, glob, json, os, re, subprocess, sys, time

V = "/verif"
args = sys.argv[1:]
streams = int(args[args.index("--streams") + 1]) if "--streams" in args else 4
procs = args[args.index("--procs") + 1] if "--procs" in args else "4"
only = set(args[args.index("--only") + 1].split(",")) if "--only" in args else None
match = args[args.index("--match") + 1] if "--match" in args else None  # substring of the seed id, e.g. -r6
outname = args[args.index("--out") + 1] if "--out" in args else "REGRESSION.md"


def one(meta_path):
    j = json.load(open(meta_path))
    d = os.path.dirname(meta_path)
    m = re.search(r"by \./check (C\d\d)", j.get("detected_by_check", ""))
    chk = m.group(1) if m else j["property"]
    has_corr = os.path.exists(os.path.join(d, "patch_corrected.diff"))
    tool = "try_pr.sh" if has_corr else "try_seed.sh"
    env = dict(os.environ, TRY_ARGS=f"--procs {procs}")
    t0 = time.time()
    out = subprocess.run([os.path.join(V, "tools", tool), d, chk], capture_output=True, text=True, env=env, cwd=V).stdout
    res = {"id": j["id"], "check": chk, "expected": j["detected_by_check"].split(" ")[0], "secs": int(time.time() - t0)}
    if "does-not-apply" in out:
        res["patch"] = "does not apply to the current HEAD"
    if has_corr:
        m1 = re.search(r"^patch: check \S+ exit=(\d+)", out, re.M)
        m2 = re.search(r"^patch_corrected: check \S+ exit=(\d+)", out, re.M)
        d1 = re.search(r"^patch: demo exit=(\d+)", out, re.M)
        res.update(demo=d1.group(1) if d1 else "?", check_exit=m1.group(1) if m1 else "?",
                   corrected_exit=m2.group(1) if m2 else "?")
    else:
        m1 = re.search(r"^check \S+ exit=(\d+)", out, re.M)
        d1 = re.search(r"mutated exit=(\d+)", out)
        res.update(demo=d1.group(1) if d1 else "?", check_exit=m1.group(1) if m1 else "?", corrected_exit="-")
    return res


metas = sorted(glob.glob(os.path.join(V, "seeded", "*", "meta.json")))
if only:
    metas = [m for m in metas if json.load(open(m))["property"] in only]
if match:
    metas = [m for m in metas if match in os.path.basename(os.path.dirname(m))]
rows = []
with cf.ThreadPoolExecutor(streams) as ex:
    for r in ex.map(one, metas):
        rows.append(r)
        print(r, flush=True)
head = subprocess.run(["git", "-C", "/repo", "rev-parse", "--short", "HEAD"], capture_output=True, text=True).stdout.strip()
vh = subprocess.run(["git", "-C", V, "rev-parse", "--short", "HEAD"], capture_output=True, text=True).stdout.strip()
ok = sum(1 for r in rows if r["check_exit"] == "1")
with open(os.path.join(V, "seeded", outname), "w") as f:
    f.write(f"# Seeded changes re-run against the current checks\n\n/repo HEAD {head}, /verif HEAD {vh} (+ working tree), "
            f"quick tier. `check exit` 1 = reported, 0 = silent. `corrected exit` is the same check on the corrected pull "
            f"request (rounds 4-5), which must be 0. {ok} of {len(rows)} changed trees reported.\n\n"
            "| seed | check | demo on changed tree | check exit | corrected exit | recorded as | note |\n|---|---|---|---|---|---|---|\n")
    for r in rows:
        f.write(f"| {r['id']} | {r['check']} | {r['demo']} | {r['check_exit']} | {r['corrected_exit']} | {r['expected']} | {r.get('patch', '')} |\n")
print("reported", ok, "of", len(rows))
