#!/usr/bin/env python3
"""Re-resolves the commit hash of every 'fixed' entry in findings/known_findings.json from its 'subject' (the fix
commit's subject line in /repo), so that rebases of the fix commits do not leave stale hashes."""
import json, subprocess
p = "/verif/findings/known_findings.json"
d = json.load(open(p))
log = subprocess.run(["git", "-C", "/repo", "log", "--format=%h\t%s"], capture_output=True, text=True).stdout.splitlines()
by_subject = {l.split("\t", 1)[1]: l.split("\t", 1)[0] for l in log}
for f in d["findings"]:
    if f["status"] != "fixed":
        continue
    subj = f.get("subject")
    if subj is None:
        raise SystemExit(f"{f['id']}: no subject")
    if subj not in by_subject:
        raise SystemExit(f"{f['id']}: no commit with subject {subj!r}")
    f["commit"] = by_subject[subj]
    tail = f["line"].split(" ", 3)[3] if f.get("line", "").startswith("fixed: ") else f["what"][:100]
    f["line"] = f"fixed: property={f['property']} {f['commit']} {tail}"
json.dump(d, open(p, "w"), indent=1)
print("ok", sum(1 for f in d["findings"] if f["status"] == "fixed"), "fixed entries")
