"""Source of truth for MANIFEST.json (run tools/gen_manifest.py after editing)."""

SOURCE_COMMITS = []  # no instrumentation commits in /repo

ENGINES = [
    {"name": "E1-small-scope", "path": "/verif/mc/runner.py", "serves_properties": [],
     "kind_free_text": "complete enumeration of a bounded input space against a plain-Python reference model, sharded over 16 processes"},
    {"name": "E2-choice-explorer", "path": "/verif/mc/explore.py", "serves_properties": [],
     "kind_free_text": "stateless depth-first exploration of every environment answer (RNG draws, pool completion orders) with prefix replay and path probabilities"},
    {"name": "E3-statespace", "path": "/verif/mc/statespace.py", "serves_properties": [],
     "kind_free_text": "explicit-state BFS over real transition functions with canonical state hashing"},
    {"name": "E4-crashfs", "path": "/verif/mc/crashfs.py", "serves_properties": [],
     "kind_free_text": "file-system seam: every mutating call is an event; kill-before-event-k with dead mode; crash points enumerated exhaustively"},
]

E1_NOTE = ("Bounded: decided only up to the stated scope (alphabet, lengths, menus). Trusted base: the plain-Python "
           "oracle in /verif/mc/oracles, torch's own primitives, float32 tolerance 1e-5. TorchScript/CUDA variants "
           "not explored.")

CHECKS = [
    {"id": "C01", "engine": "E1-small-scope", "level": "exploration", "design_ref": "DESIGN.md §3 C01",
     "technique": "bounded exhaustive enumeration of all string pairs (small scope) against a Levenshtein DP reference model",
     "text": "Every ref/hyp pair over a 3-symbol alphabet up to length 3 (quick) / 4 (thorough), every eos placement and post-eos filler, 4/8 cost triples and every flag combination is run through the real functions (batched, reversed, singly, functional and module) and compared with a textbook DP; exhaustive within that scope, which contains every length/eos/cost corner of the vectorised deletion sweep.",
     "note": E1_NOTE},
    {"id": "C02", "engine": "E1-small-scope", "level": "exploration", "design_ref": "DESIGN.md §3 C02",
     "technique": "bounded exhaustive enumeration of string pairs and sample sets against a DP that carries min/max edit counts over all optimal alignments",
     "text": "Same space as C01; the reported count must lie between the fewest and most edits over all minimum-cost alignments (exact Levenshtein for equal costs), follow the empty-reference convention, and the MER loss must equal softmax-weighted (mean-subtracted) rates for every enumerated sample set and reduction.",
     "note": E1_NOTE},
    {"id": "C03", "engine": "E1-small-scope", "level": "exploration", "design_ref": "DESIGN.md §3 C03",
     "technique": "bounded exhaustive enumeration of string pairs; per prefix every alphabet token is tried against the Levenshtein row-minimum criterion",
     "text": "For every pair in scope and every prefix the target list must equal the oracle set exactly (once each, padding after, padding past the end); the hard OCD loss is recomputed from log-softmax over the oracle sets for every reduction.",
     "note": E1_NOTE},
]

CHECKS += [
    {"id": "C15", "engine": "E3-statespace", "level": "model_checking", "design_ref": "DESIGN.md §3 C15",
     "technique": "explicit exploration of all controller histories (metric sequences x parameter grid x every restart subset) on the real controller against a reference state machine",
     "text": "Every metric sequence over a 3/4-value grid up to length 5/6 and every parameter combination of the early-stopping / rate-reduction grids is run through the real controller and compared epoch by epoch with a reference state machine that carries reference values instead of epoch indices; for every subset of restart points the controller, model and optimizer are rebuilt from the csv and state directory and must reproduce the uninterrupted decisions, rates and byte-identical history. States (csv text, directory listing, cache) and transitions (updates, restarts) are counted.",
     "note": "Bounded to the stated grids and depths; metrics/rates restricted to values representable in the csv's 5 significant digits (the property's own restriction); single process; trusted base: the reference state machine in mc/oracles/training.py."},
    {"id": "C16", "engine": "E4-crashfs", "level": "fault_enumeration", "design_ref": "DESIGN.md §3 C16",
     "technique": "exhaustive crash-point enumeration: every file-system mutating call of every epoch update is a kill point (crash bound 1 quick, 2 thorough) on the real update path over a file-system shim",
     "text": "For every metric history of length 3/4 over {1,2,3}, keep-last-and-best both, formats with/without {epoch}, best_is_train both: each mkdir / temp creation / temp content / rename / csv creation / csv append / delete issued by update_for_epoch is a crash point; after each crash a fresh controller must read a row-prefix of the history, load last and best with exactly those epochs' parameters and finish with a byte-identical history. Crash-free directory contents are checked after every update. Shim conformance is validated against runs without the shim.",
     "note": "Crash model: death between two file-system calls, each call atomic; no torn writes or reordering of unsynced writes (the property's stated model). Known finding F14 (formats without {epoch}) is listed in findings/known_findings.json and printed as KNOWN-FINDING."},
]

_PENDING = "check under construction in this session; not yet claimed"
NOT_APPLICABLE = [
    {"property_id": p, "reason": _PENDING}
    for p in ["C04", "C05", "C06", "C07", "C08", "C09", "C10", "C11", "C12", "C13", "C14",
              "C17", "C18", "C19", "C20"]
]

NOTES = ("All checks are bounded-exhaustive explorations of the real implementation (model-checking family); "
         "VERIF_SEED only changes don't-care numeric fillers. Known findings: /verif/findings/known_findings.json. "
         "See DESIGN.md.")
