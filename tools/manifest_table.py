"""Source of truth for MANIFEST.json (run tools/gen_manifest.py after editing)."""

SOURCE_COMMITS = []  # no instrumentation commits in /repo

ENGINES_NOTE = "serves_properties is filled in by gen_manifest from CHECKS"
ENGINES = [
    {"name": "E1-small-scope", "path": "/verif/mc/runner.py", "serves_properties": [],
     "kind_free_text": "complete enumeration of a bounded input space against a plain-Python reference model, sharded over 16 processes"},
    {"name": "E2-choice-explorer", "path": "/verif/mc/explore.py", "serves_properties": [],
     "kind_free_text": "stateless depth-first exploration of every environment answer (RNG draws, pool completion orders) with prefix replay and path probabilities"},
    {"name": "E3-statespace", "path": "/verif/checks/c12.py (BFS), /verif/checks/c15.py (histories)", "serves_properties": [],
     "kind_free_text": "explicit-state BFS over real transition functions with canonical state hashing"},
    {"name": "E4-crashfs", "path": "/verif/mc/crashfs.py", "serves_properties": [],
     "kind_free_text": "file-system seam: every mutating call is an event; kill-before-event-k with dead mode; crash points enumerated exhaustively"},
]

E1_NOTE = ("Bounded: decided only up to the stated scope (alphabet, lengths, menus). Trusted base: the plain-Python "
           "oracle in /verif/mc/oracles, torch's own primitives, float32 tolerance 1e-5. TorchScript/CUDA variants "
           "not explored.")

CHECKS = [
    {"id": "C01", "engine": "E1-small-scope", "level": "exploration", "design_ref": "DESIGN.md §3 C01",
     "technique": "bounded exhaustive enumeration of all string pairs (small scope) against a Levenshtein DP reference model",
     "text": "Every ref/hyp pair over a 3-symbol alphabet up to length 3 (quick) / 4 (thorough), every eos placement and post-eos filler, 4/8 cost triples and every flag combination is run through the real functions (batched, reversed, singly, functional and module) and compared with a textbook DP; exhaustive within that scope, which contains every length/eos/cost corner of the vectorised deletion sweep.",
     "note": E1_NOTE},
    {"id": "C02", "engine": "E1-small-scope", "level": "exploration", "design_ref": "DESIGN.md §3 C02",
     "technique": "bounded exhaustive enumeration of string pairs and sample sets against a DP that carries min/max edit counts over all optimal alignments",
     "text": "Same space as C01; the reported count must lie between the fewest and most edits over all minimum-cost alignments (exact Levenshtein for equal costs), follow the empty-reference convention, and the MER loss must equal softmax-weighted (mean-subtracted) rates for every enumerated sample set and reduction.",
     "note": E1_NOTE},
    {"id": "C03", "engine": "E1-small-scope", "level": "exploration", "design_ref": "DESIGN.md §3 C03",
     "technique": "bounded exhaustive enumeration of string pairs; per prefix every alphabet token is tried against the Levenshtein row-minimum criterion",
     "text": "For every pair in scope and every prefix the target list must equal the oracle set exactly (once each, padding after, padding past the end); the hard OCD loss is recomputed from log-softmax over the oracle sets for every reduction.",
     "note": E1_NOTE},
]

CHECKS += [
    {"id": "C15", "engine": "E3-statespace", "level": "model_checking", "design_ref": "DESIGN.md §3 C15",
     "technique": "explicit exploration of all controller histories (metric sequences x parameter grid x every restart subset) on the real controller against a reference state machine",
     "text": "Every metric sequence over a 3/4-value grid up to length 5/6 and every parameter combination of the early-stopping / rate-reduction grids is run through the real controller and compared epoch by epoch with a reference state machine that carries reference values instead of epoch indices; for every subset of restart points the controller, model and optimizer are rebuilt from the csv and state directory and must reproduce the uninterrupted decisions, rates and byte-identical history. States (csv text, directory listing, cache) and transitions (updates, restarts) are counted.",
     "note": "Bounded to the stated grids and depths; metrics/rates restricted to values representable in the csv's 5 significant digits (the property's own restriction); single process; trusted base: the reference state machine in mc/oracles/training.py."},
    {"id": "C16", "engine": "E4-crashfs", "level": "fault_enumeration", "design_ref": "DESIGN.md §3 C16",
     "technique": "exhaustive crash-point enumeration: every file-system mutating call of every epoch update is a kill point (crash bound 1 quick, 2 thorough) on the real update path over a file-system shim",
     "text": "For every metric history of length 3/4 over {1,2,3}, keep-last-and-best both, formats with/without {epoch}, best_is_train both: each mkdir / temp creation / temp content / rename / csv creation / csv append / delete issued by update_for_epoch is a crash point; after each crash a fresh controller must read a row-prefix of the history, load last and best with exactly those epochs' parameters and finish with a byte-identical history. Crash-free directory contents are checked after every update. Shim conformance is validated against runs without the shim.",
     "note": "Crash model: death between two file-system calls, each call atomic; no torn writes or reordering of unsynced writes (the property's stated model). Known finding F14 (formats without {epoch}) is listed in findings/known_findings.json and printed as KNOWN-FINDING."},
]

MC_NOTE = ("Bounded to the stated alphabets, sizes and menus; every nondeterministic answer (random draw, completion "
           "order) inside that scope is enumerated, none sampled. Trusted base: the plain-Python reference model, the "
           "seam patches in /verif/mc/seams.py, torch primitives; TorchScript-compiled and CUDA variants not explored.")

CHECKS += [
    {"id": "C05", "engine": "E2-choice-explorer", "level": "model_checking", "design_ref": "DESIGN.md §3 C05",
     "technique": "exhaustive exploration of prune/merge trajectories of the real CTC prefix search over all small score matrices, lens vectors and widths, against two reference models (exact alignment enumeration; dict-based prefix-beam recursion); a regime of exact zeros and ones (every sequence of certain frames x a lexicon LM with hard zeros)",
     "text": "Every (T<=3/4, V<=2/3, N<=3, all lens vectors, widths 1..far beyond the reachable prefixes, seed-valued and structured score matrices incl. exact zero probabilities, plain and valid-mixture fusion with a stateful table LM) search is run on the real module and on ctc_prefix_search_advance step by step; masses are compared with the exact sum over all alignments when nothing was pruned and with an independent prefix-beam recursion of the same width otherwise (near-ties downgraded to upper bounds); structural invariants (no NaN, distinct blank-free prefixes, ordering, padding slots, batch == solo) on every run. States = distinct (frame, beam contents), transitions = frames advanced.",
     "note": MC_NOTE},
    {"id": "C06", "engine": "E1-small-scope", "level": "exploration", "design_ref": "DESIGN.md §3 C06",
     "technique": "bounded exhaustive enumeration of n-gram tables (all subsets of higher-order n-grams for the small cases) x all histories, against a direct Katz back-off recursion on the dicts",
     "text": "All tables over V in {2,3}, order <=3/4, sos inside/outside the vocabulary, with every subset of higher-order n-grams for the small cases (bounded subsets + structured tables otherwise), log-probs on a quarter-integer grid incl. -inf; for each: full call, every chunk size, scalar and per-element idx, state_dict round trip into a fresh instance, ARPA serialise/parse (file and path, base 10 and e); tables with >255 nodes per level cross the integer-width selection.",
     "note": E1_NOTE},
    {"id": "C07", "engine": "E2-choice-explorer", "level": "model_checking", "design_ref": "DESIGN.md §3 C07",
     "technique": "exhaustive exploration of the random-walk tree (torch.multinomial is a choice point answering every positive-probability token, path probabilities carried) plus small-scope enumeration of sequence_log_probs / greedy CTC inputs",
     "text": "sequence_log_probs on every hyp over {-1..V}^T (padded and packed, every dim spelling, eos settings) against a Python loop; the whole walk tree of the real RandomWalk over a history-coded table LM: every leaf ends at first eos/limit, reported log-prob == chain rule == distribution log_prob == sequence_log_probs of the model outputs, leaf probabilities sum to 1; distribution wrapper sample/log_prob/enumerate_support/support.check with default validation; greedy CTC on every frame-label sequence. States = walk-tree nodes, transitions = walk steps, traces = leaves cross-validated three ways.",
     "note": MC_NOTE},
    {"id": "C08", "engine": "E2-choice-explorer", "level": "model_checking", "design_ref": "DESIGN.md §3 C08",
     "technique": "exhaustive enumeration of scripted uniform draws (torch.rand owned by the harness, menu includes 0 and 1-2^-24) per draw group x limit menus, drawn parameters and applied output checked against a reference model; lengths in every admitted dtype, infinite feature cells, valid lengths up to 17000",
     "text": "For every (T,F), length, limit combination and every menu answer to each uniform draw (groups enumerated alone - they share no draws or limits, verified by a joint pass that must reproduce the alone results bit for bit): widths/counts within both caps, masks inside the valid region, warp centre/shift inside the window; applying: masked bands exactly zero, all else bit-identical without warp, shape preserved, eval identity, linear warp monotone and anchored within half a frame, all orders finite and inside the valid frames' value band (padding holds a sentinel).",
     "note": MC_NOTE},
    {"id": "C09", "engine": "E1-small-scope", "level": "exploration", "design_ref": "DESIGN.md §3 C09",
     "technique": "bounded exhaustive enumeration of (length, pad/slice) row configurations and their pairings against per-sequence torch.nn.functional.pad + slice; RandomShift draws scripted exhaustively",
     "text": "pad_variable / chunk_by_slices: every (len, left, right) with pads up to 9 (> T) and every slice in [-6,11]^2 in all three modes, batched in pairs and ragged batches, compared row by row with pad-then-slice of the single sequence; pad_masked_sequence on every boolean mask; RandomShift with every menu answer per element: whole-number pads within the proportion bound, original embedded unchanged, eval identity.",
     "note": E1_NOTE},
    {"id": "C11", "engine": "E1-small-scope", "level": "exploration", "design_ref": "DESIGN.md §3 C11",
     "technique": "bounded exhaustive enumeration of transcript trees / segment orderings / TextGrid option grids with write-then-read comparison; worker completion orders explored on a virtual pool and replayed on the real pool",
     "text": "trn: every alternates tree up to size 3/4 and depth 3 over 1-3 utterances; ctm: all orderings of <=4 segments over <=2 utterances/channels with and without mapping; TextGrid: interval/point tiers, precisions, fill token, times >= 10 s; path vs open file byte-identical under every option; multi-worker trn reading under every completion order of the virtual pool and on the real pool; transcript<->token tensor within one frame shift.",
     "note": E1_NOTE + " Known finding F8b (write_textgrid drops point_tier on the path branch) is printed as KNOWN-FINDING."},
    {"id": "C12", "engine": "E3-statespace", "level": "model_checking", "design_ref": "DESIGN.md §3 C12",
     "technique": "explicit-state breadth-first search over real data directories on tmpfs: transitions are validate(strict) / validate(fix=k) calls, states are canonical directory contents, every state compared with a reference model written from the documented conditions; the order in which the OS lists the directories is explored as an environment answer (every permutation of <= 3 entries)",
     "text": "From every single-utterance directory of the defect menu (and reduced two-utterance products) the real validate_spect_data_set / info command is applied to depth 3; in every state: strict validation raises iff the spec says invalid; a fix either raises leaving each file unchanged-or-repaired or succeeds with exactly the spec's repair; a successful fix is followed by a passing strict validation and is idempotent; the info report equals a recount. sos/eos round trip through __getitem__/write_hyp for every token list incl. empty.",
     "note": MC_NOTE},
    {"id": "C17", "engine": "E2-choice-explorer", "level": "model_checking", "design_ref": "DESIGN.md §3 C17",
     "technique": "exhaustive exploration of worker-pool completion orders (virtual in-process pool, every order of imap_unordered chunks) x small complete corpora x flag grids on the real command entry points, against reference converters; real spawn pool / DataLoader workers replayed for conformance (thorough); directory listing order explored as a further environment answer (every permutation of <= 3 entries)",
     "text": "Round trips trn/ctm/TextGrid <-> token dir and ali <-> token dir for every prefix/suffix; error-rate command totals vs the C02 oracle for every batch size / replace / ignore / per-utt setting; subsetting and statistics commands vs recounts; identical files and figures for worker counts {0,2} under every completion order. States = (command, corpus, schedule) executions.",
     "note": MC_NOTE},
    {"id": "C18", "engine": "E1-small-scope", "level": "exploration", "design_ref": "DESIGN.md §3 C18",
     "technique": "exhaustive enumeration of accumulation histories (every ordered set partition of the chunk pool) and of delta/return argument grids against defining formulas",
     "text": "MVN: every subset of a chunk pool, every partition into accumulate calls in every order, bessel both, feature axis anywhere: stored statistics == pooled statistics, normalised data has mean 0 / variance 1, own statistics when none stored, directory command incl. groups; deltas: every order/width/pad mode/(dim,time_dim,concatenate) vs recursive regression on the padded input; returns: every reward vector over {-1,0,1,2}^T, gamma in {0,.5,1,2}, both layouts.",
     "note": E1_NOTE},
    {"id": "C19", "engine": "E2-choice-explorer", "level": "model_checking", "design_ref": "DESIGN.md §3 C19",
     "technique": "exhaustive exploration of every Bernoulli / categorical draw of the estimators with exact path probabilities: E[value] and E[gradient] over the whole tree vs exact enumeration; quadrature grids for relaxed noise",
     "text": "For every enumerable proposal (1-3 Bernoulli variables, 2-3 class categoricals, fixed-cardinality sampling), function, control variate and 1-2 samples, the complete draw tree of the real estimator is explored and the probability-weighted mean of value and gradient compared with the exact expectation and its gradient; IMH with proposal == target accepts everything; relaxed distributions: threshold(csample(b)) == b and density factorisation on a grid; supports and fixed-cardinality sampling exact. States = draw prefixes, transitions = draws answered, traces = complete trees compared.",
     "note": MC_NOTE + " Known finding F15b (zero-width fixed-cardinality vectors) is printed as KNOWN-FINDING."},
    {"id": "C20", "engine": "E1-small-scope", "level": "exploration", "design_ref": "DESIGN.md §3 C20",
     "technique": "bounded exhaustive enumeration of broadcastable shape tuples, sequence dims, masks and bias-flag subsets; metamorphic relations (convexity, masked-content invariance, permutation invariance, broadcast == expand, head composition) checked on each",
     "text": "Every shape family admitted by the documented broadcasting rules with dims in {1,2,3}, every legal sequence dim (both spellings), every non-empty mask, all four attention flavours: output within the kept values' range, unchanged under finite garbage at masked positions, unchanged under every permutation of positions, broadcast query == expanded query, multi-headed == project/per-head/concat/project with biases exactly where requested.",
     "note": E1_NOTE},
]

CHECKS += [
    {"id": "C04", "engine": "E2-choice-explorer", "level": "model_checking", "design_ref": "DESIGN.md §3 C04",
     "technique": "exhaustive exploration of prune/extend trajectories of the real beam search over a grid of history-dependent table language models, widths 1..beyond exhaustive, eos settings, step limits and batches, against chain-rule re-scoring, complete-sequence enumeration and a reference beam written from the documentation",
     "text": "A purely state-threaded table LM (its state only survives through extract_by_src) makes any mis-threading visible as a score that differs from the chain rule of the returned tokens. Every (table, V<=3, width 1..V^T+3, eos in {None, each token}, finish_all_paths, max_iters 0..3/4 and unbounded, batch None/1/3 with per-element offsets) search: finite-score paths distinct, stop at first eos, score == chain rule, best-first order, -inf slots last, full set at exhaustive width, batch element == solo; per-step state observed through the documented update_log_probs_for_step hook; beam_search_advance stepwise vs top-k of the joint table. States = distinct (step, beam contents), transitions = prune/extend steps, traces = searches re-scored by the oracle.",
     "note": MC_NOTE},
]

CHECKS += [
    {"id": "C10", "engine": "E1-small-scope", "level": "exploration", "design_ref": "DESIGN.md §3 C10",
     "technique": "bounded exhaustive enumeration of lengths / alignments / segment lists x the 3x3x2 policy grid x lobes against an oracle written from the documentation's prose; directory-level command runs over generated directories",
     "text": "fixed: every T<=8, length, lobe 0..3, window, validity, in_lens given/omitted; ali: every alignment over {0,1}^T and {0,1,2}^T, T<=5, every length incl. == T; ref: every list of <=3 segments over a boundary menu, in_lens/other_lens given or omitted; windows must be exactly the prescribed ones, in order, labelled by source, inside the sequence when valid-only. Token chunking on the same lists x every slice in [-2,6]^2 x partial x retain. chunk-torch-spect-data-dir over generated directories: each chunk equals the source restricted to its window and the output validates.",
     "note": E1_NOTE + " Known finding F6 (boundaries shifted by +start instead of -start; an unedited repository test hard-codes it) is printed as KNOWN-FINDING (F6a-c)."},
]

CHECKS += [
    {"id": "C13", "engine": "E3-statespace", "level": "model_checking", "design_ref": "DESIGN.md §3 C13",
     "technique": "explicit enumeration of sampler histories under a simulated process group: every (N, world, rank, mode, seed), consumed-epochs vs fresh-at-epoch, every operation sequence (iterate / peek / len / assign epoch) up to depth 3-4 on one sampler object",
     "text": "For N<=12/24, world<=5/8, every rank, the four uneven modes, sequential and random samplers (seeds 0..3/7): orders after consuming k epochs equal a fresh sampler at init_epoch=k, len == number yielded, per-rank lists are disjoint and cover exactly the documented index set, strict mode raises iff indivisible, ignore gives every rank the full epoch; every sequence of {iterate, peek current, peek next, len, epoch := 0, epoch := 2} up to depth 3/4 leaves the order a function of (seed, epoch) alone. The simulated group is validated against a real 2(3)-process gloo group (traces). States = (configuration, epoch, history) reached, transitions = operations.",
     "note": MC_NOTE + " torch.distributed is simulated at the four query functions the samplers use."},
    {"id": "C14", "engine": "E1-small-scope", "level": "exploration", "design_ref": "DESIGN.md §3 C14",
     "technique": "bounded exhaustive enumeration of bucket assignments x size maps x sampler orders for the bucket sampler, and of length tuples x loader flag grids on real tmpfs directories, against reference length classes and lossless-collation oracles; directory listing order explored as an environment answer (every permutation of <= 3 entries)",
     "text": "BucketBatchSampler: every assignment of n<=6 indices to <=3 buckets, every size map, every permutation order, both drop settings - single-bucket batches in sampler order, right sizes, only trailing short batches, exact cover. Loaders: every length tuple over {1,2,3} for n<=5, batch sizes, bucket counts, dynamic sizing, drop_last, shuffle, sort_batch, batch_first, suppress flags: len == batches yielded for epochs 0..2, identical batches for identical (seed, epoch), bucket purity against reference length classes, lossless collation with correct pad values and attached ids; context windows vs an edge-replicating reference; thorough: len under a simulated process group.",
     "note": E1_NOTE},
]

_PENDING = "check under construction in this session; not yet claimed"
NOT_APPLICABLE = [
    {"property_id": p, "reason": _PENDING}
    for p in []
]

NOTES = ("All checks are bounded-exhaustive explorations of the real implementation (model-checking family); "
         "VERIF_SEED only changes don't-care numeric fillers. Known findings: /verif/findings/known_findings.json. "
         "See DESIGN.md.")
