#!/usr/bin/env python3
"""Regenerates /verif/MANIFEST.json from the table below (kept valid at all times)."""
import json, os, subprocess, sys
here = os.path.dirname(os.path.dirname(os.path.abspath(__file__)))
sys.path.insert(0, here)
from tools.manifest_table import CHECKS, NOT_APPLICABLE, ENGINES, NOTES, SOURCE_COMMITS

CHECKS = sorted(CHECKS, key=lambda c: c["id"])
for e in ENGINES:
    e["serves_properties"] = [c["id"] for c in CHECKS if c["engine"] == e["name"]]
checks = []
for c in CHECKS:
    pid = c["id"]
    checks.append({
        "property_id": pid,
        "quick_cmd": f"./check {pid} --tier quick",
        "thorough_cmd": f"./check {pid} --tier thorough",
        "evidence_file": f"/verif/evidence/{pid}.json",
        "replay_cmd_template": f"./check {pid} --replay {{path}}",
        "engine": c["engine"],
        "level_claimed": {"category": c["level"], "text": c["text"], "design_ref": c["design_ref"]},
        "level_note": c["note"],
        "technique": c["technique"],
    })
m = {
    "version": 1,
    "setup_cmd": "./setup.sh",
    "hooks": {
        "guard": "PYDROBERT_TORCH_VERIF",
        "enable": "no source hooks: every seam (torch RNG, worker pools, torch.distributed queries, file system) is patched from /verif at run time; the guard name is reserved and read by nothing in /repo",
        "baseline_off_cmd": "cd /repo && /venv/bin/python -m pytest -ra -q -p no:cacheprovider --timeout=900 --continue-on-collection-errors",
        "source_commits": SOURCE_COMMITS,
        "add_only": True,
    },
    "engines": ENGINES,
    "checks": checks,
    "notes": NOTES,
    "not_applicable": NOT_APPLICABLE,
}
with open(os.path.join(here, "MANIFEST.json"), "w") as f:
    json.dump(m, f, indent=1)
r = subprocess.run(["python3-vt", os.path.join(here, "mc", "validate_evidence.py"), os.path.join(here, "MANIFEST.json")], capture_output=True, text=True)
print(r.stdout.strip(), r.stderr.strip())
sys.exit(r.returncode)
