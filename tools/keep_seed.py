#!/usr/bin/env python3
"""tools/keep_seed.py <src dir> <seed id> <property> <detected: yes|no|partly> <needs...>
Copies patch.diff, demo.py, notes.md into /verif/seeded/<seed id>/ and writes meta.json."""
import json, os, shutil, sys
src, sid, prop, detected = sys.argv[1:5]
needs = " ".join(sys.argv[5:])
dst = os.path.join("/verif/seeded", sid)
os.makedirs(dst, exist_ok=True)
for f in ("patch.diff", "patch_corrected.diff", "demo.py", "notes.md"):
    if os.path.exists(os.path.join(src, f)):
        shutil.copy(os.path.join(src, f), os.path.join(dst, f))
meta = {
    "id": sid, "property": prop, "origin": "independent sub-agent given only the property text and a scratch worktree",
    "needs_to_manifest": needs,
    "confirmed": "tools/try_seed.sh: demo.py exits 0 on the unmodified tree and 1 with patch.diff applied (scratch worktree); "
                 "the sub-agent ran the repository test file(s) named in notes.md with and without the change (same pass counts)",
    "detected_by_check": detected,
    "ran": f"tools/try_seed.sh /verif/seeded/{sid} {prop}",
}
if os.path.exists(os.path.join(src, "patch_corrected.diff")):
    meta["origin"] += "; asked for a complete, realistic pull request (40-150 changed lines) hiding one subtle defect"
    meta["corrected_variant"] = ("patch_corrected.diff = the same pull request with the defect repaired; tools/try_pr.sh ran the "
                                 "check on it too: silent (exit 0) - false-alarm test on a large behaviour-preserving diff")
    meta["ran"] = f"tools/try_pr.sh /verif/seeded/{sid} {prop}"
if os.environ.get("KEEP_NOTE"):
    meta["note"] = os.environ["KEEP_NOTE"]
json.dump(meta, open(os.path.join(dst, "meta.json"), "w"), indent=1)
print("kept", dst)
