"""Generic guards against bug classes that no single-call comparison sees (found by the seeded changes of
round 2, DESIGN §9).  Every check should cover, for each entry point it drives:

  1. arguments unchanged ........ the call must not modify tensors handed to it (``Unchanged``)
  2. results not aliased ........ a result kept from an earlier call must not change when the same function /
                                  module object is called again with other inputs (``Kept``)
  3. memory layouts ............. the same values handed in as an offset view, as a transposed-dense view and
                                  (where the API admits it) in another dtype give the same answer (``layouts``)
  4. object histories ........... call, mutate a public attribute or change the input shape, call again on ONE
                                  object: the later result must equal a fresh object's (written per check)
  5. don't-care regions ......... positions the property says are ignored may hold anything, incl. non-finite values
"""

import torch


class GuardViolation(AssertionError):
    pass


class Unchanged:
    """with Unchanged(x, lens): y = f(x, lens)  -> raises GuardViolation if an argument was modified."""

    def __init__(self, *tensors):
        self.tensors = [t for t in tensors if isinstance(t, torch.Tensor)]

    def __enter__(self):
        self.copies = [t.detach().clone() for t in self.tensors]
        return self

    def __exit__(self, et, ev, tb):
        if et is None:
            for i, (t, c) in enumerate(zip(self.tensors, self.copies)):
                same = torch.equal(t, c) or bool(((t != t) & (c != c) | (t == c)).all())
                if not same:
                    raise GuardViolation(f"argument {i} modified in place")
        return False


class Kept:
    """k = Kept(result); <later calls>; k.check()  -> raises GuardViolation if the kept result changed."""

    def __init__(self, *results):
        self.results = [r for r in results if isinstance(r, torch.Tensor)]
        self.copies = [r.detach().clone() for r in self.results]

    def check(self):
        for i, (r, c) in enumerate(zip(self.results, self.copies)):
            if r.shape != c.shape or not bool(((r != r) & (c != c) | (r == c)).all()):
                raise GuardViolation(f"result {i} of an earlier call changed after a later call (aliased buffer)")


def layouts(t, dim_pair=(0, 1)):
    """Yields (name, tensor) holding the same values as ``t`` in different memory layouts."""
    yield "contiguous", t.contiguous()
    if t.dim() >= 1 and t.size(0) > 0:
        big = torch.cat([t[:1].expand((2,) + tuple(t.shape[1:])), t], 0)  # two foreign rows in front
        yield "offset-view", big[2:]
    if t.dim() >= 2:
        a, b = dim_pair
        yield "transposed-dense", t.transpose(a, b).contiguous().transpose(a, b)
