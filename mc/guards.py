"""Generic guards against bug classes that no single-call comparison sees (found by the seeded changes of
round 2, DESIGN §9).  Every check should cover, for each entry point it drives:

  1. arguments unchanged ........ the call must not modify tensors handed to it (``Unchanged``)
  2. results not aliased ........ a result kept from an earlier call must not change when the same function /
                                  module object is called again with other inputs (``Kept``)
  3. memory layouts ............. the same values handed in as an offset view, as a transposed-dense view and
                                  (where the API admits it) in another dtype give the same answer (``layouts``)
  4. object histories ........... call, mutate a public attribute or change the input shape, call again on ONE
                                  object: the later result must equal a fresh object's (written per check)
  5. don't-care regions ......... positions the property says are ignored may hold anything, incl. non-finite values
"""

import torch


class GuardViolation(AssertionError):
    pass


class Unchanged:
    """with Unchanged(x, lens): y = f(x, lens)  -> raises GuardViolation if an argument was modified."""

    def __init__(self, *tensors):
        self.tensors = [t for t in tensors if isinstance(t, torch.Tensor)]

    def __enter__(self):
        self.copies = [t.detach().clone() for t in self.tensors]
        return self

    def __exit__(self, et, ev, tb):
        if et is None:
            for i, (t, c) in enumerate(zip(self.tensors, self.copies)):
                same = torch.equal(t, c) or bool(((t != t) & (c != c) | (t == c)).all())
                if not same:
                    raise GuardViolation(f"argument {i} modified in place")
        return False


class Kept:
    """k = Kept(result); <later calls>; k.check()  -> raises GuardViolation if the kept result changed."""

    def __init__(self, *results):
        self.results = [r for r in results if isinstance(r, torch.Tensor)]
        self.copies = [r.detach().clone() for r in self.results]

    def check(self):
        for i, (r, c) in enumerate(zip(self.results, self.copies)):
            if r.shape != c.shape or not bool(((r != r) & (c != c) | (r == c)).all()):
                raise GuardViolation(f"result {i} of an earlier call changed after a later call (aliased buffer)")


def layouts(t, dim_pair=(0, 1)):
    """Yields (name, tensor) holding the same values as ``t`` in different memory layouts."""
    yield "contiguous", t.contiguous()
    if t.dim() >= 1 and t.size(0) > 0:
        big = torch.cat([t[:1].expand((2,) + tuple(t.shape[1:])), t], 0)  # two foreign rows in front
        yield "offset-view", big[2:]
    if t.dim() >= 2:
        a, b = dim_pair
        yield "transposed-dense", t.transpose(a, b).contiguous().transpose(a, b)


# ---------------------------------------------------------------------------------------------------------------
# 6. object lifecycle (round 5): the object that reaches the call is rarely the one the constructor returned - data
#    loader workers and DDP pickle it, training scripts deepcopy it, checkpoints go through state_dict /
#    torch.save.  Every variant below must behave exactly like ``make()``.
def lifecycle_variants(make, used=None, kinds=None, make_other=None):
    """Yields (name, object).  ``make()`` builds a fresh, fully configured object (configure it with FALSY but
    legal option values too: eos=0, flags False, costs/proportions 0.0, padding 0 - 'missing' is often confused
    with 'falsy' when state is restored).  ``used(obj)``, if given, exercises an object once (so that lazily built
    caches exist) before it is copied.  Module-only variants are skipped for other objects.

      deepcopy / pickle / torch.save ....... the three routes through __reduce__/__getstate__/__setstate__
      used+deepcopy ......................... copy of an object that has already been called (caches travel along)
      eval+deepcopy ......................... (modules) a copy of a module in eval mode must still be in eval mode
      state_dict ............................ (modules) fresh.load_state_dict(other.state_dict()), both from make()
      state_dict-after-use .................. (modules) the receiving module was called BEFORE the load (stale
                                              derived state), strict load of a same-configuration state dict
      double-float .......................... (modules) .double() then .float() (buffers rebuilt through _apply)
      state_dict-into-other ................. (modules, needs ``make_other``) ``make_other()`` builds a module with
                                              the same parameter shapes but OTHER option values / other weights
                                              (and is exercised with ``used``); after
                                              ``other.load_state_dict(make().state_dict())`` it must compute with
                                              the loaded weights (no stale derived state) - compare it with an
                                              object built like ``make_other()`` whose parameters and buffers were
                                              copied by hand.  A load that raises is skipped by the caller.
    """
    import copy
    import io
    import pickle

    kinds = set(kinds) if kinds is not None else None

    def want(k):
        return kinds is None or k in kinds

    if want("deepcopy"):
        yield "deepcopy", copy.deepcopy(make())
    if want("pickle"):
        yield "pickle", pickle.loads(pickle.dumps(make()))
    if want("torch.save"):
        buf = io.BytesIO()
        torch.save(make(), buf)
        buf.seek(0)
        yield "torch.save", torch.load(buf, weights_only=False)
    if used is not None and want("used+deepcopy"):
        o = make()
        used(o)
        yield "used+deepcopy", copy.deepcopy(o)
    if isinstance(make(), torch.nn.Module):
        if want("eval+deepcopy"):
            o = make()
            o.eval()
            c = copy.deepcopy(o)
            if c.training or any(m.training for m in c.modules()):
                raise GuardViolation("deepcopy of a module in eval mode is back in training mode")
            c.train(make().training)
            yield "eval+deepcopy", c
        if want("state_dict"):
            o = make()
            o.load_state_dict(make().state_dict())
            yield "state_dict", o
        if used is not None and want("state_dict-after-use"):
            o = make()
            was = o.training
            used(o)
            o.eval()
            with torch.no_grad():
                used(o)
            o.train(was)
            o.load_state_dict(make().state_dict())
            yield "state_dict-after-use", o
        if want("double-float"):
            o = make()
            try:
                o = o.double().float()
            except Exception:  # noqa: BLE001 - a module without floating state has nothing to convert
                o = None
            if o is not None:
                yield "double-float", o
        if make_other is not None and want("state_dict-into-other"):
            o = make_other()
            if used is not None:
                was = o.training
                o.eval()
                with torch.no_grad():
                    used(o)
                o.train(was)
            try:
                o.load_state_dict(make().state_dict())
            except Exception:  # noqa: BLE001 - a refused load decides nothing
                o = None
            if o is not None:
                yield "state_dict-into-other", o
