"""E2 - stateless choice-point explorer.

An *execution* is the list of answers given at its choice points.  ``explore(run)`` re-runs
``run(chooser)`` from scratch for every prefix extension (depth first, default answer 0
first), verifies that replaying a prefix reproduces the same labelled choice points
(divergence = harness error, never a verdict), optionally bounds the number of non-default
answers (deviations), and multiplies the probabilities the seams attach to answers so exact
expectations over the whole tree can be formed.
"""


class HarnessError(Exception):
    pass


class Chooser:
    def __init__(self, prefix=(), expect=()):
        self.prefix = list(prefix)
        self.expect = list(expect)  # (label, arity) the parent execution saw
        self.trace = []  # (label, arity, choice, prob)

    def choose(self, n, label="", probs=None):
        if n <= 0:
            raise HarnessError(f"choice point {label!r} with no alternatives")
        i = len(self.trace)
        if i < len(self.prefix):
            c = self.prefix[i]
            if i < len(self.expect) and self.expect[i] != (label, n):
                raise HarnessError(
                    f"replay divergence at point {i}: saw {(label, n)}, expected {self.expect[i]}"
                )
            if c >= n:
                raise HarnessError(f"replay divergence at point {i}: choice {c} >= arity {n}")
        else:
            c = 0
        self.trace.append((label, n, c, None if probs is None else float(probs[c])))
        return c

    @property
    def choices(self):
        return [t[2] for t in self.trace]

    @property
    def prob(self):
        p = 1.0
        for t in self.trace:
            if t[3] is not None:
                p *= t[3]
        return p


def explore(run, max_deviations=None, max_execs=None):
    """Yields (chooser, result) for every execution.  ``result`` is run's return value or the
    exception it raised (exceptions other than HarnessError are data for the caller)."""
    stack = [([], [])]
    n = 0
    while stack:
        prefix, expect = stack.pop()
        ch = Chooser(prefix, expect)
        try:
            res = run(ch)
        except HarnessError:
            raise
        except Exception as e:  # noqa: BLE001 - handed to the oracle
            res = e
        if len(ch.trace) < len(prefix):
            raise HarnessError("replay divergence: execution ended before its prefix was consumed")
        yield ch, res
        n += 1
        if max_execs is not None and n >= max_execs:
            return
        exp = [(t[0], t[1]) for t in ch.trace]
        dev0 = sum(1 for c in prefix if c != 0)
        # push deeper points first so that the shallowest alternative is explored last (DFS)
        for i in range(len(prefix), len(ch.trace)):
            arity = ch.trace[i][1]
            if arity <= 1:
                continue
            if max_deviations is not None and dev0 + 1 > max_deviations:
                continue
            base = ch.choices[:i]
            for alt in range(arity - 1, 0, -1):
                stack.append((base + [alt], exp[: i + 1]))
