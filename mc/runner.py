"""Runner shared by every check: sharding, merging, known findings, evidence, exit codes.

A check module (``checks/cXX.py``) defines

    PROP   = "C01"
    LEVEL  = "exploration" | "model_checking" | "fault_enumeration"
    RULE   = "how cases are enumerated and what makes one non-trivial"
    ASSUMPTIONS = [...]
    def shards(tier, seed) -> list          # picklable shard specs, complete cover of the space
    def run_shard(spec, tier, seed) -> Ctx  # evaluates every case of the shard
    def replay(case) -> Ctx                 # re-runs one stored case (from a replay file)
    BUDGET_S = {"quick": 150, "thorough": 1500}   (optional wall budget)

and is started with ``/verif/check C01 [--tier quick|thorough] [--replay FILE]``.
"""

import hashlib
import importlib
import json
import os
import subprocess
import sys
import time
import traceback
from collections import Counter

VERIF = os.path.dirname(os.path.dirname(os.path.abspath(__file__)))
REPO = os.environ.get("VERIF_REPO", "/repo")
MAX_SAMPLES = 6
MAX_VIOL_PER_SIG = 3
MAX_REPLAY_FILES = 8


def jsonable(x):
    """Best-effort conversion of cases (tensors, tuples, numpy) to JSON values."""
    try:
        import torch

        if isinstance(x, torch.Tensor):
            return x.detach().cpu().tolist()
    except Exception:  # pragma: no cover
        pass
    try:
        import numpy as np

        if isinstance(x, np.ndarray):
            return x.tolist()
        if isinstance(x, np.generic):
            return x.item()
    except Exception:  # pragma: no cover
        pass
    if isinstance(x, dict):
        return {str(k): jsonable(v) for k, v in x.items()}
    if isinstance(x, (list, tuple, set, frozenset)):
        return [jsonable(v) for v in x]
    if isinstance(x, float):
        if x != x:
            return "nan"
        if x in (float("inf"), float("-inf")):
            return "inf" if x > 0 else "-inf"
        return x
    if isinstance(x, (int, str, bool)) or x is None:
        return x
    return repr(x)


def h64(obj) -> int:
    """Stable 64-bit hash of a JSON-able object (independent of PYTHONHASHSEED)."""
    s = json.dumps(jsonable(obj), sort_keys=True, separators=(",", ":"))
    return int.from_bytes(hashlib.blake2b(s.encode(), digest_size=8).digest(), "big")


class Ctx:
    """Accumulator filled by one shard; merged by the parent."""

    def __init__(self):
        self.evaluations = 0
        self.nontrivial = 0  # distinct by construction (duplicate-free generators)
        self.keys = set()  # hashed keys of non-trivial cases (measured distinctness)
        self.outcomes = set()  # hashed distinct observed outcomes
        self.states = set()
        self.transitions = 0
        self.traces = 0
        self.samples = []
        self.violations = []  # dicts: sig, detail, case
        self.viol_count = Counter()
        self.counters = Counter()
        self.notes = []
        self.skipped = 0  # shards skipped because the wall budget ran out
        self.capped = []  # names of caps that were hit

    # ---- recording -----------------------------------------------------------------
    def case(self, n=1, nontrivial=0):
        self.evaluations += n
        self.nontrivial += nontrivial

    def key(self, key, nontrivial=True):
        self.evaluations += 1
        if nontrivial:
            self.keys.add(h64(key) if not isinstance(key, int) else key)

    def outcome(self, o):
        if len(self.outcomes) < 200000:
            self.outcomes.add(o if isinstance(o, int) else h64(o))

    def state(self, s):
        self.states.add(s if isinstance(s, int) else h64(s))

    def sample(self, s):
        if len(self.samples) < MAX_SAMPLES:
            self.samples.append(jsonable(s))

    def count(self, name, n=1):
        self.counters[name] += n

    def violation(self, sig, case, detail=None):
        """sig: small dict classifying the failure (matched against known findings);
        case: everything needed to replay; detail: expected/observed."""
        sig = jsonable(sig)
        k = json.dumps(sig, sort_keys=True)
        self.viol_count[k] += 1
        if self.viol_count[k] <= MAX_VIOL_PER_SIG:
            self.violations.append(
                {"sig": sig, "case": jsonable(case), "detail": jsonable(detail)}
            )

    def merge(self, o):
        self.evaluations += o.evaluations
        self.nontrivial += o.nontrivial
        self.keys |= o.keys
        self.outcomes |= o.outcomes
        self.states |= o.states
        self.transitions += o.transitions
        self.traces += o.traces
        for s in o.samples:
            if len(self.samples) < MAX_SAMPLES:
                self.samples.append(s)
        for v in o.violations:
            k = json.dumps(v["sig"], sort_keys=True)
            if sum(1 for w in self.violations if json.dumps(w["sig"], sort_keys=True) == k) < MAX_VIOL_PER_SIG:
                self.violations.append(v)
        self.viol_count.update(o.viol_count)
        self.counters.update(o.counters)
        self.notes.extend(n for n in o.notes if n not in self.notes)
        self.skipped += o.skipped
        self.capped.extend(c for c in o.capped if c not in self.capped)
        return self


# -------------------------------------------------------------------------------------
def _worker_init():
    os.environ.setdefault("OMP_NUM_THREADS", "1")
    try:
        import torch

        torch.set_num_threads(1)
    except Exception:  # pragma: no cover
        pass
    import warnings

    warnings.filterwarnings("ignore")
    # exploratory aid (never set by MANIFEST commands): run a whole check under another global torch state
    gs = os.environ.get("VERIF_GLOBAL_STATE")
    if gs == "float64":
        import torch

        torch.set_default_dtype(torch.float64)


def _run_one(args):
    modname, spec, tier, seed, deadline = args
    mod = importlib.import_module(modname)
    if time.time() > deadline:
        c = Ctx()
        c.skipped = 1
        return c
    try:
        return mod.run_shard(spec, tier, seed)
    except BaseException as e:  # harness or library blew up outside a guarded call
        c = Ctx()
        c.evaluations = 1
        c.violation(
            {"symptom": "uncaught-exception", "type": type(e).__name__},
            {"kind": "shard", "spec": spec},
            {"traceback": traceback.format_exc()[-3000:]},
        )
        return c


def load_known():
    p = os.path.join(VERIF, "findings", "known_findings.json")
    if not os.path.exists(p):
        return []
    with open(p) as f:
        out = json.load(f)["findings"]
    extra = os.environ.get("VERIF_EXTRA_KNOWN")  # development aid only, never set by MANIFEST commands
    if extra and os.path.exists(extra):
        with open(extra) as f:
            out = out + json.load(f)["findings"]
    return out


def match_known(prop, sig, known):
    for e in known:
        if e.get("property") != prop or e.get("status") != "known":
            continue
        m = e.get("match", {})
        if all(sig.get(k) == v for k, v in m.items()):
            return e
    return None


def repo_state():
    try:
        head = subprocess.run(
            ["git", "-C", REPO, "rev-parse", "HEAD"], capture_output=True, text=True
        ).stdout.strip()
        dirty = bool(
            subprocess.run(
                ["git", "-C", REPO, "status", "--porcelain", "--untracked-files=no"],
                capture_output=True,
                text=True,
            ).stdout.strip()
        )
        return head, dirty
    except Exception:  # pragma: no cover
        return "unknown", False


def main(argv=None):
    import argparse

    ap = argparse.ArgumentParser()
    ap.add_argument("prop")
    ap.add_argument("--tier", default=os.environ.get("VERIF_TIER", "quick"))
    ap.add_argument("--replay", default=None)
    ap.add_argument("--procs", type=int, default=int(os.environ.get("VERIF_PROCS", "0")))
    ap.add_argument("--no-evidence", action="store_true")
    a = ap.parse_args(argv)
    tier = a.tier if a.tier in ("quick", "thorough") else "quick"
    seed = int(os.environ.get("VERIF_SEED", "0") or 0)
    prop = a.prop.upper()
    modname = "checks." + prop.lower()
    os.environ.setdefault("PYTHONHASHSEED", "0")
    _worker_init()
    mod = importlib.import_module(modname)

    import pydrobert.torch as pt

    src = os.path.realpath(pt.__file__)
    if not src.startswith(os.path.realpath(REPO) + os.sep):
        print(f"HARNESS-ERROR: pydrobert.torch imported from {src}, not {REPO}")
        return 2

    known = load_known()
    t0 = time.time()
    total = Ctx()
    if a.replay:
        with open(a.replay) as f:
            rep = json.load(f)
        total = mod.replay(rep["case"])
        nshards = 1
    else:
        specs = list(mod.shards(tier, seed))
        nshards = len(specs)
        budget = getattr(mod, "BUDGET_S", {}).get(tier, 900 if tier == "quick" else 3000)
        budget = max(budget, 1500 if tier == "quick" else 5400)  # caps are for runaway runs, not for a busy machine
        budget = float(os.environ.get("VERIF_BUDGET_S", budget))
        deadline = t0 + budget
        procs = a.procs or min(os.cpu_count() or 1, 16, max(1, nshards))
        jobs = [(modname, s, tier, seed, deadline) for s in specs]
        if procs <= 1 or nshards <= 1:
            for j in jobs:
                total.merge(_run_one(j))
        else:
            import multiprocessing as mp

            ctx = mp.get_context("spawn")
            with ctx.Pool(procs, initializer=_worker_init) as pool:
                for c in pool.imap_unordered(_run_one, jobs, chunksize=1):
                    total.merge(c)
        if hasattr(mod, "finalize"):
            mod.finalize(total, tier, seed)
    wall = time.time() - t0

    # ---- classify violations -------------------------------------------------------
    known_hit = {}
    unknown = []
    for v in total.violations:
        e = match_known(prop, v["sig"], known)
        if e is not None:
            known_hit.setdefault(e["id"], (e, []))[1].append(v)
        else:
            unknown.append(v)
    n_unknown_total = 0
    for k, n in total.viol_count.items():
        if match_known(prop, json.loads(k), known) is None:
            n_unknown_total += n
    for fid, (e, vs) in sorted(known_hit.items()):
        print(f"KNOWN-FINDING: property={prop} {e['id']}: {e['what']}")
    replay_paths = []
    if unknown and not a.replay:
        os.makedirs(os.path.join(VERIF, "replay"), exist_ok=True)
    for v in unknown[:MAX_REPLAY_FILES]:
        if a.replay:
            path = a.replay
        else:
            hh = "%016x" % h64([v["sig"], v["case"]])
            path = os.path.join(VERIF, "replay", f"{prop}-{hh}.json")
            with open(path, "w") as f:
                json.dump(
                    {
                        "property": prop,
                        "sig": v["sig"],
                        "case": v["case"],
                        "detail": v["detail"],
                        "replay_cmd": f"./check {prop} --replay {path}",
                    },
                    f,
                    indent=1,
                )
        replay_paths.append(path)
        print(f"VIOLATION property={prop} replay={path}")
        print("  signature:", json.dumps(v["sig"], sort_keys=True))
        d = json.dumps(v["detail"])
        print("  detail:", d[:600])

    exhaustive = total.skipped == 0 and not total.capped
    distinct = total.nontrivial + len(total.keys)
    cov = {
        "evaluations": int(total.evaluations),
        "distinct_nontrivial": int(distinct),
        "rule": getattr(mod, "RULE", ""),
        "samples": total.samples[:MAX_SAMPLES],
        "distinct_outcomes": len(total.outcomes),
        "exhaustive": bool(exhaustive),
        "shards": nshards,
        "shards_skipped_by_budget": total.skipped,
        "caps_hit": total.capped,
        "counters": dict(total.counters),
        "known_findings_hit": sorted(known_hit),
        "violation_instances": {k: n for k, n in total.viol_count.items()},
        "repo_head": repo_state()[0],
        "repo_dirty": repo_state()[1],
        "notes": total.notes,
    }
    if mod.LEVEL == "model_checking":
        cov["states"] = max(len(total.states), 0)
        cov["transitions"] = int(total.transitions)
        cov["traces_validated_against_impl"] = int(total.traces)
    elif total.states or total.transitions:
        cov["states"] = len(total.states)
        cov["transitions"] = int(total.transitions)
    ev = {
        "property_id": prop,
        "tier": tier,
        "seed": seed,
        "level": mod.LEVEL,
        "coverage": cov,
        "assumptions": list(getattr(mod, "ASSUMPTIONS", [])),
        "wall_s": round(wall, 2),
        "violations": int(n_unknown_total),
    }
    print(
        f"[{prop}] tier={tier} seed={seed} evaluations={cov['evaluations']} "
        f"distinct_nontrivial={distinct} outcomes={len(total.outcomes)} "
        f"states={len(total.states)} transitions={total.transitions} traces={total.traces} "
        f"exhaustive={exhaustive} wall={wall:.1f}s violations={n_unknown_total} "
        f"known={sorted(known_hit)}"
    )
    if total.capped:
        print("  caps hit:", total.capped, "| notes:", total.notes[:3])
    if total.skipped:
        print(f"WARNING: wall budget exhausted - {total.skipped} of {nshards} shards were NOT run "
              "(evidence says exhaustive=false); re-run with VERIF_BUDGET_S=<seconds> on a loaded machine")
    if total.counters:
        print("  counters:", dict(total.counters))
    if total.viol_count:
        print("  violation classes (signature: instances):")
        for k, n in sorted(total.viol_count.items(), key=lambda kv: -kv[1])[:40]:
            tag = "known" if match_known(prop, json.loads(k), known) is not None else "NEW"
            print(f"    [{tag}] {k}: {n}")
    if not a.replay and not a.no_evidence:
        os.makedirs(os.path.join(VERIF, "evidence"), exist_ok=True)
        evp = os.path.join(VERIF, "evidence", f"{prop}.json")
        with open(evp, "w") as f:
            json.dump(ev, f, indent=1)
        r = subprocess.run(
            [
                "python3-vt",
                os.path.join(VERIF, "mc", "validate_evidence.py"),
                evp,
            ],
            capture_output=True,
            text=True,
        )
        if r.returncode != 0:
            print("HARNESS-ERROR: evidence does not validate:", r.stdout, r.stderr)
            return 2
    return 1 if unknown else 0


if __name__ == "__main__":
    sys.exit(main())
