"""Reference models for C01-C03: textbook weighted Levenshtein in plain Python."""

from functools import lru_cache
from fractions import Fraction

INF = float("inf")


def effective(seq, eos, include_eos):
    """Counted tokens of a stored sequence: up to the first eos, eos counted on request."""
    seq = tuple(seq)
    if eos is None:
        return seq
    for i, t in enumerate(seq):
        if t == eos:
            return seq[: i + 1] if include_eos else seq[:i]
    return seq


@lru_cache(maxsize=None)
def table(ref, hyp, ins, dele, sub):
    """Full DP table.  D[r][h] = min cost turning ref[:r] into hyp[:h]; lo/hi = fewest and
    most edit operations among the minimum-cost alignments.  Costs are Fractions or
    floats; comparisons are exact when they are Fractions."""
    R, H = len(ref), len(hyp)
    D = [[None] * (H + 1) for _ in range(R + 1)]
    lo = [[0] * (H + 1) for _ in range(R + 1)]
    hi = [[0] * (H + 1) for _ in range(R + 1)]
    for r in range(R + 1):
        for h in range(H + 1):
            if r == 0 and h == 0:
                D[0][0] = 0 * ins
                continue
            cands = []
            if r > 0:
                cands.append((D[r - 1][h] + dele, lo[r - 1][h] + 1, hi[r - 1][h] + 1))
            if h > 0:
                cands.append((D[r][h - 1] + ins, lo[r][h - 1] + 1, hi[r][h - 1] + 1))
            if r > 0 and h > 0:
                if ref[r - 1] == hyp[h - 1]:
                    cands.append((D[r - 1][h - 1], lo[r - 1][h - 1], hi[r - 1][h - 1]))
                else:
                    cands.append(
                        (D[r - 1][h - 1] + sub, lo[r - 1][h - 1] + 1, hi[r - 1][h - 1] + 1)
                    )
            best = min(c[0] for c in cands)
            D[r][h] = best
            lo[r][h] = min(c[1] for c in cands if c[0] == best)
            hi[r][h] = max(c[2] for c in cands if c[0] == best)
    return D, lo, hi


def frac(x):
    return Fraction(x).limit_denominator(1 << 20)


def distance(ref, hyp, costs):
    """(cost, lo, hi) for the full strings, and per hypothesis prefix."""
    ins, dele, sub = (frac(c) for c in costs)
    D, lo, hi = table(tuple(ref), tuple(hyp), ins, dele, sub)
    R = len(ref)
    return (
        [float(D[R][h]) for h in range(len(hyp) + 1)],
        [lo[R][h] for h in range(len(hyp) + 1)],
        [hi[R][h] for h in range(len(hyp) + 1)],
    )


def ocd_targets(ref, prefix, costs, alphabet):
    """Tokens t such that the smallest distance any completion of prefix+t can reach equals
    the smallest any completion of prefix can reach (= row minimum of the table)."""
    ins, dele, sub = (frac(c) for c in costs)
    ref = tuple(ref)
    prefix = tuple(prefix)
    D, _, _ = table(ref, prefix, ins, dele, sub)
    base = min(D[r][len(prefix)] for r in range(len(ref) + 1))
    out = []
    for t in sorted(set(alphabet) | set(ref)):
        D2, _, _ = table(ref, prefix + (t,), ins, dele, sub)
        m = min(D2[r][len(prefix) + 1] for r in range(len(ref) + 1))
        if m == base:
            out.append(t)
    return out


def lev_int(ref, hyp, ci, cd, cs):
    """Two-row weighted Levenshtein with integer costs (for the large-instance passes)."""
    R = len(ref)
    prev = [r * cd for r in range(R + 1)]
    for h in hyp:
        cur = [prev[0] + ci] + [0] * R
        for r in range(1, R + 1):
            a = prev[r] + ci
            b = prev[r - 1] + (0 if ref[r - 1] == h else cs)
            c = cur[r - 1] + cd
            cur[r] = a if (a <= b and a <= c) else (b if b <= c else c)
        prev = cur
    return prev[R]


def lev_int_full(ref, hyp, ci, cd, cs):
    """Integer-cost DP carrying (cost, fewest edits, most edits) per cell; returns the three lists over hypothesis
    prefixes for the full reference, and the full cost table (list over prefixes of columns) for the OCD oracle."""
    R = len(ref)
    col = [(r * cd, r, r) for r in range(R + 1)]
    outs = [col[R]]
    cols = [[c[0] for c in col]]
    for h in hyp:
        new = [(col[0][0] + ci, col[0][1] + 1, col[0][2] + 1)] + [None] * R
        for r in range(1, R + 1):
            m = ref[r - 1] == h
            cands = (
                (col[r][0] + ci, col[r][1] + 1, col[r][2] + 1),
                (col[r - 1][0] + (0 if m else cs), col[r - 1][1] + (0 if m else 1), col[r - 1][2] + (0 if m else 1)),
                (new[r - 1][0] + cd, new[r - 1][1] + 1, new[r - 1][2] + 1),
            )
            best = min(c[0] for c in cands)
            new[r] = (best, min(c[1] for c in cands if c[0] == best), max(c[2] for c in cands if c[0] == best))
        col = new
        outs.append(col[R])
        cols.append([c[0] for c in col])
    return outs, cols


def ocd_targets_int(ref, cols_j, ci, cd, cs, alphabet):
    """OCD targets for the prefix whose cost column is cols_j: tokens t whose appended column keeps the minimum."""
    R = len(ref)
    base = min(cols_j)
    out = []
    for t in sorted(set(alphabet) | set(ref)):
        new = [cols_j[0] + ci] + [0] * R
        for r in range(1, R + 1):
            a = cols_j[r] + ci
            b = cols_j[r - 1] + (0 if ref[r - 1] == t else cs)
            c = new[r - 1] + cd
            new[r] = min(a, b, c)
        if min(new) == base:
            out.append(t)
    return out
