"""Reference models for C01-C03: textbook weighted Levenshtein in plain Python."""

from functools import lru_cache
from fractions import Fraction

INF = float("inf")


def effective(seq, eos, include_eos):
    """Counted tokens of a stored sequence: up to the first eos, eos counted on request."""
    seq = tuple(seq)
    if eos is None:
        return seq
    for i, t in enumerate(seq):
        if t == eos:
            return seq[: i + 1] if include_eos else seq[:i]
    return seq


@lru_cache(maxsize=None)
def table(ref, hyp, ins, dele, sub):
    """Full DP table.  D[r][h] = min cost turning ref[:r] into hyp[:h]; lo/hi = fewest and
    most edit operations among the minimum-cost alignments.  Costs are Fractions or
    floats; comparisons are exact when they are Fractions."""
    R, H = len(ref), len(hyp)
    D = [[None] * (H + 1) for _ in range(R + 1)]
    lo = [[0] * (H + 1) for _ in range(R + 1)]
    hi = [[0] * (H + 1) for _ in range(R + 1)]
    for r in range(R + 1):
        for h in range(H + 1):
            if r == 0 and h == 0:
                D[0][0] = 0 * ins
                continue
            cands = []
            if r > 0:
                cands.append((D[r - 1][h] + dele, lo[r - 1][h] + 1, hi[r - 1][h] + 1))
            if h > 0:
                cands.append((D[r][h - 1] + ins, lo[r][h - 1] + 1, hi[r][h - 1] + 1))
            if r > 0 and h > 0:
                if ref[r - 1] == hyp[h - 1]:
                    cands.append((D[r - 1][h - 1], lo[r - 1][h - 1], hi[r - 1][h - 1]))
                else:
                    cands.append(
                        (D[r - 1][h - 1] + sub, lo[r - 1][h - 1] + 1, hi[r - 1][h - 1] + 1)
                    )
            best = min(c[0] for c in cands)
            D[r][h] = best
            lo[r][h] = min(c[1] for c in cands if c[0] == best)
            hi[r][h] = max(c[2] for c in cands if c[0] == best)
    return D, lo, hi


def frac(x):
    return Fraction(x).limit_denominator(1 << 20)


def distance(ref, hyp, costs):
    """(cost, lo, hi) for the full strings, and per hypothesis prefix."""
    ins, dele, sub = (frac(c) for c in costs)
    D, lo, hi = table(tuple(ref), tuple(hyp), ins, dele, sub)
    R = len(ref)
    return (
        [float(D[R][h]) for h in range(len(hyp) + 1)],
        [lo[R][h] for h in range(len(hyp) + 1)],
        [hi[R][h] for h in range(len(hyp) + 1)],
    )


def ocd_targets(ref, prefix, costs, alphabet):
    """Tokens t such that the smallest distance any completion of prefix+t can reach equals
    the smallest any completion of prefix can reach (= row minimum of the table)."""
    ins, dele, sub = (frac(c) for c in costs)
    ref = tuple(ref)
    prefix = tuple(prefix)
    D, _, _ = table(ref, prefix, ins, dele, sub)
    base = min(D[r][len(prefix)] for r in range(len(ref) + 1))
    out = []
    for t in sorted(set(alphabet) | set(ref)):
        D2, _, _ = table(ref, prefix + (t,), ins, dele, sub)
        m = min(D2[r][len(prefix) + 1] for r in range(len(ref) + 1))
        if m == base:
            out.append(t)
    return out


def lev_int(ref, hyp, ci, cd, cs):
    """Two-row weighted Levenshtein with integer costs (for the large-instance passes)."""
    R = len(ref)
    prev = [r * cd for r in range(R + 1)]
    for h in hyp:
        cur = [prev[0] + ci] + [0] * R
        for r in range(1, R + 1):
            a = prev[r] + ci
            b = prev[r - 1] + (0 if ref[r - 1] == h else cs)
            c = cur[r - 1] + cd
            cur[r] = a if (a <= b and a <= c) else (b if b <= c else c)
        prev = cur
    return prev[R]
