"""Reference models for C04 (beam search) - plain Python only (no torch).

* ``TableModel``: a history-dependent sequential language model given as a table.  The state of the
  model after consuming a token sequence is an integer *code* of that sequence; the next-token
  logits are ``rows[code][v] + bias[off][v]`` (``off`` selects the batch element's bias row).  This is the
  single definition of the model; the torch module the search talks to (``checks/_c04_lm.py``) is built
  from the same lists but *threads* the code through the search's ``prev`` dictionaries, whereas
  everything here recomputes the code from the token sequence itself (chain rule).
* ``complete_sequences``: every complete (ended by the first eos, or of full length) sequence.
* ``reference_beam``: the documented beam search, as a loop over lists.
* ``topk_joint``: "the K best (source, token) pairs of the joint table" for one advance step.
"""

import math
import random

NEG_INF = float("-inf")
DEEP_ROWS = 7  # rows shared (by hashing) among histories longer than the table depth


class OracleError(Exception):
    """The reference model itself ran out of its assumptions (a harness problem, not a verdict)."""


def n_codes(V, depth):
    """number of token sequences of length <= depth"""
    return sum(V ** l for l in range(depth + 1))


class TableModel:
    """rows: one list of V logits per code (all sequences of length <= depth, then DEEP_ROWS shared
    rows for longer histories); bias: list of per-batch-element logit offsets."""

    def __init__(self, V, depth, rows, bias, name):
        self.V = V
        self.depth = depth
        self.size = n_codes(V, depth)
        if len(rows) != self.size + DEEP_ROWS:
            raise OracleError("table has the wrong number of rows")
        self.rows = rows
        self.bias = bias
        self.name = name
        self._lp = {}
        self._chain = {}

    # -- state -----------------------------------------------------------------------------
    def step_code(self, code, tok):
        """code after consuming one more token (bijective base-V numbering, hashed once the
        history is longer than the table is deep)"""
        V, size = self.V, self.size
        if code < size:
            n = code * V + tok + 1
            return n if n < size else size + (n % DEEP_ROWS)
        return size + (((code - size) * V + tok + 1) % DEEP_ROWS)

    def code_of(self, tokens):
        code = 0
        for tok in tokens:
            code = self.step_code(code, tok)
        return code

    # -- distributions ---------------------------------------------------------------------
    def log_probs(self, tokens, off):
        """log P(next token | tokens) for batch offset ``off`` (float64 log-softmax; -inf logits allowed)"""
        key = (self.code_of(tokens), off)
        got = self._lp.get(key)
        if got is None:
            row = self.rows[key[0]]
            logits = [row[v] + self.bias[off][v] for v in range(self.V)]
            m = max(logits)
            if m == NEG_INF:
                raise OracleError("a table row has no possible token")
            z = m + math.log(sum(math.exp(x - m) for x in logits if x != NEG_INF))
            got = [x - z if x != NEG_INF else NEG_INF for x in logits]
            self._lp[key] = got
        return got

    def chain(self, tokens, off):
        """chain-rule log-probability of exactly this token sequence"""
        tokens = tuple(tokens)
        key = (tokens, off)
        got = self._chain.get(key)
        if got is None:
            if not tokens:
                got = 0.0
            else:
                got = self.chain(tokens[:-1], off) + self.log_probs(tokens[:-1], off)[tokens[-1]]
            self._chain[key] = got
        return got


# --------------------------------------------------------------------------------------------
# table construction (the only place VERIF_SEED matters: filler values)
# --------------------------------------------------------------------------------------------
def _noise(rng, scale=64, span=128):
    return rng.randint(-span, span) / scale  # exactly representable in float32


def _row_noise(rng, V, scale=64, span=128):
    """V different filler values (no two tokens tie inside a row)"""
    return [x / scale for x in rng.sample(range(-span, span + 1), V)]


def _all_histories(V, depth):
    out = [()]
    frontier = [()]
    for _ in range(depth):
        frontier = [h + (v,) for h in frontier for v in range(V)]
        out.extend(frontier)
    return out


STRUCTURED = (
    "gate-last-lo",   # eos-like token g=0 overwhelmingly likely right after token 0 / at the start, (nearly) impossible otherwise
    "gate-last-hi",   # same with g=V-1, likely after a token != g
    "gate-depth-lo",  # g=0 impossible before a depth that depends on the FIRST token, overwhelming from then on
    "gate-depth-hi",  # same with g=V-1
    "flat",           # nearly uniform rows: maximal competition between paths at every prune
    "hard-zero",      # like gate-last-hi but with true -inf logits (zero-probability tokens)
)


def make_model(V, depth, name, seed):
    """name: 'seeded-<i>' or one of STRUCTURED. Deterministic in (V, depth, name, seed)."""
    rng = random.Random(f"c04/{V}/{depth}/{name}/{seed}")
    hists = _all_histories(V, depth)
    size = len(hists)
    rows = []
    big = 9.0
    for idx in range(size + DEEP_ROWS):
        h = hists[idx] if idx < size else None
        if name.startswith("seeded"):
            row = _row_noise(rng, V)
        elif name == "flat":
            # distinct small values so that no two tokens tie inside a row
            perm = list(range(V))
            rng.shuffle(perm)
            row = [perm[v] / 8 + _noise(rng, 256, 7) for v in range(V)]
        else:
            row = _row_noise(rng, V, 64, 48)
            g = 0 if name.endswith("-lo") else V - 1
            if h is None:
                likely = idx % 2 == 0
            elif name.startswith("gate-last") or name == "hard-zero":
                if name == "gate-last-lo":
                    likely = len(h) == 0 or h[-1] == 0
                else:
                    likely = len(h) > 0 and h[-1] != g and (len(h) + h[-1]) % 2 == 1
            else:  # gate-depth: first token f opens the gate at depth f+1
                likely = len(h) > 0 and len(h) >= h[0] + 1
            if name == "hard-zero":
                if likely:
                    row[g] += big
                else:
                    row[g] = NEG_INF
                if h is not None and len(h) >= 1 and h[-1] == 0 and V > 2:
                    row[1] = NEG_INF  # a non-gate token that is impossible after 0
            else:
                row[g] += big if likely else -big
        rows.append(row)
    # per-batch-element offsets: element 1 pulls towards token 0 and away from V-1, element 2 the
    # other way round, element 0 is the bare table; so elements finish at different steps whichever
    # token is the eos
    bias = [[0.0] * V for _ in range(3)]
    bias[1] = _row_noise(rng, V, 64, 32)
    bias[2] = _row_noise(rng, V, 64, 32)
    bias[1][0] += 4.0
    bias[1][V - 1] -= 2.0
    bias[2][0] -= 2.0
    bias[2][V - 1] += 4.0
    return TableModel(V, depth, rows, bias, name)


def make_deep_model(V, depth, name, seed, eos):
    """Variant for searches without a step limit: the shared deep rows overwhelmingly favour ``eos`` so
    that every search terminates by itself."""
    m = make_model(V, depth, name, seed)
    rows = [list(r) for r in m.rows]
    for idx in range(m.size, m.size + DEEP_ROWS):
        rows[idx] = [(x if x != NEG_INF else -3.0) for x in rows[idx]]
        rows[idx][eos] = max(x for x in rows[idx]) + 9.0 + (idx - m.size) / 16
    return TableModel(V, depth, rows, m.bias, f"{name}/deep-eos{eos}")


# --------------------------------------------------------------------------------------------
def complete_sequences(model, off, eos, max_iters):
    """dict tokens -> chain log-prob of every positive-probability complete sequence: ended by its
    first eos within max_iters tokens, or max_iters tokens long"""
    out = {}

    def rec(toks, sc):
        if len(toks) == max_iters or (toks and eos is not None and toks[-1] == eos):
            out[toks] = sc
            return
        lp = model.log_probs(toks, off)
        for v in range(model.V):
            if lp[v] != NEG_INF:
                rec(toks + (v,), sc + lp[v])

    rec((), 0.0)
    return out


def reference_beam(model, off, width, eos, finish_all_paths, max_iters, tie_eps=1e-4, step_cap=300):
    """The documented search: keep the `width` most probable paths; a path that has emitted eos is
    kept as it is; the search ends (checked before each step after the first) when the best path /
    all paths have ended, or after max_iters steps.

    Returns dict(beam=[(tokens, score, finished)], trace=[beam before step t], near_tie, pruned, steps).
    near_tie: some ordering/pruning decision was closer than tie_eps, so the answer is not unique up to
    floating point."""
    beam = [((), 0.0, False)]
    trace = []
    near_tie = False
    pruned = False
    t = 0
    while max_iters is None or t < max_iters:
        if t > 0 and eos is not None:
            done = all(b[2] for b in beam) if finish_all_paths else beam[0][2]
            if done:
                break
        if t >= step_cap:
            raise OracleError("reference search did not terminate")
        trace.append(list(beam))
        cands = []
        for toks, sc, fin in beam:
            if fin:
                cands.append((toks, sc, True))
                continue
            lp = model.log_probs(toks, off)
            for v in range(model.V):
                if lp[v] != NEG_INF:
                    cands.append((toks + (v,), sc + lp[v], eos is not None and v == eos))
        cands.sort(key=lambda c: -c[1])
        look = cands[: width + 1]
        for a, b in zip(look, look[1:]):
            if a[1] - b[1] < tie_eps:
                near_tie = True
        if len(cands) > width:
            pruned = True
        beam = cands[:width]
        t += 1
    return {"beam": beam, "trace": trace, "near_tie": near_tie, "pruned": pruned, "steps": t}


def topk_joint(prev_scores, ext, width, tie_eps=1e-6):
    """One advance step for one batch element. prev_scores: list (old_width) of path scores;
    ext: old_width x V extension log-probs. Returns (expected, near_tie) with expected = the
    min(width, old_width*V) best (score, src, token) of the joint table, best first. near_tie is set
    when two *finite* neighbouring scores (including the first one left out) are closer than tie_eps."""
    joint = []
    for k, p in enumerate(prev_scores):
        for v, e in enumerate(ext[k]):
            joint.append((p + e, k, v))
    joint.sort(key=lambda c: -c[0])
    K = min(width, len(joint))
    near = False
    look = joint[: K + 1]
    for a, b in zip(look, look[1:]):
        if a[0] != NEG_INF and b[0] != NEG_INF and a[0] - b[0] < tie_eps * (1.0 + abs(a[0])):
            near = True
    return joint[:K], near
