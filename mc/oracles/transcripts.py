"""Reference models and small-scope generators for C11 (trn / ctm / TextGrid / token round trips).

Plain Python only.  Nothing here looks at the library: the functions say what a reader must
return for a given written collection, as far as property C11 (and the documentation of the
reader, where the property defers to it) states it.
"""

import itertools

# =========================================================================================
# trn: transcript trees
# =========================================================================================
# A *transcript* is a list of elements.  A top-level element is a token (str) or a group of
# alternates ``(alts, -1, -1)``; ``alts`` is a list of alternates, an alternate is a list of
# elements, and a group nested inside an alternate is the bare ``alts`` list (this is the shape
# read_trn documents and test_parsing.py spells out).
#
# "size" of a tree = number of tokens + number of empty alternates.  Empty alternates are only
# generated in non-final position (the reader documents that a trailing empty alternate is an
# error, so such a tree is not expressible in the format).


def _seqs(n, depth, tokens, top):
    """every element sequence of size exactly n, groups nested at most `depth` deep"""
    if n == 0:
        yield []
        return
    for k in range(1, n + 1):
        for first in _elements(k, depth, tokens, top):
            for rest in _seqs(n - k, depth, tokens, top):
                yield [first] + rest


def _elements(k, depth, tokens, top):
    if k == 1:
        for t in tokens:
            yield t
    if depth >= 1:
        for alts in _alts(k, depth, tokens):
            yield (alts, -1, -1) if top else alts


def _alts(k, depth, tokens):
    """every list of alternates of total size k whose last alternate is non-empty"""
    for j in range(1, k + 1):
        rest_size = k - j
        firsts = []
        if j == 1 and rest_size >= 1:
            firsts.append([])  # empty non-final alternate, counts 1
        firsts.extend(s for s in _seqs(j, depth - 1, tokens, False))
        for first in firsts:
            if rest_size == 0:
                if first:
                    yield [first]
            else:
                for rest in _alts(rest_size, depth, tokens):
                    yield [first] + rest


def trn_trees(size, depth=3, tokens=("a", "b")):
    """every transcript (top-level sequence) of exactly this size"""
    return list(_seqs(size, depth, tokens, True))


def trn_depth(x, top=True):
    """nesting depth of groups in a transcript / alternates list"""
    best = 0
    for e in x:
        if isinstance(e, str):
            continue
        alts = e[0] if (top and isinstance(e, tuple)) else e
        d = 1 + max([trn_depth(a, False) for a in alts] + [0])
        best = max(best, d)
    return best


def trn_has_group(transcript):
    return any(not isinstance(e, str) for e in transcript)


def trn_has_empty_alt(x, top=True):
    for e in x:
        if isinstance(e, str):
            continue
        alts = e[0] if (top and isinstance(e, tuple)) else e
        for a in alts:
            if not a or trn_has_empty_alt(a, False):
                return True
    return False


def trn_files(max_total, max_utts, depth=3, tokens=("a", "b")):
    """every file of 1..max_utts utterances whose transcripts' sizes sum to <= max_total.
    Yields lists of transcripts (ids are attached by the caller)."""
    by_size = {s: trn_trees(s, depth, tokens) for s in range(max_total + 1)}
    for n in range(1, max_utts + 1):
        for sizes in itertools.product(range(max_total + 1), repeat=n):
            if sum(sizes) > max_total:
                continue
            for combo in itertools.product(*[by_size[s] for s in sizes]):
                yield list(combo)


def trn_add_times(transcript, which):
    """input variant: top-level *tokens* given as (token, start, end) triples (write_trn
    documents that the times are ignored).  which: 'none' | 'all' | 'odd'"""
    out = []
    for i, e in enumerate(transcript):
        if isinstance(e, str) and (which == "all" or (which == "odd" and i % 2 == 1)):
            out.append((e, 0.25 * i, 0.25 * i + 0.5))
        else:
            out.append(e)
    return out


def trn_norm(x):
    """canonical JSON-like form for comparison: tuples -> lists, recursively"""
    if isinstance(x, (list, tuple)):
        return [trn_norm(v) for v in x]
    return x


# =========================================================================================
# ctm
# =========================================================================================
def ctm_expected(transcripts, utt2wc, wc2utt):
    """What read_ctm must return for write_ctm(transcripts, utt2wc) read with wc2utt.

    Returns (order, groups): `order` = read ids in the order of their first line in a file
    sorted as the format mandates (waveform, channel, numeric start); groups[id] = list of
    (token, start, end) sorted by start (ties: order free).  Utterances with no segment do
    not exist in a ctm file."""
    lines = []
    for utt, segs in transcripts:
        wfn, chan = (utt, utt2wc) if isinstance(utt2wc, str) else utt2wc[utt]
        for tok, s, e in segs:
            lines.append((wfn, chan, float(s), float(e), tok))
    lines.sort(key=lambda x: (x[0], x[1], x[2]))
    order, groups = [], {}
    for wfn, chan, s, e, tok in lines:
        rid = wfn if wc2utt is None else wc2utt[(wfn, chan)]
        if rid not in groups:
            groups[rid] = []
            order.append(rid)
        groups[rid].append((tok, s, e))
    for rid in groups:
        groups[rid].sort(key=lambda x: x[1])
    return order, groups


def ctm_compare(observed, order, groups, tol=0.0):
    """None if `observed` (list of (id, [(tok, s, e)...])) is admissible, else a symptom string.
    tol > 0 (relative to max(1, |t|)): times may differ by that much (non-dyadic times, where
    start + (end - start) need not reproduce `end` to the last bit)."""
    ids = [u for u, _ in observed]
    if sorted(ids) != sorted(order):
        return "wrong-utterance-set"
    if len(set(ids)) != len(ids):
        return "duplicate-utterance"
    for u, segs in observed:
        segs = [tuple(x) for x in segs]
        if tol == 0.0:
            if sorted(segs) != sorted(groups[u]):
                return "wrong-segments"
        else:
            if len(segs) != len(groups[u]):
                return "wrong-segments"
            for o, x in zip(sorted(segs, key=lambda z: (z[1], z[2], z[0])),
                            sorted(groups[u], key=lambda z: (z[1], z[2], z[0]))):
                if o[0] != x[0]:
                    return "wrong-segments"
                if abs(o[1] - x[1]) > tol * max(1.0, abs(x[1])) or abs(o[2] - x[2]) > tol * max(1.0, abs(x[2])):
                    return "wrong-times"
        if any(segs[i][1] > segs[i + 1][1] for i in range(len(segs) - 1)):
            return "segments-not-in-start-order"
    if ids != order:
        return "utterances-not-in-file-order"
    return None


def ctm_file_sorted(text):
    """the ordering sclite mandates for a ctm: waveform, channel, then numeric start"""
    keys = []
    for line in text.splitlines():
        f = line.split()
        if not f:
            continue
        if len(f) not in (5, 6):
            return False
        keys.append((f[0], f[1], float(f[2])))
    return all(keys[i] <= keys[i + 1] for i in range(len(keys) - 1))


# =========================================================================================
# TextGrid
# =========================================================================================
def tg_time(k, precision):
    """the grid value k * 10^-precision, correctly rounded"""
    return k / (10 ** precision) if precision else float(k)


def tg_menu(precision):
    """grid indices used as interval boundaries: 0, one step, small, < 10 s, just below 10 s,
    exactly 10 s, > 10 s (so that numeric and lexicographic order differ), and (precision 0)
    100 s."""
    u = 10 ** precision
    if precision == 0:
        return [0, 1, 2, 9, 10, 12, 100]
    return [0, 1, u // 4, 2 * u, 10 * u - 1, 10 * u, 12 * u + u // 2 + 1]


def tg_boundaries(n, menu):
    """every non-decreasing boundary sequence s1<=e1<=s2<=e2... of n intervals over menu"""
    return itertools.combinations_with_replacement(menu, 2 * n)


def tg_points(n, menu):
    """strictly increasing point times"""
    return itertools.combinations(menu, n)


def tg_expected(transcript, fill_token):
    """Interval tier read back: the entries in time order; with fill_token every unlabelled
    stretch between the tier's start (min start) and end (max end) becomes an interval of
    fill_token.  `transcript` must be in time order and non-overlapping."""
    if fill_token is None:
        return list(transcript)
    out = []
    cur = min(x[1] for x in transcript)
    for tok, s, e in transcript:
        if cur < s:
            out.append((fill_token, cur, s))
        out.append((tok, s, e))
        cur = e
    end = max(x[2] for x in transcript)
    if cur < end:
        out.append((fill_token, cur, end))
    return out


def tg_string_sorted_model(transcript, fill_token, precision, point):
    """Classification aid only (never decides a verdict): what a reader returns if it orders
    the entries by the *printed* times compared as strings, then fills gaps on that order."""
    def fmt(t):
        return f"{t:0.{precision}f}"

    if point:
        rows = sorted((fmt(s), tok) for tok, s, _ in transcript)
        ent = [(tok, float(s), float(s)) for s, tok in rows]
    else:
        rows = sorted((fmt(s), fmt(e), tok) for tok, s, e in transcript)
        ent = [(tok, float(s), float(e)) for s, e, tok in rows]
    if fill_token is None:
        return ent
    out = []
    cur = min(float(fmt(x[1])) for x in transcript)
    end = max(float(fmt(x[2])) for x in transcript)
    for tok, s, e in ent:
        if cur < s:
            out.append((fill_token, cur, s))
        out.append((tok, s, e))
        cur = e
    if cur < end:
        out.append((fill_token, cur, end))
    return out


def tg_compare(observed, expected, tol):
    """None if admissible else symptom.  Entries with identical (start, end) may be permuted
    (the statement leaves the order of simultaneous entries open)."""
    if len(observed) != len(expected):
        return "wrong-number-of-entries"
    i = 0
    n = len(expected)
    while i < n:
        j = i
        while j + 1 < n and expected[j + 1][1:] == expected[i][1:]:
            j += 1
        for k in range(i, j + 1):
            o = observed[k]
            if abs(o[1] - expected[i][1]) > tol or abs(o[2] - expected[i][2]) > tol:
                return "wrong-times"
        if sorted(o[0] for o in observed[i: j + 1]) != sorted(x[0] for x in expected[i: j + 1]):
            return "wrong-tokens"
        i = j + 1
    return None


# =========================================================================================
# transcript <-> token tensor
# =========================================================================================
def tok_expected(transcript, token2id, unk, frame_shift_ms, skip_frame_times):
    """Expected result of token_to_transcript(transcript_to_token(...), inverse map, shift):
    list of (token, None) for untimed entries or (token, (start, end, tol)) for timed ones."""
    id2token = None if token2id is None else {v: k for k, v in token2id.items()}
    out = []
    for e in transcript:
        if isinstance(e, tuple):
            tok, s, t = e
            timed = not skip_frame_times
        else:
            tok, timed = e, False
        if token2id is None:
            back = tok
        elif tok in token2id:
            back = tok
        else:
            if unk is None:
                ident = tok  # used directly as the id
            elif unk in token2id:
                ident = token2id[unk]
            else:
                ident = unk
            back = id2token.get(ident, ident)
        if timed:
            tol = 0.0 if not frame_shift_ms else frame_shift_ms / 1000.0
            out.append((back, (s, t, tol)))
        else:
            out.append((back, None))
    return out


def tok_compare(observed, expected):
    if len(observed) != len(expected):
        return "wrong-length"
    for o, (tok, times) in zip(observed, expected):
        if times is None:
            if isinstance(o, tuple) or o != tok:
                return "wrong-token" if not isinstance(o, tuple) else "times-invented"
        else:
            if not isinstance(o, tuple) or len(o) != 3:
                return "times-lost"
            if o[0] != tok:
                return "wrong-token"
            s, t, tol = times
            slack = tol * 1e-9 + 1e-12
            if abs(o[1] - s) > tol + slack or abs(o[2] - t) > tol + slack:
                return "time-off-by-more-than-one-frame-shift"
    return None
