"""Reference model for C10: slicing policies and token chunking, in plain Python.

Written from the *prose* of the SliceSpectData / ChunkTokenSequencesBySlices documentation
(window size, stride, first offset, middle-index rule; run boundaries; segment filters), not
from the worked examples in that documentation and not from the implementation.

A window is a pair ``(start, end)``: start inclusive, end exclusive.  Windows may extend
outside the sequence when ``valid_only`` is false: the documentation gives negative first
offsets (``-lobe_size`` for the causal window) and says the invalid boundaries "may be
preserved"; they are therefore never clamped here.
"""

WINDOW_TYPES = ("symmetric", "causal", "future")
POLICIES = ("fixed", "ali", "ref")


# ---------------------------------------------------------------------------------- fixed
def fixed_window_size(window_type, lobe):
    """'If window_type is symmetric, windows are of size 1 + 2 * lobe_size; otherwise,
    windows are of size 1 + lobe_size.'"""
    return 1 + 2 * lobe if window_type == "symmetric" else 1 + lobe


def fixed_middle(window_type, lobe, start, end):
    """'The "middle" index for the symmetric window is at slice[0] + window_size // 2; for the
    causal window it's the last index of the window, slice[1] - 1; for the future window it's
    the first, slice[0].'"""
    if window_type == "symmetric":
        return start + fixed_window_size(window_type, lobe) // 2
    if window_type == "causal":
        return end - 1
    return start


def fixed_windows(length, window_type, valid_only, lobe):
    """Windows of one sequence of ``length`` frames under the 'fixed' policy."""
    stride = lobe + 1  # 'slices are extracted at fixed intervals (lobe_size + 1)'
    size = fixed_window_size(window_type, lobe)
    out = []
    if valid_only:
        # 'slices start at index 0 and as many slices as can be fit fully within the
        # sequences are returned'
        start = 0
        while start + size <= length:
            out.append((start, start + size))
            start += stride
        return out
    # not valid_only: 'the initial slice's offsets differ as well: for the symmetric case,
    # it's (lobe_size + 1) // 2 - window_size // 2; for the causal case, it's -lobe_size; and
    # the future case it's still 0'; 'slices are kept if their "middle" index lies before the
    # end of the sequence'
    if window_type == "symmetric":
        start = (lobe + 1) // 2 - size // 2
    elif window_type == "causal":
        start = -lobe
    else:
        start = 0
    while fixed_middle(window_type, lobe, start, start + size) < length:
        out.append((start, start + size))
        start += stride
    return out


# ------------------------------------------------------------------------------------ ali
def ali_segments(ali, length):
    """'a segment starts at index t whenever t == 0 or alis[n, t - 1] != alis[n, t]'; only
    ``ali[:length]`` belongs to the sequence.  A segment ends where the next one starts (the
    segments partition the sequence), the last one at ``length``."""
    starts = [t for t in range(length) if t == 0 or ali[t - 1] != ali[t]]
    ends = starts[1:] + [length]
    return list(zip(starts, ends))


def ali_windows(ali, length, window_type, valid_only, lobe):
    """Slice m starts at the start of segment m - lobe (symmetric, causal) and ends at the end
    of segment m + lobe (symmetric, future).  A missing neighbour drops the slice when
    valid_only, otherwise 'the furthest segment from m in the same direction which also exists
    will be used'."""
    segs = ali_segments(ali, length)
    M = len(segs)
    out = []
    for m in range(M):
        lo = m - lobe if window_type in ("symmetric", "causal") else m
        hi = m + lobe if window_type in ("symmetric", "future") else m
        if lo < 0 or hi >= M:
            if valid_only:
                continue
            lo, hi = max(lo, 0), min(hi, M - 1)
        out.append((segs[lo][0], segs[hi][1]))
    return out


# ------------------------------------------------------------------------------------ ref
def ref_window(seg, other_len, window_type, valid_only, lobe):
    """Fate of one segment ``(start, end)`` that lies inside ``in_lens``.

    Returns ``None`` (discarded), ``(window, True)`` (must be returned) or ``(window, False)``
    (the documentation does not decide: with valid_only false a slice is discarded when 'the
    padded start begins after other_lens' -- a padded start *equal* to other_lens covers no
    frame but does not begin strictly after it; either verdict is admitted)."""
    start, end = seg
    if start < 0 or end < 0:  # 'either the start or end frame is less than 0 (missing)'
        return None
    if window_type in ("symmetric", "causal"):
        start -= lobe
    if window_type in ("symmetric", "future"):
        end += lobe
    if start >= end:  # 'the starting frame (after padding) matches or exceeds the ending frame'
        return None
    if valid_only:
        # 'the padded start begins before index 0 or the padded end ends after other_lens'
        if start < 0 or end > other_len:
            return None
        return (start, end), True
    # 'the padded start begins after other_lens or ends at or before 0'
    if end <= 0 or start > other_len:
        return None
    return (start, end), start != other_len


def ref_windows(segs, in_len, other_len, window_type, valid_only, lobe):
    """list of ``(window, mandatory)`` for one token sequence; ``segs[t]`` for t >= in_len is
    ignored ('the token segment is indexed past that length')."""
    out = []
    for t, seg in enumerate(segs):
        if t >= in_len:
            break
        r = ref_window(tuple(seg), other_len, window_type, valid_only, lobe)
        if r is not None:
            out.append(r)
    return out


def admits(expected, observed):
    """Is ``observed`` (list of windows) the ``expected`` list of (window, mandatory) pairs
    with some of the non-mandatory ones left out?  Order matters."""
    i = 0
    for w, mandatory in expected:
        if i < len(observed) and tuple(observed[i]) == tuple(w):
            i += 1
        elif mandatory:
            return False
    return i == len(observed)


# ----------------------------------------------------------------------------- token chunks
def segment_known(start, end):
    return start >= 0 and end >= 0


def contained(start, end, a, b):
    return a <= start and end <= b


def overlaps(start, end, a, b):
    """the two half-open intervals share at least one frame"""
    return max(start, a) < min(end, b)


def chunk_tokens(ref, ref_len, a, b, partial, retain):
    """Kept triples of one token sequence for the slice [a, b): in order, exactly the tokens
    whose known segments are contained in the slice, or merely overlap it when partial matches
    are allowed; boundaries become offsets from the slice start unless retained."""
    out = []
    for t, (tok, start, end) in enumerate(ref):
        if t >= ref_len:
            break
        if not segment_known(start, end):
            continue
        keep = contained(start, end, a, b) or (partial and overlaps(start, end, a, b))
        if not keep:
            continue
        shift = 0 if retain else a
        out.append((tok, start - shift, end - shift))
    return out


def restrict(seq, a, b, pad):
    """``seq`` (a list) restricted to the window [a, b): positions outside the sequence are
    ``pad``."""
    return [seq[t] if 0 <= t < len(seq) else pad for t in range(a, b)]
