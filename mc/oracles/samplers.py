"""Reference models for C13 (epoch samplers) and C14 (bucketing, loaders, collation, windows).

Plain Python on lists/dicts only.  Every function either builds the expected object or returns
``None`` (fine) / a short string naming the first broken clause (used as ``symptom``).
"""

MODES = ("raise", "drop", "uneven", "ignore")


# ------------------------------------------------------------------------------ C13 ----
def expected_len(N, W, rank, mode):
    """Number of indices rank ``rank`` of ``W`` must yield per epoch; "raise" if the constructor
    has to refuse (strict mode, indivisible size)."""
    if mode == "ignore" or W == 1:
        return N
    rem = N % W
    if mode == "raise":
        return "raise" if rem else N // W
    if mode == "drop":
        return N // W
    # uneven: every index yielded by exactly one rank, counts differ by at most one
    return None


def check_partition(per_rank, N, W, mode):
    """per_rank: list over ranks of the index lists of ONE epoch (mode != raise-that-raised)."""
    full = list(range(N))
    for r, lst in enumerate(per_rank):
        for i in lst:
            if not (isinstance(i, int) and 0 <= i < N):
                return "index-out-of-range"
        if len(set(lst)) != len(lst):
            return "index-repeated-within-rank"
    if mode == "ignore":
        for lst in per_rank:
            if sorted(lst) != full:
                return "ignore-mode-rank-lacks-full-epoch"
        for lst in per_rank[1:]:
            if lst != per_rank[0]:
                return "ignore-mode-ranks-differ"
        return None
    seen = {}
    for r, lst in enumerate(per_rank):
        for i in lst:
            if i in seen:
                return "ranks-overlap"
            seen[i] = r
    counts = [len(lst) for lst in per_rank]
    if mode == "drop":
        if any(c != N // W for c in counts):
            return "drop-mode-unequal-or-wrong-counts"
        if len(seen) != N - N % W:
            return "drop-mode-wrong-number-dropped"
        return None
    # raise (divisible) and uneven: exact cover
    if len(seen) != N:
        return "indices-not-covered"
    if mode == "raise" and any(c != N // W for c in counts):
        return "unequal-counts"
    return None


# ---------------------------------------------------------------- C14: bucket sampler ----
def bucket_batches(order, idx2bucket, bucket2size, drop):
    """The documented behaviour: a batch is yielded as soon as its bucket is full; leftovers at
    the end in the order of the bucket ids (unless dropped)."""
    pend, out = {}, []
    for i in order:
        b = idx2bucket[i]
        pend.setdefault(b, []).append(i)
        if len(pend[b]) == bucket2size[b]:
            out.append(pend.pop(b))
    if not drop:
        for b in sorted(pend):
            out.append(pend[b])
    return out


def check_bucket_batches(order, idx2bucket, bucket2size, drop, batches):
    """The clauses of the property, nothing about the interleaving of full batches."""
    per_bucket = {}
    seen_short = False
    for batch in batches:
        if len(batch) == 0:
            return "empty-batch"
        bs = set(idx2bucket[i] for i in batch)
        if len(bs) != 1:
            return "batch-mixes-buckets"
        b = bs.pop()
        size = bucket2size[b]
        if len(batch) > size:
            return "batch-larger-than-bucket-size"
        if len(batch) < size:
            if drop:
                return "short-batch-although-dropping"
            seen_short = True
        elif seen_short:
            return "full-batch-after-short-batch"
        per_bucket.setdefault(b, []).append(list(batch))
    for b in set(idx2bucket[i] for i in order):
        sub = [i for i in order if idx2bucket[i] == b]
        got = per_bucket.get(b, [])
        for bt in got[:-1]:
            if len(bt) != bucket2size[b]:
                return "short-batch-not-last-of-bucket"
        flat = [i for bt in got for i in bt]
        if len(set(flat)) != len(flat):
            return "index-in-two-batches"
        if flat != sub[: len(flat)]:
            return "not-in-sampler-order" if sorted(flat) == sorted(sub[: len(flat)]) else "wrong-indices"
        missing = len(sub) - len(flat)
        if drop:
            if missing != len(sub) % bucket2size[b]:
                return "dropped-other-than-incomplete-batch"
        elif missing:
            return "index-in-no-batch"
    return None


# ---------------------------------------------------------------- C14: length classes ----
def quantile_classes(lengths, num_buckets):
    """Length classes as documented: the sorted lengths are cut into ``num_buckets`` runs of
    ``N // num_buckets`` elements (the last takes the remainder); equal lengths share a class, so the
    boundaries are the distinct run maxima.  Returns (class of each element, class upper bounds)."""
    N = len(lengths)
    if N == 0:
        return [], []
    srt = sorted(lengths)
    q = N // num_buckets
    if q == 0:
        bounds = [srt[-1]]
    else:
        bounds = [srt[(n + 1) * q - 1] for n in range(num_buckets - 1)] + [srt[-1]]
    bounds = sorted(set(bounds))
    cls = [sum(1 for b in bounds if ln > b) for ln in lengths]
    return cls, bounds


def class_sizes(bounds, batch_size, dynamic):
    """batch size per class; dynamic: greatest x with x * (class maximum) <= (corpus maximum) * batch_size"""
    if not dynamic:
        return [batch_size] * len(bounds)
    return [(bounds[-1] * batch_size) // b for b in bounds]


def check_epoch_structure(batches, cls, sizes, drop, order=None, cover=True):
    """batches: lists of utterance indices as delivered in one epoch by a (bucketed) loader.
    cls[i]: reference length class of utterance i; sizes[c]: batch size of class c.
    If the utterance order is known (sequential loaders) the exact clauses are checked, otherwise the
    order-free ones (purity, sizes, trailing short batches, cover / only incomplete batches dropped).
    cover=False: the loader serves one rank of a process group, so it sees an unknown part of the data."""
    n = len(cls)
    flat = [i for b in batches for i in b]
    if len(set(flat)) != len(flat):
        return "utterance-delivered-twice"
    for b in batches:
        if len(set(cls[i] for i in b)) > 1:
            return "mixes-length-classes"
    if order is not None:
        return check_bucket_batches(order, dict(enumerate(cls)), dict(enumerate(sizes)), drop, batches)
    seen_short = False
    count = {}
    for b in batches:
        if not b:
            return "empty-batch"
        c = cls[b[0]]
        count[c] = count.get(c, 0) + len(b)
        if len(b) > sizes[c]:
            return "batch-larger-than-bucket-size"
        if len(b) < sizes[c]:
            if drop:
                return "short-batch-although-dropping"
            seen_short = True
        elif seen_short:
            return "full-batch-after-short-batch"
    for c in set(cls):
        tot = sum(1 for x in cls if x == c)
        want = tot - tot % sizes[c] if drop else tot
        if cover and count.get(c, 0) != want:
            return "dropped-other-than-incomplete-batch" if drop else "utterance-in-no-batch"
        short = [b for b in batches if cls[b[0]] == c and len(b) < sizes[c]]
        if len(short) > 1:
            return "several-short-batches-in-one-class"
    return None


def predicted_num_batches(counts_by_class, sizes, drop):
    tot = 0
    for c, k in counts_by_class.items():
        tot += k // sizes[c] if drop else -(-k // sizes[c])
    return tot


# ------------------------------------------------------------- C14: context windows ----
def window(rows, t, left, right, reverse):
    """rows: list of T frames (each a list).  Frames outside [0, T) replicate the edge frame."""
    T = len(rows)
    out = [rows[min(max(j, 0), T - 1)] for j in range(t - left, t + right + 1)]
    return out[::-1] if reverse else out


def windows(rows, left, right, reverse):
    return [window(rows, t, left, right, reverse) for t in range(len(rows))]
