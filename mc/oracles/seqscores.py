"""Reference models for C07: sequence scores, random-walk paths, greedy CTC.

Plain Python on lists and floats only (no torch): loops, dicts, lists.
"""

import itertools
import math


# ---- basic numerics ---------------------------------------------------------------------
def log_softmax(row):
    """log-softmax of a list of floats (double precision)."""
    m = max(row)
    z = m + math.log(sum(math.exp(x - m) for x in row))
    return [x - z for x in row]


def softmax(row):
    return [math.exp(x) for x in log_softmax(row)]


def close(a, b, tol=2e-5):
    if a != a or b != b:
        return False
    return abs(a - b) <= tol * (1.0 + max(abs(a), abs(b)))


# ---- sequence_log_probs -----------------------------------------------------------------
def seq_log_prob(lsm_rows, tokens, eos=None, length=None):
    """Definition in the property: sum of the log-softmax values of the chosen tokens up to and
    including the first ``eos``, skipping out-of-vocabulary positions.

    lsm_rows[t] -- list of log-softmax values of step t (len == number of classes)
    tokens[t]   -- the token chosen at step t (any integer)
    length      -- if given, only the first ``length`` steps are valid (packed input)
    """
    total = 0.0
    steps = len(tokens) if length is None else min(length, len(tokens))
    for t in range(steps):
        tok = tokens[t]
        if 0 <= tok < len(lsm_rows[t]):
            total += lsm_rows[t][tok]
        if eos is not None and tok == eos:
            break
    return total


def first_eos_len(tokens, eos):
    """number of positions up to and including the first eos (len(tokens) if there is none)."""
    if eos is None:
        return len(tokens)
    for t, tok in enumerate(tokens):
        if tok == eos:
            return t + 1
    return len(tokens)


# ---- history-coded table language model --------------------------------------------------
def code_of(prefix, V):
    """Integer code of a token prefix: bijective base-V numeration, code(()) == 0."""
    c = 0
    for tok in prefix:
        c = c * V + tok + 1
    return c


def prefix_of(code, V):
    """inverse of code_of."""
    out = []
    while code > 0:
        out.append((code - 1) % V)
        code = (code - 1) // V
    return tuple(reversed(out))


def num_codes(V, depth):
    return sum(V ** k for k in range(depth + 1))


def chain_rule(table_row, path, V):
    """log P(path) = sum_t log_softmax(table[code(path[:t])])[path[t]].

    table_row -- list over codes of lists of V logits (the table of one batch element)
    """
    total = 0.0
    for t, tok in enumerate(path):
        total += log_softmax(table_row[code_of(path[:t], V)])[tok]
    return total


def complete_paths(V, max_iters, eos):
    """Every path a walk may return: ends at the first eos or has max_iters tokens."""
    out = []

    def rec(prefix):
        if len(prefix) == max_iters or (eos is not None and prefix and prefix[-1] == eos):
            out.append(tuple(prefix))
            return
        for v in range(V):
            rec(prefix + [v])

    if max_iters == 0:
        return [()]
    rec([])
    return out


def path_is_complete(path, V, max_iters, eos):
    """The property's condition on a returned path (a list of ints)."""
    if any(not (0 <= t < V) for t in path):
        return False
    if eos is not None and eos in path[:-1]:
        return False  # went on after its first eos
    if len(path) == max_iters:
        return True
    return eos is not None and len(path) >= 1 and len(path) < max_iters and path[-1] == eos


def strip_after_eos(tokens, eos):
    return list(tokens[: first_eos_len(tokens, eos)])


def replay_walk_draws(draws, n_rows, max_iters, eos):
    """Re-derives the paths of consecutive walks from the raw per-step draws.

    draws -- list over multinomial calls of lists (one token per row)
    Returns a list of walks; each walk is a list (per row) of paths.  A walk ends after
    max_iters steps or when every row has drawn its eos; tokens drawn for a finished row are
    not part of its path.
    """
    walks = []
    i = 0
    while i < len(draws):
        paths = [[] for _ in range(n_rows)]
        done = [False] * n_rows
        t = 0
        while t < max_iters and not all(done) and i < len(draws):
            step = draws[i]
            i += 1
            t += 1
            for r in range(n_rows):
                if not done[r]:
                    paths[r].append(step[r])
                    if eos is not None and step[r] == eos:
                        done[r] = True
        walks.append(paths)
    return walks


# ---- greedy CTC ---------------------------------------------------------------------------
def ctc_collapse(labels, in_len, blank):
    """collapse repeats, then drop blanks, within the valid length."""
    out = []
    prev = None
    for t in range(min(in_len, len(labels))):
        lab = labels[t]
        if lab != prev and lab != blank:
            out.append(lab)
        prev = lab
    return out


def ctc_score(frame_rows, labels, in_len, is_probs):
    """summed log-softmax maxima (is_probs False) / product of the maxima (True)."""
    if is_probs:
        tot = 1.0
        for t in range(min(in_len, len(labels))):
            tot *= frame_rows[t][labels[t]]
        return tot
    tot = 0.0
    for t in range(min(in_len, len(labels))):
        tot += log_softmax(frame_rows[t])[labels[t]]
    return tot


def all_sequences(alphabet, length):
    return list(itertools.product(alphabet, repeat=length))
