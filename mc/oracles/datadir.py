"""Reference model of a SpectDataSet data directory (C12), plain Python.

Written from the documentation only: the numbered validity conditions and the numbered
permitted repairs in the docstring of ``validate_spect_data_set``, the key list in the
help text of ``get-torch-spect-data-dir-info`` and the ``sos``/``eos`` parameter docs.

A directory is a flat dict  ``{"feat/a.pt": tens, "ali/a.pt": tens, "ref/a.pt": tens}``
where ``tens = {"dtype": "int64", "shape": [2, 3], "data": nested list}``. All tensors of the
model live on the CPU (condition 1 / repair 1 are outside the model: no CUDA device here).
"""

import copy

LONG = "int64"
# repair 2: "A reference or alignment of bytes or 32-bit integers can be upcast to long tensors"
UPCASTABLE = ("uint8", "int32")
SUFFIX = ".pt"


# ---- helpers ----------------------------------------------------------------------------
def tens(dtype, shape, data):
    return {"dtype": dtype, "shape": list(shape), "data": data}


def subdir(d, name):
    """{utt: tens} of one sub-directory."""
    out = {}
    for path, t in d.items():
        sd, fn = path.split("/")
        if sd == name and fn.endswith(SUFFIX):
            out[fn[: -len(SUFFIX)]] = t
    return out


def utterances(d):
    """Utterance ids of the data set: those of feat/, restricted to the ids that also have an
    alignment (when ali/ holds any file) and a reference (when ref/ holds any file)."""
    ids = set(subdir(d, "feat"))
    ali, ref = subdir(d, "ali"), subdir(d, "ref")
    if ali:
        ids &= set(ali)
    if ref:
        ids &= set(ref)
    return sorted(ids)


def _frames(feat):
    """T of a feature tensor, None when it is not a matrix."""
    return feat["shape"][0] if len(feat["shape"]) == 2 else None


def _rows(t):
    """rows of a 2-D tensor as lists (an (0, 3) tensor has none)."""
    return [list(r) for r in t["data"]] if t["shape"][0] else []


# ---- validity (conditions 2-6 of the docstring) -----------------------------------------
def row_ok(s, e, T):
    """6.3.2: both negative, or 0 <= start <= end <= T."""
    if s < 0 and e < 0:
        return True
    return 0 <= s <= e <= T


def violated_conditions(d):
    """sorted list of the numbered conditions the directory breaks ([] = valid)."""
    bad = set()
    utts = utterances(d)
    feat, ali, ref = subdir(d, "feat"), subdir(d, "ali"), subdir(d, "ref")
    dtypes = set(feat[u]["dtype"] for u in utts)
    if len(dtypes) > 1:
        bad.add("2")
    widths = set()
    for u in utts:
        if len(feat[u]["shape"]) != 2:
            bad.add("3")
        else:
            widths.add(feat[u]["shape"][1])
    if len(widths) > 1:
        bad.add("4")
    if ali:
        for u in utts:
            a = ali[u]
            if a["dtype"] != LONG:
                bad.add("5.1")
            if len(a["shape"]) != 1:
                bad.add("5.2")
            T = _frames(feat[u])
            if T is not None and a["shape"][0] != T:
                bad.add("5.3")
    if ref:
        ndims = set()
        for u in utts:
            r = ref[u]
            if r["dtype"] != LONG:
                bad.add("6.1")
            nd = len(r["shape"])
            ndims.add(nd)
            if nd not in (1, 2):
                bad.add("6.2")
            if nd == 2:
                if r["shape"][1] != 3:
                    bad.add("6.3.1")
                else:
                    T = _frames(feat[u])
                    for tok, s, e in _rows(r):
                        if T is not None and not row_ok(s, e, T):
                            bad.add("6.3.2")
        if len(ndims) > 1:
            bad.add("6.2")
    return sorted(bad)


def spec_valid(d):
    return not violated_conditions(d)


# ---- repairs (permitted changes 2-5 of the docstring) -----------------------------------
def _upcast(t):
    if t["dtype"] == LONG:
        return t
    if t["dtype"] in UPCASTABLE:
        return tens(LONG, t["shape"], copy.deepcopy(t["data"]))
    return None


def repair_ali(a, T, k):
    """repaired alignment, the same object when nothing is to do, None when not repairable."""
    a2 = _upcast(a)  # change 2
    if a2 is None or len(a2["shape"]) != 1:
        return None
    if T is None:
        return a2
    n = a2["shape"][0]
    if n == T:
        return a2
    if T < n <= T + k:  # change 5: exceeding the number of frames by at most `fix` -> cropped
        return tens(LONG, [T], list(a2["data"][:T]))
    return None


def repair_ref(r, T, k):
    r2 = _upcast(r)  # change 2
    if r2 is None:
        return None
    nd = len(r2["shape"])
    if nd == 1:
        return r2
    if nd != 2 or r2["shape"][1] != 3:
        return None
    if T is None:
        return r2
    rows, changed = [], False
    for tok, s, e in _rows(r2):
        if s < 0 and e < 0:
            pass
        elif s < 0 or e < 0:  # change 3: only one bound -> the existing one removed
            s, e, changed = -1, -1, True
        elif s > e:
            return None
        elif e > T:
            # change 4: end exceeds T by at most `fix` -> decreased to T, only if it stays >= start
            if e - T <= k and T >= s:
                e, changed = T, True
            else:
                return None
        rows.append([tok, s, e])
    if not changed:
        return r2
    return tens(LONG, r2["shape"], rows)


def file_repairs(d, k):
    """{path: repaired tens | None} for every ali/ref file of a listed utterance (per file,
    ignoring cross-file conditions)."""
    out = {}
    utts = utterances(d)
    feat, ali, ref = subdir(d, "feat"), subdir(d, "ali"), subdir(d, "ref")
    for u in utts:
        T = _frames(feat[u])
        if ali:
            out["ali/" + u + SUFFIX] = repair_ali(ali[u], T, k)
        if ref:
            out["ref/" + u + SUFFIX] = repair_ref(ref[u], T, k)
    return out


def spec_repair(d, k):
    """The directory after validate(fix=k), or None when validation must still raise."""
    reps = file_repairs(d, k)
    if any(v is None for v in reps.values()):
        return None
    d2 = dict(d)
    d2.update(reps)
    if violated_conditions(d2):  # anything left is not among the permitted changes
        return None
    return d2


def admissible_after_raise(d, k):
    """{path: [allowed tens, ...]}: when validate(fix=k) raises, each file is either untouched or
    fully repaired (the pass is sequential; earlier utterances may already be written back)."""
    reps = file_repairs(d, k)
    out = {}
    for path, t in d.items():
        out[path] = [t]
        if reps.get(path) is not None and reps[path] != t:
            out[path].append(reps[path])
    return out


# ---- statistics report (help text of get-torch-spect-data-dir-info) ----------------------
def _flat(t):
    return list(t["data"])


def spec_info(d):
    """key -> int, for a *valid* directory with at least one utterance."""
    utts = utterances(d)
    feat, ali, ref = subdir(d, "feat"), subdir(d, "ali"), subdir(d, "ref")
    info = {"num_utterances": len(utts)}
    info["num_filts"] = feat[utts[0]]["shape"][1]
    info["total_frames"] = sum(feat[u]["shape"][0] for u in utts)
    # alignments
    counts, segs = {}, {}
    if ali:
        for u in utts:
            last = None
            for c in _flat(ali[u]):
                counts[c] = counts.get(c, 0) + 1
                if c != last:
                    segs[c] = segs.get(c, 0) + 1
                last = c
    info["max_ali_class"] = max(counts) if counts else -1
    if counts:
        w = len(str(max(counts)))
        for c in range(max(counts) + 1):
            info["count_%0*d" % (w, c)] = counts.get(c, 0)
            info["segs_%0*d" % (w, c)] = segs.get(c, 0)
    # references
    rsegs, rframes, unbounded = {}, {}, set()
    if ref:
        total = 0
        for u in utts:
            r = ref[u]
            if len(r["shape"]) == 1:
                rows = [(tok, -1, -1) for tok in _flat(r)]
            else:
                rows = _rows(r)
            total += len(rows)
            for tok, s, e in rows:
                rsegs[tok] = rsegs.get(tok, 0) + 1
                if s < 0 or e < 0:
                    unbounded.add(tok)
                else:
                    rframes[tok] = rframes.get(tok, 0) + (e - s)
        info["total_tokens"] = total
    else:
        info["total_tokens"] = -1
    info["max_ref_class"] = max(rsegs) if rsegs else -1
    if rsegs:
        w = len(str(max(rsegs)))
        for c in range(max(rsegs) + 1):
            info["rsegs_%0*d" % (w, c)] = rsegs.get(c, 0)
            if c not in rsegs or c in unbounded:
                info["rcount_%0*d" % (w, c)] = -1
            else:
                info["rcount_%0*d" % (w, c)] = rframes.get(c, 0)
    return info


# ---- sos / eos -----------------------------------------------------------------------------
def spec_read_tokens(x, sos, eos):
    """token column of what reading the transcript x must yield."""
    return ([sos] if sos is not None else []) + list(x) + ([eos] if eos is not None else [])


def spec_strip(y, sos, eos):
    """documented write_hyp stripping: everything up to and including the last sos, everything
    from the first eos on (y: list of tokens or of [tok, s, e] rows)."""
    def tok(v):
        return v[0] if isinstance(v, (list, tuple)) else v

    y = list(y)
    if sos is not None:
        idx = [i for i, v in enumerate(y) if tok(v) == sos]
        if idx:
            y = y[idx[-1] + 1:]
    if eos is not None:
        idx = [i for i, v in enumerate(y) if tok(v) == eos]
        if idx:
            y = y[: idx[0]]
    return y
