"""Reference model for C20 in plain Python: broadcasting, kept-value bounds, head algebra.

Tensors are nested lists plus a shape tuple.  Nothing here imports torch or the library.
"""

import itertools


# ------------------------------------------------------------------------ broadcasting
def bcast(*shapes):
    """Right-aligned broadcast of shapes; raises ValueError if they do not broadcast."""
    rank = max(len(s) for s in shapes)
    out = []
    for i in range(rank):
        size = 1
        for s in shapes:
            j = i - (rank - len(s))
            if j < 0:
                continue
            if s[j] != 1:
                if size != 1 and size != s[j]:
                    raise ValueError(f"shapes {shapes} do not broadcast")
                size = s[j]
        out.append(size)
    return tuple(out)


def indices(shape):
    return itertools.product(*(range(s) for s in shape))


def bget(nested, shape, idx):
    """Element of a tensor *as broadcast* to a (same-rank) larger shape, at full index idx."""
    for i, s in zip(idx, shape):
        nested = nested[i if s != 1 else 0]
    return nested


def insert(idx, pos, t):
    return tuple(idx[:pos]) + (t,) + tuple(idx[pos:])


def shapes(q_shape, k_shape, v_shape, m_shape, tpos):
    """(e_shape, full_shape, out_shape) according to the documented rules: the query gets a
    singleton axis at the sequence position and broadcasts with key[:-1]; mask and value[:-1]
    broadcast with the result; the sequence axis is then reduced."""
    q_un = tuple(q_shape[:-1][:tpos]) + (1,) + tuple(q_shape[:-1][tpos:])
    e_shape = bcast(q_un, tuple(k_shape[:-1]))
    parts = [e_shape, tuple(v_shape[:-1])]
    if m_shape is not None:
        parts.append(tuple(m_shape))
    full = bcast(*parts)
    out_shape = tuple(full[:tpos]) + tuple(full[tpos + 1 :]) + (v_shape[-1],)
    return e_shape, full, out_shape


# ---------------------------------------------------------------------- convexity bounds
def kept_bounds(value, v_shape, mask, m_shape, full, tpos):
    """{output index (batch..., d): (min, max)} over the kept sequence positions.
    mask None = everything kept.  Raises ValueError when an output has no kept position."""
    T = full[tpos]
    D = v_shape[-1]
    rest = tuple(full[:tpos]) + tuple(full[tpos + 1 :])
    out = {}
    for b in indices(rest):
        kept = []
        for t in range(T):
            f = insert(b, tpos, t)
            if mask is None or bget(mask, m_shape, f):
                kept.append(bget(value, v_shape[:-1], f))
        if not kept:
            raise ValueError("no kept position")
        for d in range(D):
            col = [vec[d] for vec in kept]
            out[b + (d,)] = (min(col), max(col))
    return out


def replaceable(shape_wo_last, mask, m_shape, full):
    """For a key/value tensor (shape without its feature axis): the set of its own indices all
    of whose occurrences in the broadcast problem are masked out, i.e. entries whose content
    may be replaced by anything."""
    occ = {}
    for f in indices(full):
        own = tuple(i if s != 1 else 0 for i, s in zip(f, shape_wo_last))
        masked = not bget(mask, m_shape, f)
        occ[own] = occ.get(own, True) and masked
    return {k for k, v in occ.items() if v}


# --------------------------------------------------------------------------- head algebra
def linear(vec, weight, bias):
    """weight: rows = outputs (torch.nn.Linear layout)."""
    out = []
    for r, row in enumerate(weight):
        acc = 0.0
        for w, x in zip(row, vec):
            acc += w * x
        if bias is not None:
            acc += bias[r]
        out.append(acc)
    return out


def map_vectors(nested, rank, fn):
    """Apply fn to every innermost vector of a rank-`rank` nested list."""
    if rank == 1:
        return fn(nested)
    return [map_vectors(x, rank - 1, fn) for x in nested]


def project(nested, rank, weight, bias):
    return map_vectors(nested, rank, lambda v: linear(v, weight, bias))


def head_slice(nested, rank, h, d):
    """Head h of a projection of size num_heads*d laid out head-major."""
    return map_vectors(nested, rank, lambda v: v[h * d : (h + 1) * d])


def concat_heads(heads, rank):
    """Concatenate same-shaped nested lists along the last axis."""
    if rank == 1:
        out = []
        for h in heads:
            out.extend(h)
        return out
    return [concat_heads([h[i] for h in heads], rank - 1) for i in range(len(heads[0]))]
