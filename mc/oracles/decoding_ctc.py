"""Reference models for CTC prefix search (C05). Plain Python, no torch.

Conventions: ``V`` labels ``0..V-1``, blank is index ``V``. ``probs`` is a list over frames of
lists of ``V+1`` probabilities. A prefix is a tuple of labels. ``ext(t, prefix, v)`` is the score
of *extending* ``prefix`` by label ``v`` at frame ``t`` (``probs[t][v]`` without fusion, the fused
score with a language model); a repeated label that does not extend the prefix and the blank always
use the plain frame probabilities.

Oracle A  ``exact_masses``  : enumerate all (V+1)^T alignments, collapse, sum.
Oracle B  ``prefix_beam``   : the standard prefix-beam recursion with (p_b, p_nb) per prefix in a
                              dict, pruned to ``width`` after every frame, reporting near-ties at
                              pruning decisions.
"""

import itertools
import math

NEG_INF = float("-inf")


def softmax(row):
    m = max(row)
    if m == NEG_INF:
        raise ValueError("all scores impossible")
    e = [0.0 if x == NEG_INF else math.exp(x - m) for x in row]
    s = sum(e)
    return [x / s for x in e]


def frame_probs(logits):
    """logits: list over frames of V+1 scores -> list over frames of V+1 probabilities"""
    return [softmax(list(r)) for r in logits]


def encode(prefix, V):
    """integer code of a label sequence (injective over all sequences): base V+1 digits tok+1"""
    c = 0
    for tok in prefix:
        c = c * (V + 1) + tok + 1
    return c


def n_codes(V, L):
    """number of codes needed for all sequences of length <= L"""
    return sum((V + 1) ** i for i in range(L + 1)) + 1


def make_ext(probs, V, fusion=None, beta=0.0, lm_probs=None):
    """Extension score function.

    fusion None      : p_ctc(v)
    fusion 'plain'   : p_ctc(v) * P_lm(v | prefix) ** beta                (shallow fusion)
    fusion 'mixture' : (1 - beta) p_ctc(v) + beta P_lm(v | prefix) (1 - p_ctc(blank))
    ``lm_probs(prefix)`` returns the list of V next-label probabilities of the language model.
    """
    if fusion is None or not beta:
        return lambda t, prefix, v: probs[t][v]
    if fusion == "plain":
        return lambda t, prefix, v: probs[t][v] * (lm_probs(prefix)[v] ** beta)
    if fusion == "mixture":
        return lambda t, prefix, v: (1.0 - beta) * probs[t][v] + beta * lm_probs(prefix)[v] * (
            1.0 - probs[t][V]
        )
    raise ValueError(fusion)


def collapse(path, V):
    out = []
    last = V
    for a in path:
        if a != V and a != last:
            out.append(a)
        last = a
    return tuple(out)


def reachable_prefixes(T, V):
    """all label sequences that some alignment of T frames collapses to (structure only)"""
    return sorted({collapse(p, V) for p in itertools.product(range(V + 1), repeat=T)}, key=lambda s: (len(s), s))


def exact_masses(probs, V, ext):
    """Oracle A: dict prefix -> total mass of all alignments of len(probs) frames collapsing to it.
    Prefixes whose every alignment has a zero factor get exactly 0.0 (and are listed)."""
    T = len(probs)
    out = {}
    for path in itertools.product(range(V + 1), repeat=T):
        mass = 1.0
        prefix = ()
        last = V
        for t, a in enumerate(path):
            if a == V:
                mass *= probs[t][V]
            elif a == last:
                mass *= probs[t][a]
            else:
                mass *= ext(t, prefix, a)
                prefix = prefix + (a,)
            last = a
        out[prefix] = out.get(prefix, 0.0) + mass
    return out


def live_counts(probs, V, ext, tiny=0.0):
    """[number of prefixes with positive exact mass after t frames, for t = 0..T]"""
    return [
        sum(1 for m in exact_masses(probs[:t], V, ext).values() if m > tiny) for t in range(len(probs) + 1)
    ]


def is_tie(a, b, tie_abs, tie_rel):
    return abs(a - b) <= tie_abs + tie_rel * max(abs(a), abs(b))


def prefix_beam_step(beam, p_t, t, V, width, ext, tie_abs, tie_rel):
    """One frame of Oracle B. beam: dict prefix -> (p_b, p_nb). Returns (new_beam, pruned, tie).

    Zero-mass candidates are inert (all their descendants have zero mass and anything merged into
    them arrives identically if they are absent), so only positive-mass candidates are kept."""
    cand = {}

    def add(y, pb, pnb):
        c = cand.get(y)
        if c is None:
            cand[y] = [pb, pnb]
        else:
            c[0] += pb
            c[1] += pnb

    for y, (pb, pnb) in beam.items():
        add(y, (pb + pnb) * p_t[V], 0.0)  # blank keeps the prefix
        if y:
            add(y, 0.0, pnb * p_t[y[-1]])  # repeated label without a blank keeps the prefix
        for v in range(V):
            e = ext(t, y, v)
            if y and v == y[-1]:
                add(y + (v,), 0.0, pb * e)  # a repeat extends only after a blank
            else:
                add(y + (v,), 0.0, (pb + pnb) * e)
    items = [(y, pb, pnb) for y, (pb, pnb) in cand.items() if pb + pnb > 0.0]
    items.sort(key=lambda it: -(it[1] + it[2]))
    pruned = len(items) > width
    tie = False
    if pruned:
        a = items[width - 1][1] + items[width - 1][2]
        b = items[width][1] + items[width][2]
        tie = is_tie(a, b, tie_abs, tie_rel)
        items = items[:width]
    return {y: (pb, pnb) for y, pb, pnb in items}, pruned, tie


def prefix_beam(probs, V, width, ext, tie_abs=1e-6, tie_rel=0.0):
    """Oracle B over all frames. Returns dict(beam=prefix->(p_b,p_nb), pruned=bool, tie=bool,
    history=[beam after frame 0 (= initial), 1, ...])."""
    beam = {(): (1.0, 0.0)}
    hist = [beam]
    pruned = tie = False
    for t, p_t in enumerate(probs):
        beam, pr, ti = prefix_beam_step(beam, p_t, t, V, width, ext, tie_abs, tie_rel)
        pruned = pruned or pr
        tie = tie or ti
        hist.append(beam)
    return {"beam": beam, "pruned": pruned, "tie": tie, "history": hist}
