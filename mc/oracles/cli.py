"""Reference models for C17 (command-line tools).  Plain Python: strings, lists, dicts, Fractions.

Nothing here imports the library under check.  File formats are produced/parsed by these
functions (never by the library's own readers/writers), so a defect in the library's reader
cannot cancel against the same defect in the oracle.
"""

import math
from decimal import Decimal
from fractions import Fraction

from mc.oracles import strings as OS

TOKENS = ("a", "b", "c")


# ---------------------------------------------------------------------------------------
# token <-> id tables
def token2id_text(tok2id, swap):
    """Mapping file.  Without swap: '<token> <id>' lines, with swap '<id> <token>'."""
    return "".join((f"{i} {t}\n" if swap else f"{t} {i}\n") for t, i in tok2id.items())


def sec(frame, fs_ms):
    """Exact decimal string of frame*fs_ms/1000 seconds."""
    d = Decimal(frame) * Decimal(str(fs_ms)) / Decimal(1000)
    s = format(d, "f")
    if "." not in s:
        s += ".0"
    return s


def sec_float(frame, fs_ms):
    return float(Fraction(frame) * Fraction(str(fs_ms)) / 1000)


# ---------------------------------------------------------------------------------------
# trn
def trn_text(utts):
    """utts: list of (utt_id, [token, ...])"""
    return "".join("".join(t + " " for t in toks) + f"({u})\n" for u, toks in utts)


def parse_trn(text):
    """-> list of (utt_id, [tokens]) in file order (no alternates are ever expected back)."""
    out = []
    for line in text.split("\n"):
        line = line.strip()
        if not line:
            continue
        i, j = line.rindex("("), line.rindex(")")
        out.append((line[i + 1: j], line[:i].split()))
    return out


# ---------------------------------------------------------------------------------------
# ctm
def ctm_text(rows, fs_ms):
    """rows: list of (wfn, chan, start_frame, end_frame, token) -> text with start and duration in
    seconds (exact decimals)."""
    return "".join(
        f"{w} {c} {sec(s, fs_ms)} {sec(e - s, fs_ms)} {t}\n" for w, c, s, e, t in rows
    )


def parse_ctm(text):
    out = []
    for line in text.split("\n"):
        line = line.split(";;")[0].strip()
        if not line:
            continue
        w, c, s, d, t = line.split()[:5]
        out.append((w, c, float(s), float(d), t))
    return out


# ---------------------------------------------------------------------------------------
# TextGrid, short ("old oo") text format, one tier
def textgrid_text(segs, point, fs_ms, total_frames, tier_name="transcript"):
    """segs: list of (token, start_frame, end_frame) (points: start == end)."""
    kind = "TextTier" if point else "IntervalTier"
    out = [  # the tier spans the whole file, as in files written by Praat
        'File type = "ooTextFile"', 'Object class = "TextGrid"', sec(0, fs_ms), sec(total_frames, fs_ms),
        "<exists>", "1", f'"{kind}"', f'"{tier_name}"', sec(0, fs_ms), sec(total_frames, fs_ms),
        str(len(segs)),
    ]
    for t, s, e in segs:
        out.append(sec(s, fs_ms))
        if not point:
            out.append(sec(e, fs_ms))
        out.append(f'"{t}"')
    return "\n".join(out) + "\n"


def parse_textgrid(text):
    """-> dict(xmin, xmax, kind, name, tmin, tmax, segs=[(token, start, end)], raw_times=[str])"""
    ln = [x for x in text.split("\n")]
    if ln and ln[-1] == "":
        ln.pop()
    if ln[0] != 'File type = "ooTextFile"' or ln[1] != 'Object class = "TextGrid"':
        raise ValueError("not a short TextGrid file")
    if ln[4] != "<exists>" or ln[5] != "1":
        raise ValueError("expected exactly one tier")
    kind, name = ln[6].strip('"'), ln[7].strip('"')
    n = int(ln[10])
    body = ln[11:]
    segs, raw = [], [ln[2], ln[3], ln[8], ln[9]]
    step = 2 if kind == "TextTier" else 3
    if len(body) != n * step:
        raise ValueError(f"tier announces {n} entries, body has {len(body)} lines")
    for i in range(n):
        if kind == "TextTier":
            t0, tok = body[2 * i], body[2 * i + 1]
            segs.append((tok.strip('"'), float(t0), float(t0)))
            raw.append(t0)
        else:
            t0, t1, tok = body[3 * i: 3 * i + 3]
            segs.append((tok.strip('"'), float(t0), float(t1)))
            raw += [t0, t1]
    return dict(xmin=float(ln[2]), xmax=float(ln[3]), kind=kind, name=name, tmin=float(ln[8]),
                tmax=float(ln[9]), segs=segs, raw_times=raw)


# ---------------------------------------------------------------------------------------
# alignments
def runs(ali):
    """[(label, start, end)] maximal runs of a per-frame alignment."""
    out = []
    for t, a in enumerate(ali):
        if out and out[-1][0] == a:
            out[-1][2] = t + 1
        else:
            out.append([a, t, t + 1])
    return [tuple(r) for r in out]


# ---------------------------------------------------------------------------------------
# error rates
def er_expect(triples, replace, ignore, costs):
    """triples: [(utt, ref tokens, hyp tokens)] -> per utterance (utt, ref_len, lo, hi): the fewest
    and most edits over minimum-cost alignments after replacement, then removal."""
    out = []
    for utt, ref, hyp in triples:
        r = [replace.get(t, t) for t in ref]
        r = [t for t in r if t not in ignore]
        h = [replace.get(t, t) for t in hyp]
        h = [t for t in h if t not in ignore]
        _, lo, hi = OS.distance(tuple(r), tuple(h), costs)
        out.append((utt, len(r), lo[-1], hi[-1]))
    return out


# ---------------------------------------------------------------------------------------
# subsetting
def subset_expect(ids, lengths, crit, value):
    """ids: utterance ids present in feat/ (any order); lengths: id -> number of frames.
    Returns the list of ids selected, or ("random", n) for --rand-*: any n distinct ids."""
    N = len(ids)
    by_id = sorted(ids)
    if crit in ("utt-list", "utt-list-file"):
        return [u for u in dict.fromkeys(value) if u in set(ids)]
    kind, unit = crit.rsplit("-", 1)
    if unit == "n":
        n = min(int(value), N)
    else:
        n = int(math.floor(Fraction(str(value)) * N))
    if kind == "first":
        return by_id[:n]
    if kind == "last":
        return by_id[::-1][:n]
    if kind == "shortest":
        return sorted(ids, key=lambda u: (lengths[u], u))[:n]
    if kind == "longest":
        return sorted(ids, key=lambda u: (-lengths[u], u))[:n]
    if kind == "rand":
        return ("random", n)
    raise ValueError(crit)


# ---------------------------------------------------------------------------------------
# statistics
def pooled_mean_std(vectors, bessel):
    """vectors: list of feature vectors (lists of equal length) -> (mean, std) per coefficient."""
    n = len(vectors)
    F = len(vectors[0])
    mean, std = [], []
    for f in range(F):
        xs = [Fraction(v[f]) for v in vectors]
        m = sum(xs) / n
        var = sum((x - m) ** 2 for x in xs) / (n - 1 if bessel else n)
        mean.append(float(m))
        std.append(math.sqrt(float(var)))
    return mean, std


def length_moments(lens, bessel, std):
    """-> (mean, spread) as floats or None ('n/a') following the documented conventions."""
    c = len(lens)
    if c == 0:
        return None, None
    m = Fraction(sum(lens), c)
    if bessel and c == 1:
        return float(m), None
    var = sum((Fraction(x) - m) ** 2 for x in lens) / (c - 1 if bessel else c)
    v = float(var)
    return float(m), (math.sqrt(v) if std else v)


def info_expect(utts):
    """utts: list of dict(T, F, ali=list|None, ref=list of (tok,s,e)|list of tok|None)."""
    d = {"num_utterances": len(utts), "total_frames": sum(u["T"] for u in utts),
         "max_ali_class": -1, "max_ref_class": -1, "total_tokens": -1}
    if utts:
        d["num_filts"] = utts[0]["F"]
    counts, segs, rcounts, rsegs = {}, {}, {}, {}
    for u in utts:
        if u.get("ali") is not None:
            for lab, s, e in runs(u["ali"]):
                counts[lab] = counts.get(lab, 0) + e - s
                segs[lab] = segs.get(lab, 0) + 1
        if u.get("ref") is not None:
            if d["total_tokens"] < 0:
                d["total_tokens"] = 0
            for row in u["ref"]:
                tok, s, e = row if isinstance(row, (tuple, list)) else (row, -1, -1)
                d["total_tokens"] += 1
                rsegs[tok] = rsegs.get(tok, 0) + 1
                if rcounts.get(tok, 0) >= 0 and s >= 0 and e > s:
                    rcounts[tok] = rcounts.get(tok, 0) + e - s
                else:
                    rcounts[tok] = -1
    if counts:
        d["max_ali_class"] = max(counts)
        for i in range(max(counts) + 1):
            d[f"count_{i}"] = counts.get(i, 0)
            d[f"segs_{i}"] = segs.get(i, 0)
    if rsegs:
        d["max_ref_class"] = max(rsegs)
        for i in range(max(rsegs) + 1):
            d[f"rcount_{i}"] = rcounts.get(i, -1)
            d[f"rsegs_{i}"] = rsegs.get(i, 0)
    return d
