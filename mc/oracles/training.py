"""Reference state machine for C15: carries reference *values*, no index arithmetic."""

INF = float("inf")


class RefController:
    def __init__(self, cfg):
        g = cfg.get
        self.num_epochs = g("num_epochs", None)
        self.es_thr = g("early_stopping_threshold", 0.0)
        self.es_full = g("early_stopping_patience", 1)
        self.es_burn = g("early_stopping_burnin", 0)
        self.rlr_thr = g("reduce_lr_threshold", 0.0)
        self.rlr_full = g("reduce_lr_patience", 1)
        self.rlr_burn = g("reduce_lr_burnin", 0)
        self.rlr_cool = g("reduce_lr_cooldown", 0)
        self.factor = g("reduce_lr_factor", 0.1)
        self.eps = 10 ** g("reduce_lr_log10_epsilon", -8)
        l10 = g("log10_learning_rate", None)
        self.lr = 10 ** l10 if l10 is not None else g("init_lr", 1.0)
        self.epoch = 0
        self.es_wait = self.es_burn  # post-burn-in only
        self.es_left = self.es_full  # consecutive failures still tolerated
        self.es_ref = INF  # metric when the patience count was last reset
        self.rlr_wait = self.rlr_burn
        self.rlr_left = self.rlr_full
        self.rlr_ref = INF

    def update(self, val):
        """Returns (continue?, learning rate after this epoch, reduced_now?)."""
        self.epoch += 1
        cont = True if not self.num_epochs else self.epoch < self.num_epochs
        # early stopping
        if self.es_wait:
            self.es_wait -= 1
            self.es_ref = val  # nothing is held against the model during burn-in
        elif max(self.es_ref - val, 0) < self.es_thr:
            self.es_left = max(self.es_left - 1, 0)
        else:
            self.es_left = self.es_full
            self.es_ref = val
        if self.es_thr and self.es_left == 0:
            cont = False
        # learning-rate reduction
        reduced = False
        if self.rlr_wait:
            self.rlr_wait -= 1
            self.rlr_ref = val
        elif max(self.rlr_ref - val, 0) < self.rlr_thr:
            self.rlr_left -= 1
            if self.rlr_left == 0:
                new = self.lr * self.factor
                if self.lr - new > self.eps:
                    self.lr = new
                    reduced = True
                self.rlr_wait = self.rlr_cool
                self.rlr_left = self.rlr_full
                self.rlr_ref = val
        else:
            self.rlr_left = self.rlr_full
            self.rlr_ref = val
        return cont, self.lr, reduced
