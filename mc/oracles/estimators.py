"""Reference models for C19: exact expectations over small discrete sample spaces, their exact
gradients, Metropolis-Hastings averages, relaxed-sample formulas, subsets and binomials.

Plain Python only (loops, lists, math).  Nothing here imports torch or the library.

A *proposal spec* is a dict:

    {"kind": "bern",   "par": "logits"|"probs", "theta": [...], "const": {i: 0.0|1.0}}
        independent binary variables; support = all bit tuples (b_0, ..., b_{n-1});
        variables listed in "const" have a constant probability 0 or 1 (no parameter influence)
    {"kind": "cat",    "par": "logits"|"probs", "theta": [...], "masked": [i, ...]}
        one categorical variable; support = class indices 0..V-1; probs are normalised by their sum;
        classes listed in "masked" have logit -inf / probability 0 (mass 0, no parameter influence)
    {"kind": "srswor", "T": total, "L": given, "out": out_size}
        uniform over bit tuples of length out with exactly L ones, all inside the first T positions
    {"kind": "cbern",  "T":, "L":, "out":, "theta": [...]}
        UNNORMALISED density exp(sum_i theta_i b_i) on the srswor support (conditional Bernoulli)

``table(spec)`` returns (support, mass, dlog) with mass[s] = P(b_s) and dlog[s][j] =
d log P(b_s) / d theta_j  (so that  d/d theta_j sum_s P(b_s) g(b_s) = sum_s P(b_s) g(b_s) dlog[s][j]).
"""

import math


# ---------------------------------------------------------------------------------------
def sigmoid(x):
    if x >= 0:
        return 1.0 / (1.0 + math.exp(-x))
    e = math.exp(x)
    return e / (1.0 + e)


def softmax(xs):
    m = max(xs)
    es = [0.0 if x == -math.inf else math.exp(x - m) for x in xs]
    t = sum(es)
    return [e / t for e in es]


def bit_tuples(n):
    """all tuples in {0,1}^n, first coordinate varying fastest (index = sum b_i 2^i)"""
    out = []
    for s in range(2 ** n):
        out.append(tuple((s >> i) & 1 for i in range(n)))
    return out


def bits_index(b):
    return sum(int(v) << i for i, v in enumerate(b))


def pascal(nmax):
    """rows 0..nmax of Pascal's triangle, C[n][k] with C[n][k] = 0 for k > n"""
    C = [[0] * (nmax + 1) for _ in range(nmax + 1)]
    for n in range(nmax + 1):
        C[n][0] = 1
        for k in range(1, n + 1):
            C[n][k] = C[n - 1][k - 1] + (C[n - 1][k] if k <= n - 1 else 0)
    return C


def choose(n, k):
    if k < 0 or n < 0 or k > n:
        return 0
    return pascal(n)[n][k]


def subsets(T, L, out=None):
    """every bit tuple of length ``out`` (default T) with exactly L ones, all among the first T
    positions; ordered by index"""
    out = T if out is None else out
    res = []
    for b in bit_tuples(T):
        if sum(b) == L:
            res.append(b + (0,) * (out - T))
    return res


# ---------------------------------------------------------------------------------------
def table(spec):
    kind = spec["kind"]
    if kind == "bern":
        theta = spec["theta"]
        const = {int(k): float(v) for k, v in (spec.get("const") or {}).items()}
        n = len(theta)
        p1, d1, d0 = [], [], []  # P(b_i = 1), dlogP(b_i=1)/dtheta_i, dlogP(b_i=0)/dtheta_i
        for i, th in enumerate(theta):
            if i in const:
                p1.append(const[i]); d1.append(0.0); d0.append(0.0)
            elif spec["par"] == "logits":
                p = sigmoid(th)
                p1.append(p); d1.append(1.0 - p); d0.append(-p)
            else:
                p1.append(th); d1.append(1.0 / th); d0.append(-1.0 / (1.0 - th))
        support, mass, dlog = [], [], []
        for b in bit_tuples(n):
            m = 1.0
            for i in range(n):
                m *= p1[i] if b[i] else (1.0 - p1[i])
            if m == 0.0:
                continue  # outside the support
            support.append(b)
            mass.append(m)
            dlog.append([d1[i] if b[i] else d0[i] for i in range(n)])
        return support, mass, dlog
    if kind == "cat":
        masked = set(int(i) for i in (spec.get("masked") or []))
        # masked classes: logit exactly -inf (par == "logits") / probability exactly 0 (par == "probs");
        # they stay in the enumerated support with mass 0 and have no parameter influence
        theta = [(-math.inf if spec["par"] == "logits" else 0.0) if i in masked else t
                 for i, t in enumerate(spec["theta"])]
        V = len(theta)
        if masked and spec["par"] == "probs":
            tot = sum(theta)
            p = [t / tot for t in theta]
            # live class k: d log(theta_k / tot) / d theta_j = [j == k] / theta_k - 1 / tot, also for a masked j
            # (normalisation); the masked rows have mass 0 and are never used (the derivative of their own
            # mass, +1/tot, is a boundary term no expectation of the form sum P g dlog can carry - callers
            # must not compare the masked coordinates of a gradient)
            dlog = [[0.0 if k in masked else (1.0 / theta[k] if j == k else 0.0) - 1.0 / tot
                     for j in range(V)] for k in range(V)]
            return list(range(V)), p, dlog
        if spec["par"] == "logits":
            p = softmax(theta)
            dlog = [[0.0 if (j in masked or k in masked) else (1.0 if j == k else 0.0) - p[j] for j in range(V)]
                    for k in range(V)]
        else:
            tot = sum(theta)
            p = [t / tot for t in theta]
            dlog = [[(1.0 / theta[k] if j == k else 0.0) - 1.0 / tot for j in range(V)] for k in range(V)]
        return list(range(V)), p, dlog
    if kind == "srswor":
        sup = subsets(spec["T"], spec["L"], spec.get("out"))
        return sup, [1.0 / len(sup)] * len(sup), [[] for _ in sup]
    if kind == "cbern":
        sup = subsets(spec["T"], spec["L"], spec.get("out"))
        theta = spec["theta"]
        mass = [math.exp(sum(t * v for t, v in zip(theta, b)) + spec.get("shift", 0.0)) for b in sup]
        return sup, mass, [[float(v) for v in b[: len(theta)]] for b in sup]
    raise ValueError(kind)


def expectation(mass, g):
    """sum_s mass[s] * g[s]"""
    return sum(m * v for m, v in zip(mass, g))


def grad_expectation(mass, dlog, g):
    """gradient of sum_s mass[s] g[s] with respect to the parameters behind ``mass``"""
    if not dlog or not dlog[0]:
        return []
    n = len(dlog[0])
    return [sum(m * v * d[j] for m, v, d in zip(mass, g, dlog)) for j in range(n)]


# ---------------------------------------------------------------------------------------
def imh_average(values, burn_in, is_log):
    """plain post-burn-in average of the chain values f(b^(1)), ..., f(b^(N)) (chain == the
    proposals themselves when every proposal is accepted).  In log space the values are log f
    and the result is log mean exp."""
    kept = values[burn_in:]
    if is_log:
        m = max(kept)
        return m + math.log(sum(math.exp(v - m) for v in kept) / len(kept))
    return sum(kept) / len(kept)


# ---------------------------------------------------------------------------------------
# relaxed Bernoulli (logistic), formulas as documented: z = logit + log u - log(1-u);
# b = [z >= 0]; conditional sample given b from a uniform v
def lb_z(logit, u):
    return logit + math.log(u) - math.log1p(-u)


def lb_threshold(z):
    return 1 if z >= 0.0 else 0


def lb_zcond(p, v, b):
    if b:
        return math.log(v / ((1.0 - v) * (1.0 - p)) + 1.0)
    return -math.log(v / ((1.0 - v) * p) + 1.0)


def lb_region_u(p, v, b):
    """uniform number u that rsample maps onto lb_zcond(p, v, b): the region {u: H(z(u)) = b}
    has length P(b) and the map v -> u is linear (measure preserving up to the factor P(b))"""
    if b:
        return (1.0 - p) + p * v
    return (1.0 - p) * (1.0 - v)


# relaxed categorical (Gumbel): z_j = log p_j - log(-log u_j); b = one-hot argmax
def gumbel_region_u(p, v, k):
    """uniform vector u that rsample maps onto the documented conditional sample for class k and
    uniform vector v (top-down construction): u_k = v_k^{p_k}, u_j = v_j v_k^{p_j}.  The region
    {u: argmax = k} has volume p_k and the map has constant Jacobian p_k."""
    out = []
    for j in range(len(p)):
        if j == k:
            out.append(v[k] ** p[k])
        else:
            out.append(v[j] * v[k] ** p[j])
    return out


def gumbel_z(p, u):
    return [math.log(pj) - math.log(-math.log(uj)) for pj, uj in zip(p, u)]


def gumbel_zcond(p, v, k):
    out = []
    for j in range(len(p)):
        if j == k:
            out.append(-math.log(-math.log(v[k])))
        else:
            out.append(-math.log(-math.log(v[j]) / p[j] - math.log(v[k])))
    return out


def midpoints(K):
    return [(i + 0.5) / K for i in range(K)]
