"""Reference models for C09: pad / slice / compact ONE sequence at a time, in plain Python.

A sequence is a Python list of *items*; an item is a number or a (nested) list of numbers (the
trailing feature dimensions of one frame).  Nothing here knows about batches, masks or tensors,
except ``pad_seq_torch`` which restates the three padding rules through
``torch.nn.functional.pad`` so that the check can cross-validate the plain-Python rules.
"""

from fractions import Fraction

MODES = ("constant", "replicate", "reflect")


class Illegal(Exception):
    """The request lies outside the domain the documentation admits for the mode."""


def full(rest, value):
    """An item of trailing shape ``rest`` filled with ``value``."""
    if not rest:
        return value
    return [full(rest[1:], value) for _ in range(rest[0])]


def pad_legal(length, left, right, mode):
    if left < 0 or right < 0:
        return False
    if mode == "constant":
        return True
    if mode == "replicate":
        return length >= 1
    if mode == "reflect":
        return left < length and right < length
    raise ValueError(mode)


def pad_seq(seq, left, right, mode, pad_item=None):
    """The standard rules: constant -> concatenation with ``pad_item``; replicate -> copies of the
    first / last item; reflect -> mirror image around the first / last item (excluding it)."""
    L = len(seq)
    if not pad_legal(L, left, right, mode):
        raise Illegal((L, left, right, mode))
    if mode == "constant":
        lp = [pad_item for _ in range(left)]
        rp = [pad_item for _ in range(right)]
    elif mode == "replicate":
        lp = [seq[0] for _ in range(left)]
        rp = [seq[L - 1] for _ in range(right)]
    else:  # reflect: ... s2 s1 | s0 s1 ... s(L-1) | s(L-2) s(L-3) ...
        lp = [seq[left - i] for i in range(left)]
        rp = [seq[L - 2 - i] for i in range(right)]
    return lp + list(seq) + rp


def pad_seq_torch(seq_tensor, left, right, mode, value):
    """Same thing via torch.nn.functional.pad on the single sequence ``(L, *rest)`` (used only to
    cross-validate ``pad_seq``)."""
    import torch

    L = seq_tensor.size(0)
    if mode == "constant":
        shape = tuple(seq_tensor.shape[1:])
        return torch.cat(
            [seq_tensor.new_full((left,) + shape, value), seq_tensor, seq_tensor.new_full((right,) + shape, value)], 0
        )
    flat = seq_tensor.reshape(L, -1).t().unsqueeze(0)  # (1, F, L): pad acts on the last dimension
    isint = not flat.is_floating_point()
    out = torch.nn.functional.pad(flat.double() if isint else flat, (left, right), mode=mode)
    out = out.to(seq_tensor.dtype)
    return out.squeeze(0).t().reshape((L + left + right,) + tuple(seq_tensor.shape[1:]))


# ---- slicing ----------------------------------------------------------------------------------
def chunk_len(s, e):
    return max(e - s, 0)


def chunk_pads(length, s, e):
    """Padding the slice [s, e) of a sequence of ``length`` items needs (none for an empty slice)."""
    if e <= s:
        return 0, 0
    return max(-s, 0), max(e - length, 0)


def chunk_legal(length, s, e, mode):
    left, right = chunk_pads(length, s, e)
    if e <= s:
        # nothing is taken, so nothing has to be padded; replicate still needs an end point to exist
        # (the library documents the raise for lens < 1 irrespective of the pads)
        return mode != "replicate" or length >= 1
    return pad_legal(length, left, right, mode)


def chunk_seq(seq, s, e, mode, pad_item=None):
    """Pad-the-single-sequence-then-slice; index 0 is the first item of the unpadded sequence and
    negative indices count leftwards *into the padding* (not from the end)."""
    if e <= s:
        return []
    left, right = chunk_pads(len(seq), s, e)
    padded = pad_seq(seq, left, right, mode, pad_item)
    return padded[s + left: e + left]


def slice_class(length, s, e):
    if e == s:
        return "empty"
    if e < s:
        return "inverted"
    if e <= 0:
        return "wholly-left"
    if s >= length:
        return "wholly-right"
    if s < 0 and e > length:
        return "both-overhang"
    if s < 0:
        return "left-overhang"
    if e > length:
        return "right-overhang"
    return "inside"


# ---- compaction by a boolean mask ----------------------------------------------------------------
def compact(seq, mask, pad_item):
    """Selected items in order, then the padding item up to the original length; and the count."""
    assert len(seq) == len(mask)
    kept = [it for it, m in zip(seq, mask) if m]
    return kept + [pad_item for _ in range(len(seq) - len(kept))], len(kept)


# ---- random shift ------------------------------------------------------------------------------------
def shift_allowed(prop, length, exclusive=True):
    """Whole numbers a side may be padded by: 0 <= k < prop*length as documented ("exclusive"), and
    just 0 when prop*length == 0.  With exclusive=False the bound is 0 <= k <= prop*length (the
    wording of the property).  ``prop`` is a Fraction/decimal string, so the bound is exact."""
    b = Fraction(prop) * length
    out = []
    k = 0
    while (k < b) if exclusive else (k <= b):
        out.append(k)
        k += 1
    return out or [0]


def shift_explanations(seq, observed, props, mode, pad_item, exclusive=True):
    """Every (left, right) within the bounds for which ``observed`` is exactly ``seq`` padded by
    (left, right) under the mode: the admissible set for one output row."""
    L = len(seq)
    total = len(observed) - L
    out = []
    if total < 0:
        return out
    al = set(shift_allowed(props[0], L, exclusive))
    ar = set(shift_allowed(props[1], L, exclusive))
    for left in range(total + 1):
        right = total - left
        if left not in al or right not in ar:
            continue
        if not pad_legal(L, left, right, mode):
            continue
        if pad_seq(seq, left, right, mode, pad_item) == observed:
            out.append((left, right))
    return out


def embeddings(seq, observed):
    """Offsets at which ``seq`` occurs contiguously in ``observed`` (bounds ignored)."""
    L = len(seq)
    return [o for o in range(len(observed) - L + 1) if observed[o: o + L] == list(seq)]


# ---- exact constants ------------------------------------------------------------------------------------
def as_dtype(value, dtype):
    """The constant a tensor of ``dtype`` holds when filled with the Python float ``value``: the value
    itself for float64, the nearest single for float32, the integer for int64 (plain Python, no torch)."""
    import struct

    if dtype == "int64":
        return int(value)
    if dtype == "float32":
        return struct.unpack("f", struct.pack("f", value))[0]
    if dtype == "float64":
        return float(value)
    raise ValueError(dtype)
