"""Reference model for C08 (SpecAugment): plain-Python statement of the documented limits.

Nothing here imports torch.  Every function takes Python numbers / nested lists and returns a
list of problems (empty = the statement holds for this draw / this application).

Documented quantities (docstring of ``pydrobert.torch.modules.SpecAugment``):

* step 1/2 (warps) are disabled iff ``max_*_warp == 0``; the shift is at most ``max_*_warp``; the
  source point is taken from the window ``(W, length - W)`` where ``W`` is the maximum shift,
  limited to half the length when ``max_*_warp`` is larger (comment in the implementation; the
  property text: "warp centres and shifts stay within the permitted window").
* step 3 is disabled iff any of its four limits is 0; the width of one time mask is at most
  ``min(max_time_mask, int(max_time_mask_proportion * length))``; the number of time masks is at
  most ``min(num_time_mask, int(num_time_mask_proportion * length))``.
* step 4 is disabled iff ``max_freq_mask == 0`` or ``num_freq_mask == 0``; width <= max_freq_mask,
  number of masks = num_freq_mask.
* disabled steps return empty parameter tensors.
"""

import math
import struct
from fractions import Fraction
from functools import lru_cache


def _f32(x):
    return struct.unpack("f", struct.pack("f", float(x)))[0]


@lru_cache(maxsize=None)
def proportional_cap(prop, length):
    """int(prop * length) under every reasonable reading of the product (exact decimal, float64,
    float32).  Returns (lo, hi); the readings agree (lo == hi) on the whole enumerated scope - a
    draw is only a violation when it exceeds ``hi``."""
    cands = {
        int(math.floor(float(prop) * float(length))),
        int(math.floor(_f32(_f32(prop) * _f32(length)))),
        int(math.floor(Fraction(repr(float(prop))) * int(length))),
    }
    return min(cands), max(cands)


def warp_window(length, max_warp):
    """(W, lo, hi): maximum shift and the closed window for the warp centre."""
    W = min(float(max_warp), length / 2.0)
    return W, W, length - W


def check_warp(centre, shift, length, max_warp, tol=None):
    """One batch element's (centre, shift) draw on an axis with `length` valid points."""
    out = []
    if tol is None:
        tol = 1e-5 * max(1.0, float(length))
    W, lo, hi = warp_window(length, max_warp)
    if not (math.isfinite(centre) and math.isfinite(shift)):
        return ["non-finite-warp-parameter"]
    if abs(shift) > W + tol:
        out.append("shift-exceeds-window")
    if centre < lo - tol or centre > hi + tol:
        out.append("centre-outside-window")
    return out


def check_masks(starts, widths, length, abs_width_cap, width_prop, abs_num_cap, num_prop):
    """One batch element's mask slots on an axis with `length` valid points.
    width_prop / num_prop may be None (no proportional cap: the frequency axis)."""
    out = []
    if len(starts) != len(widths):
        return ["start/width-slot-count-differs"]
    wcap = abs_width_cap
    ncap = abs_num_cap
    if width_prop is not None:
        wcap = min(wcap, proportional_cap(width_prop, length)[1])
    if num_prop is not None:
        ncap = min(ncap, proportional_cap(num_prop, length)[1])
    nonempty = 0
    for s, w in zip(starts, widths):
        if w != int(w) or s != int(s):
            out.append("non-integer-mask-parameter")
            continue
        if w < 0:
            out.append("negative-width")
            continue
        if w > abs_width_cap:
            out.append("width-exceeds-absolute-cap")
        elif w > wcap:
            out.append("width-exceeds-proportional-cap")
        if w > 0:
            nonempty += 1
            if s < 0 or s + w > length:
                out.append("mask-outside-valid-range")
    if nonempty > abs_num_cap:
        out.append("count-exceeds-absolute-cap")
    elif nonempty > ncap:
        out.append("count-exceeds-proportional-cap")
    return out


def masked_sets(starts, widths, size):
    """Indices in range(size) covered by at least one [start, start+width) interval."""
    cov = set()
    for s, w in zip(starts, widths):
        for i in range(int(s), int(s) + int(w)):
            if 0 <= i < size:
                cov.add(i)
    return cov


def check_application(inp, out, length, rows, cols, warped, valid_lo=None, valid_hi=None, tol=1e-3):
    """inp/out: T x F nested lists of one batch element; rows/cols: masked frame / coefficient
    sets; warped: whether a warp was drawn.  Returns (problems, stats).

    * cell in a masked frame, or in a masked coefficient of a valid frame: exactly zero;
    * cell in a masked coefficient of a padding frame (and no masked frame): zero or - when no
      warp was drawn - the input value (the statement does not say whether a frequency band
      extends over the padding);
    * any other cell: bit-identical to the input when no warp was drawn; otherwise finite, and for
      valid frames inside [valid_lo - tol, valid_hi + tol] (range of the element's valid input).
    """
    problems = []
    T = len(inp)
    if len(out) != T or any(len(out[t]) != len(inp[t]) for t in range(T)):
        return ["shape-differs"], {}
    zeroed = kept = 0
    for t in range(T):
        for f in range(len(inp[t])):
            o = out[t][f]
            if t in rows or (f in cols and t < length):
                zeroed += 1
                if o != 0.0:
                    problems.append(("masked-cell-not-zero", t, f, o))
            elif f in cols:
                zeroed += 1
                if o != 0.0 and (warped or o != inp[t][f]):
                    problems.append(("masked-cell-not-zero", t, f, o))
            elif not warped:
                kept += 1
                if o != inp[t][f] or math.copysign(1.0, o) != math.copysign(1.0, inp[t][f]):
                    problems.append(("unmasked-cell-changed", t, f, o))
            else:
                kept += 1
                if not math.isfinite(o):
                    problems.append(("non-finite-value", t, f, o))
                elif t < length and not (valid_lo - tol <= o <= valid_hi + tol):
                    problems.append(("value-outside-input-range", t, f, o))
    return problems, {"zeroed": zeroed, "kept": kept}


def check_linear_positions(pos, length, tol=1e-4):
    """pos: source positions (in frames) read for output frames 0..length-1 by a linear warp."""
    out = []
    p = pos[:length]
    if any(not math.isfinite(x) for x in p):
        return ["non-finite-position"]
    if any(p[i + 1] < p[i] - tol for i in range(len(p) - 1)):
        out.append("positions-decrease")
    if abs(p[0] - 0.0) > 0.5 + tol:
        out.append("start-not-within-half-frame")
    if abs(p[-1] - (length - 1)) > 0.5 + tol:
        out.append("end-not-within-half-frame")
    return out


def destination(centre, shift, length):
    """Destination of the warp centre after the clamping documented for warp_1d_grid
    (indices live in [0, length-1]); also the clamped source."""
    src = min(max(centre, 0.0), length - 1.0)
    dst = min(max(centre + shift, 0.0), length - 1.0)
    return src, dst


def dst_on_pinned_end(centre, shift, length, delta=1e-3):
    """True when the destination lies within `delta` frames of frame 0 or frame length-1, the two
    knots that the warp pins (finding F12)."""
    _, dst = destination(centre, shift, length)
    return min(dst, (length - 1.0) - dst) <= delta


def knot_gap(centre, shift, length):
    """Distance (frames) of the clamped destination to the nearer pinned knot (frame 0 / frame length-1)."""
    _, dst = destination(centre, shift, length)
    return min(dst, (length - 1.0) - dst)


def knot_gap_class(gap):
    for bound, name in ((2e-3, "<=2e-3"), (2e-2, "<=2e-2"), (0.2, "<=0.2"), (0.5, "<=0.5")):
        if gap <= bound:
            return name
    return ">0.5"


def pad_ratio_class(T, length):
    r = T / float(length)
    for bound, name in ((4, "<4"), (16, "<16"), (64, "<64")):
        if r < bound:
            return name
    return ">=64"


def spline_ill_conditioned(centre, shift, length, T):
    """The three knots of the warp live on an axis scaled to [-1, 1] by the PADDED length T.  True when the
    destination is closer than 1e-3 of that half-range to a pinned knot (2*gap/T < 2e-3): the regime in
    which a single-precision solve of the spline system loses the ends (classifier only)."""
    return 2.0 * knot_gap(centre, shift, length) / float(T) < 2e-3
