"""Reference models for C18 in plain Python: pooled statistics, delta regression, returns.

Tensors are represented as ``{index tuple: value}`` dictionaries together with a shape
tuple, frames as lists of lists.  Nothing here imports torch or the library.
"""

import itertools
import math
from fractions import Fraction


# ---------------------------------------------------------------------------- tensors
def indices(shape):
    """Every index tuple of a tensor of the given shape, row-major."""
    return itertools.product(*(range(s) for s in shape))


def nested_get(nested, idx):
    for i in idx:
        nested = nested[i]
    return nested


def to_dict(nested, shape):
    return {idx: nested_get(nested, idx) for idx in indices(shape)}


# --------------------------------------------------------------- mean / std (pooled)
def pooled_stats(frames, bessel):
    """Population mean and (biased | Bessel-corrected) standard deviation per coefficient of a
    list of frames (each a list of coefficients).  Exact rational arithmetic up to the final
    square root.  Returns (mean, std, var_is_zero) lists."""
    n = len(frames)
    F = len(frames[0])
    mean, std, zero = [], [], []
    for f in range(F):
        col = [Fraction(fr[f]) for fr in frames]
        m = sum(col) / n
        var = sum((c - m) ** 2 for c in col) / n
        if bessel:
            var = var * n / (n - 1)
        mean.append(float(m))
        std.append(math.sqrt(float(var)))
        zero.append(var == 0)
    return mean, std, zero


def normalise(frames, mean, std, eps):
    """y[i][f] = (x[i][f] - mean[f]) / max(std[f], eps)"""
    return [
        [(fr[f] - mean[f]) / max(std[f], eps) for f in range(len(fr))] for fr in frames
    ]


def moments(frames, bessel):
    """float mean and variance per coefficient of (normalised) frames."""
    n = len(frames)
    F = len(frames[0])
    out = []
    for f in range(F):
        col = [fr[f] for fr in frames]
        m = math.fsum(col) / n
        ss = math.fsum((c - m) ** 2 for c in col)
        if bessel:
            v = ss / (n - 1) if n > 1 else float("nan")
        else:
            v = ss / n
        out.append((m, v))
    return out


# ------------------------------------------------------------------------- partitions
def set_partitions(items):
    """Every partition of the list into non-empty blocks; blocks keep the item order and are
    listed by their smallest member (canonical form, no duplicates)."""
    items = list(items)
    if not items:
        yield []
        return
    first, rest = items[0], items[1:]
    for part in set_partitions(rest):
        # first joins an existing block ...
        for i in range(len(part)):
            yield [[first] + part[i]] + part[:i] + part[i + 1 :]
        # ... or forms its own
        yield [[first]] + part


def histories(items):
    """Every set partition x every order of its blocks (ordered set partitions)."""
    for part in set_partitions(items):
        part = sorted(part)
        for perm in itertools.permutations(part):
            yield [list(b) for b in perm]


# ------------------------------------------------------------------------------ deltas
def pad_source(j, T, mode):
    """Index into the unpadded sequence that position j (may be <0 or >=T) of the padded
    sequence copies, or None for a constant fill.  Caller guarantees admissibility."""
    if 0 <= j < T:
        return j
    if mode == "constant":
        return None
    if mode == "replicate":
        return 0 if j < 0 else T - 1
    if mode == "reflect":  # mirror without repeating the edge sample
        if j < 0:
            return -j
        return 2 * (T - 1) - j
    if mode == "circular":
        return j % T
    raise ValueError(mode)


def pad_admitted(T, pad, mode):
    """Whether an edge padding of `pad` samples per side exists for a length-T sequence."""
    if pad == 0:
        return True
    if mode == "reflect":
        return pad < T
    if mode == "circular":
        return pad <= T
    return True


def deltas_1d(seq, order, width, mode, value):
    """[delta_0, ..., delta_order], each of length T: the sequence is extended once by
    order*width samples per side, then x[t,u] = sum_w w * x[t+w,u-1] / sum_w w^2 is applied
    recursively on the extended sequence (each application consumes `width` samples per side)."""
    T = len(seq)
    P = order * width
    ext = []
    for i in range(T + 2 * P):
        src = pad_source(i - P, T, mode)
        ext.append(value if src is None else seq[src])
    denom = sum(w * w for w in range(-width, width + 1))
    out = [list(seq)]
    cur = ext
    for u in range(1, order + 1):
        cur = [
            sum(w * cur[i + w] for w in range(-width, width + 1)) / denom
            for i in range(width, len(cur) - width)
        ]
        off = P - u * width  # cur[k] sits at extended position k + u*width
        out.append(cur[off : off + T])
    return out


def deltas(x, shape, dim, time_dim, concatenate, order, width, mode, value):
    """x: {idx: value}.  Returns ({idx: value}, out_shape)."""
    D = len(shape)
    td = time_dim % D
    T = shape[td]
    if concatenate:
        d = dim % D
        out_shape = tuple(s * (order + 1) if i == d else s for i, s in enumerate(shape))
    else:
        d = dim % (D + 1)
        out_shape = tuple(shape[:d]) + (order + 1,) + tuple(shape[d:])
    out = {}
    rest_shape = [s for i, s in enumerate(shape) if i != td]
    for rest in indices(rest_shape):
        def full(t):
            return tuple(rest[:td]) + (t,) + tuple(rest[td:])

        seq = [x[full(t)] for t in range(T)]
        ds = deltas_1d(seq, order, width, mode, value)
        for u in range(order + 1):
            for t in range(T):
                idx = full(t)
                if concatenate:
                    oidx = idx[:d] + (idx[d] + u * shape[d],) + idx[d + 1 :]
                else:
                    oidx = idx[:d] + (u,) + idx[d:]
                out[oidx] = ds[u][t]
    return out, out_shape


# ----------------------------------------------------------------------------- returns
def returns(rewards, gamma):
    """R_t = r_t + gamma * R_{t+1}, R_T = 0, for one reward sequence."""
    R = [0.0] * len(rewards)
    nxt = 0.0
    for t in range(len(rewards) - 1, -1, -1):
        nxt = rewards[t] + gamma * nxt
        R[t] = nxt
    return R
