"""Reference model for C06: Katz back-off evaluated directly on the n-gram dictionaries,
and a plain ARPA writer / expected-parse model.

Table format (the library's ``prob_dicts``): a list of dicts, entry ``i`` holds the
``(i+1)``-grams.  Unigram keys are plain ids, higher orders are tuples of ids with the
latest token last.  Every order but the highest maps to ``(logp, logb)``; the highest
order maps to ``logp``.
"""

import math

NEG_INF = float("-inf")
LN10 = math.log(10.0)


def _key(tokens):
    return tokens[0] if len(tokens) == 1 else tuple(tokens)


def listed_logp(dicts, tokens):
    """The listed log-probability of the n-gram ``tokens`` or None when it is not listed."""
    n = len(tokens)
    val = dicts[n - 1].get(_key(tokens))
    if val is None:
        return None
    if n < len(dicts):
        return val[0]
    return val


def backoff(dicts, context):
    """Back-off weight of ``context`` (a non-empty tuple); zero when the context is not listed."""
    val = dicts[len(context) - 1].get(_key(context))
    if val is None:
        return 0.0
    return val[1]  # a context is never of the highest order


def katz(dicts, context, v):
    """log P(v | context); ``context`` oldest token first, ``len(context) <= len(dicts) - 1``."""
    context = tuple(context)
    p = listed_logp(dicts, context + (v,))
    if p is not None and p != NEG_INF and p == p and p != float("inf"):
        return p
    if not context:
        return NEG_INF  # nothing left to back off to: probability zero
    return backoff(dicts, context) + katz(dicts, context[1:], v)


def padded_context(history, order, sos):
    """The last ``order - 1`` tokens of the history left-padded with ``sos``."""
    if order <= 1:
        return ()
    h = (sos,) * (order - 1) + tuple(history)
    return h[len(h) - (order - 1):]


def next_logps(dicts, vocab_size, sos, history):
    c = padded_context(history, len(dicts), sos)
    return [katz(dicts, c, v) for v in range(vocab_size)]


# ---------------------------------------------------------------------------------------
# ARPA
def _num(x, style):
    if x == NEG_INF:
        x = -99.0  # customary ARPA stand-in for log 0; the listed entry is then -99
    if style == 0:
        return "%.4f" % x
    # exponent notation, mantissa scaled by ten so the exponent is negative
    return ("%.3fE-1" if style == 1 else "%.3fe-01") % (x * 10.0)


def arpa_value(x):
    """The base-10 number the text written by ``_num`` denotes."""
    return -99.0 if x == NEG_INF else float(x)


def to_arpa(dicts, name, variant):
    """Serialise a table.  ``name(id) -> token string``.

    variant 0: every back-off explicit, single spaces, fixed-point numbers.
    variant 1: zero back-offs left implicit, tabs / several blanks, exponent notation,
               a free-text preamble before ``\\data\\``, blank lines, ``ngram N = count``.
    """
    N = len(dicts)
    lines = []
    if variant == 1:
        lines += ["This text precedes the header and must be skipped.", ""]
    lines.append("\\data\\")
    for n, d in enumerate(dicts, 1):
        lines.append(("ngram %d=%d" if variant == 0 else "ngram  %d = %d") % (n, len(d)))
    lines.append("")
    for n, d in enumerate(dicts, 1):
        lines.append("\\%d-grams:" % n)
        for j, (key, val) in enumerate(d.items()):
            toks = [key] if n == 1 else list(key)
            words = [name(t) for t in toks]
            if n < N:
                p, b = val
            else:
                p, b = val, None
            if variant == 0:
                line = " ".join([_num(p, 0)] + words + ([_num(b, 0)] if b is not None else []))
            else:
                sep = "\t" if j % 2 == 0 else "  "
                line = _num(p, 1 + j % 2) + sep + " ".join(words)
                if b is not None and b != 0.0:
                    line += sep + " " + _num(b, j % 2)
                line = " " + line + " "
            lines.append(line)
        lines.append("")
        if variant == 1:
            lines.append("")
    lines.append("\\end\\")
    return "\n".join(lines) + "\n"


def expected_parse(dicts, tok, to_base_e):
    """What reading the text must return.  ``tok(id) -> key element`` (string or id)."""
    N = len(dicts)
    scale = LN10 if to_base_e else 1.0
    out = []
    for n, d in enumerate(dicts, 1):
        e = {}
        for key, val in d.items():
            k = tok(key) if n == 1 else tuple(tok(t) for t in key)
            if n < N:
                e[k] = (arpa_value(val[0]) * scale, arpa_value(val[1]) * scale)
            else:
                e[k] = arpa_value(val) * scale
        out.append(e)
    return out
