"""E4 - file-system crash shim.

Inside ``with CrashFS(root, kill_before=k) as fs:`` every *mutating* file-system call whose path
lies under ``root`` is an event (numbered from 0).  The shim is installed on the ``os`` /
``builtins`` / ``tempfile`` modules themselves and filtered by path prefix, so it does not depend
on how the code under test spells its calls.  When event ``k`` is about to happen the shim raises
``Crash`` (a BaseException) and enters *dead mode*: every later mutating call is discarded, so
``finally`` blocks, ``with`` exits and buffered flushes that run while the exception unwinds cannot
touch the disk - exactly as after SIGKILL.

Event granularity ("before or after any individual file write, rename, history append or deletion"):
  * makedirs/mkdir that creates something ............. 1 event
  * open(path, "a"/"w"/"x") creating or truncating ...... 1 event at open time (file appears / is emptied)
  * the data written through such a handle ............ 1 event per flush()/close() that has pending data
    (Python buffers text writes; they reach the disk at flush/close as one append - torn writes are outside
    the crash model of C16)
  * tempfile.NamedTemporaryFile creation .............. 1 event; its content ... 1 event at close
  * os.replace / os.rename / os.remove / os.unlink / os.rmdir / os.link / os.symlink ... 1 event each
"""

import builtins
import io
import os
import tempfile


class Crash(BaseException):
    pass


_WRITE_FLAGS = set("wax+")


class _Handle:
    """Write handle whose data reaches the real file only at flush/close, as one event."""

    def __init__(self, fs, path, mode, real_open, kw):
        self.fs, self.name, self.mode = fs, path, mode
        self._binary = "b" in mode
        self._buf = []
        self._closed = False
        self._real_open = real_open
        self._kw = kw

    def write(self, data):
        if self._closed:
            raise ValueError("I/O operation on closed file")
        n = len(data)
        # torch's zip writer hands in views of a buffer it reuses: copy now
        self._buf.append(bytes(data) if self._binary else str(data))
        return n

    def writelines(self, lines):
        for ln in lines:
            self.write(ln)

    def _commit(self):
        if not self._buf:
            return
        data = (b"" if self._binary else "").join(self._buf)
        self._buf = []
        if not self.fs._event("write", self.name, len(data)):
            return
        kw = dict(self._kw)
        with self._real_open(self.name, "ab" if self._binary else "a", **kw) as f:
            f.write(data)

    def flush(self):
        self._commit()

    def close(self):
        if self._closed:
            return
        try:
            self._commit()
        finally:
            self._closed = True

    @property
    def closed(self):
        return self._closed

    def fileno(self):
        raise io.UnsupportedOperation("fileno")

    def writable(self):
        return True

    def readable(self):
        return False

    def seekable(self):
        return False

    def tell(self):
        raise io.UnsupportedOperation("tell")

    def __enter__(self):
        return self

    def __exit__(self, *exc):
        self.close()
        return False

    def __del__(self):
        # an abandoned handle (crashed process) never reaches the disk
        self._buf = []


class CrashFS:
    def __init__(self, root, kill_before=None):
        self.root = os.path.realpath(root) + os.sep
        self.kill_before = kill_before
        self.events = []  # (kind, relative path, extra)
        self.dead = False
        self.crashed_at = None

    # ---- bookkeeping ---------------------------------------------------------------
    def _mine(self, path):
        try:
            p = os.path.realpath(os.fspath(path))
        except TypeError:
            return False
        return (p + os.sep).startswith(self.root) or p.startswith(self.root)

    def _event(self, kind, path, extra=None):
        """Returns True if the mutation may proceed, False in dead mode; raises Crash at the kill point."""
        if self.dead:
            return False
        k = len(self.events)
        if self.kill_before is not None and k == self.kill_before:
            self.dead = True
            self.crashed_at = (kind, os.path.relpath(os.fspath(path), self.root), extra)
            raise Crash(f"killed before event {k}: {self.crashed_at}")
        self.events.append((kind, os.path.relpath(os.fspath(path), self.root), extra))
        return True

    # ---- patched entry points -----------------------------------------------------------
    def _open(self, file, mode="r", *a, **kw):
        if isinstance(file, int) or not (set(mode) & _WRITE_FLAGS) or not self._mine(file):
            return self._r_open(file, mode, *a, **kw)
        path = os.fspath(file)
        if a:
            raise NotImplementedError("positional buffering argument")
        kw = {k: v for k, v in kw.items() if k in ("encoding", "errors", "newline")}
        exists = os.path.exists(path)
        if "x" in mode and exists:
            raise FileExistsError(path)
        if "+" in mode or "r" in mode:
            raise NotImplementedError(f"crashfs: mode {mode!r}")
        if "w" in mode or not exists:
            if self._event("create" if not exists else "truncate", path):
                with self._r_open(path, "wb"):
                    pass
        return _Handle(self, path, mode, self._r_open, kw)

    def _named_tmp(self, mode="w+b", buffering=-1, encoding=None, newline=None, suffix=None,
                   prefix=None, dir=None, delete=True, **kw):
        if dir is None or not self._mine(dir):
            return self._r_ntf(mode, buffering, encoding, newline, suffix, prefix, dir, delete, **kw)
        # deterministic temp names keep directory listings comparable across runs
        n = 0
        while True:
            path = os.path.join(dir, f"{prefix or 'tmp'}crashfs{n}{suffix or ''}")
            if not os.path.exists(path):
                break
            n += 1
        if self._event("create-temp", path):
            with self._r_open(path, "wb"):
                pass
        kw2 = {}
        if "b" not in mode:
            kw2 = {"encoding": encoding, "newline": newline}
        h = _Handle(self, path, "wb" if "b" in mode else "w", self._r_open, kw2)
        if delete:
            raise NotImplementedError("crashfs: NamedTemporaryFile(delete=True) under the root")
        return h

    def _wrap2(self, name, real):
        def f(src, dst, *a, **kw):
            if self._mine(src) or self._mine(dst):
                if not self._event(name, dst, os.path.relpath(os.fspath(src), self.root)):
                    return None
            return real(src, dst, *a, **kw)

        return f

    def _wrap1(self, name, real):
        def f(path, *a, **kw):
            if self._mine(path):
                if not self._event(name, path):
                    return None
            return real(path, *a, **kw)

        return f

    def _makedirs(self, name, mode=0o777, exist_ok=False):
        if self._mine(name) and not os.path.isdir(name):
            if not self._event("makedirs", name):
                return None
        self._in_makedirs = True  # os.makedirs calls (the patched) os.mkdir itself
        try:
            return self._r["makedirs"](name, mode, exist_ok)
        finally:
            self._in_makedirs = False

    def _mkdir(self, path, *a, **kw):
        if self._mine(path) and not getattr(self, "_in_makedirs", False):
            if not self._event("mkdir", path):
                return None
        return self._r["mkdir"](path, *a, **kw)

    def __enter__(self):
        self._r_open = builtins.open
        self._r_io_open = io.open
        self._r_ntf = tempfile.NamedTemporaryFile
        self._r = {k: getattr(os, k) for k in
                   ("replace", "rename", "remove", "unlink", "rmdir", "link", "symlink", "makedirs", "mkdir")}
        builtins.open = self._open
        io.open = self._open
        tempfile.NamedTemporaryFile = self._named_tmp
        for k in ("replace", "rename", "link", "symlink"):
            setattr(os, k, self._wrap2(k, self._r[k]))
        for k in ("remove", "unlink", "rmdir"):
            setattr(os, k, self._wrap1(k, self._r[k]))
        os.makedirs = self._makedirs
        os.mkdir = self._mkdir
        return self

    def __exit__(self, *exc):
        builtins.open = self._r_open
        io.open = self._r_io_open
        tempfile.NamedTemporaryFile = self._r_ntf
        for k, v in self._r.items():
            setattr(os, k, v)
        return False
