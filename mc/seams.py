"""Ownership of nondeterminism: scripted RNG, virtual worker pool, simulated process group.

Everything is patched from outside (attributes of ``torch`` / ``torch.distributed`` /
``torch.multiprocessing``), never inside /repo.
"""

import contextlib
import itertools

import torch

ONE_M = 1.0 - 2.0 ** -24  # largest float32 below 1
MENU_FULL = (0.0, 2.0 ** -24, 1e-6, 0.25, 0.5, 0.75, ONE_M)
MENU_QUICK = (0.0, 0.25, 0.75, ONE_M)

_real = {
    "rand": torch.rand,
    "rand_like": torch.rand_like,
    "multinomial": torch.multinomial,
    "bernoulli": torch.bernoulli,
}


class ScriptedRandom(contextlib.AbstractContextManager):
    """Answers torch.rand / rand_like / multinomial / bernoulli from a chooser.

    ``uniform``: either a menu (tuple of floats; one choice point per *element*), or a callable
    ``(shape, dtype, device, label, chooser) -> tensor`` for custom scripting.
    The log of every call is kept in ``self.calls`` (kind, shape, answer).
    """

    def __init__(self, chooser, uniform=MENU_QUICK):
        self.ch = chooser
        self.uniform = uniform
        self.calls = []

    # ---- uniform -------------------------------------------------------------------
    def _uniform(self, shape, dtype, device, label):
        shape = tuple(int(s) for s in shape)
        dtype = dtype or torch.get_default_dtype()
        if callable(self.uniform):
            out = self.uniform(shape, dtype, device, label, self.ch)
        else:
            n = 1
            for s in shape:
                n *= s
            vals = [self.uniform[self.ch.choose(len(self.uniform), f"{label}[{i}]")] for i in range(n)]
            out = torch.tensor(vals, dtype=torch.float64).to(dtype).view(shape)
        self.calls.append(("uniform", shape, out.tolist()))
        return out.to(device) if device is not None else out

    def rand(self, *size, generator=None, out=None, dtype=None, layout=None, device=None,
             requires_grad=False, pin_memory=False, names=None):
        if len(size) == 1 and isinstance(size[0], (tuple, list, torch.Size)):
            size = tuple(size[0])
        return self._uniform(size, dtype, device, f"rand#{len(self.calls)}")

    def rand_like(self, input, dtype=None, layout=None, device=None, requires_grad=False,
                  memory_format=None):
        return self._uniform(input.shape, dtype or input.dtype, device or input.device,
                             f"rand_like#{len(self.calls)}")

    # ---- categorical -------------------------------------------------------------------
    def multinomial(self, input, num_samples, replacement=False, *, generator=None, out=None):
        if num_samples != 1 and not replacement:
            raise NotImplementedError("scripted multinomial without replacement")
        p = input.detach().double()
        squeeze = p.dim() == 1
        if squeeze:
            p = p.unsqueeze(0)
        p = p / p.sum(-1, keepdim=True)
        rows = []
        for r in range(p.size(0)):
            support = [i for i in range(p.size(1)) if p[r, i].item() > 0.0]
            probs = [p[r, i].item() for i in support]
            row = []
            for s in range(num_samples):
                c = self.ch.choose(len(support), f"multinomial#{len(self.calls)}[{r},{s}]", probs)
                row.append(support[c])
            rows.append(row)
        res = torch.tensor(rows, dtype=torch.long, device=input.device).clone()
        self.calls.append(("multinomial", tuple(input.shape), res.tolist()))
        return res[0].clone() if squeeze else res

    # ---- bernoulli -----------------------------------------------------------------------
    def bernoulli(self, input, p=None, *, generator=None, out=None):
        if p is not None:
            probs = torch.full_like(input, float(p), dtype=torch.float64)
        else:
            probs = input.detach().double()
        flat = probs.reshape(-1).tolist()
        vals = []
        for i, q in enumerate(flat):
            if q <= 0.0:
                vals.append(0.0)
            elif q >= 1.0:
                vals.append(1.0)
            else:
                c = self.ch.choose(2, f"bernoulli#{len(self.calls)}[{i}]", [1.0 - q, q])
                vals.append(float(c))
        res = torch.tensor(vals, dtype=input.dtype, device=input.device).view(input.shape).clone()  # a fresh tensor, not a view, like the real op
        self.calls.append(("bernoulli", tuple(input.shape), res.tolist()))
        return res

    def __enter__(self):
        torch.rand = self.rand
        torch.rand_like = self.rand_like
        torch.multinomial = self.multinomial
        torch.bernoulli = self.bernoulli
        return self

    def __exit__(self, *exc):
        for k, v in _real.items():
            setattr(torch, k, v)
        return False


# ---------------------------------------------------------------------------------------
class _VirtualPool:
    """In-process stand-in for multiprocessing.Pool.  ``imap_unordered`` yields chunk results in
    an order picked by the chooser (every completion order of the chunks is a schedule);
    ``imap``/``map`` are ordered, as in the real pool.  Work is executed in completion order, so
    side effects (files written by workers) happen in that order too."""

    def __init__(self, chooser, processes=None, *a, **kw):
        self.ch = chooser
        self.processes = processes
        self.log = []

    def __enter__(self):
        return self

    def __exit__(self, *exc):
        return False

    def close(self):
        pass

    def join(self):
        pass

    def terminate(self):
        pass

    @staticmethod
    def _chunks(iterable, chunksize):
        it = list(iterable)
        cs = max(1, int(chunksize or 1))
        return [it[i: i + cs] for i in range(0, len(it), cs)]

    def imap_unordered(self, func, iterable, chunksize=1):
        chunks = self._chunks(iterable, chunksize)
        pending = list(range(len(chunks)))
        order = []
        while pending:
            c = self.ch.choose(len(pending), f"pool-complete[{len(order)}]")
            k = pending.pop(c)
            order.append(k)
            for item in chunks[k]:
                yield func(item)
        self.log.append(order)

    def imap(self, func, iterable, chunksize=1):
        for item in list(iterable):
            yield func(item)

    def map(self, func, iterable, chunksize=None):
        return [func(x) for x in list(iterable)]

    def starmap(self, func, iterable, chunksize=None):
        return [func(*x) for x in list(iterable)]


class VirtualPools(contextlib.AbstractContextManager):
    """Patches torch.multiprocessing.Pool, multiprocessing.Pool and get_context(...).Pool."""

    def __init__(self, chooser):
        self.ch = chooser
        self.pools = []

    def _make(self, *a, **kw):
        p = _VirtualPool(self.ch, *a, **kw)
        self.pools.append(p)
        return p

    def __enter__(self):
        import multiprocessing as mp
        import torch.multiprocessing as tmp

        self._saved = [(tmp, "Pool", getattr(tmp, "Pool", None)), (mp, "Pool", mp.Pool),
                       (tmp, "get_context", tmp.get_context), (mp, "get_context", mp.get_context)]
        outer = self

        class _Ctx:
            def __init__(self, real):
                self._real = real

            def Pool(self, *a, **kw):
                return outer._make(*a, **kw)

            def __getattr__(self, k):
                return getattr(self._real, k)

        real_get = mp.get_context
        tmp.Pool = self._make
        mp.Pool = self._make
        tmp.get_context = lambda *a, **kw: _Ctx(real_get(*a, **kw))
        mp.get_context = lambda *a, **kw: _Ctx(real_get(*a, **kw))
        return self

    def __exit__(self, *exc):
        for mod, name, val in self._saved:
            setattr(mod, name, val)
        return False


# ---------------------------------------------------------------------------------------
class SimulatedGroup(contextlib.AbstractContextManager):
    """Makes torch.distributed report an initialised group of ``world`` processes, this being
    ``rank``.  Only the four query functions the samplers use are simulated."""

    def __init__(self, world, rank):
        self.world, self.rank = world, rank

    def __enter__(self):
        import torch.distributed as d

        self._saved = {k: getattr(d, k) for k in ("is_available", "is_initialized", "get_rank", "get_world_size")}
        d.is_available = lambda: True
        d.is_initialized = lambda: True
        d.get_rank = lambda group=None: self.rank
        d.get_world_size = lambda group=None: self.world
        return self

    def __exit__(self, *exc):
        import torch.distributed as d

        for k, v in self._saved.items():
            setattr(d, k, v)
        return False


def permutations_upto(n):
    return list(itertools.permutations(range(n)))


# ---------------------------------------------------------------------------------------
LISTING_POLICIES = ("sorted", "reversed", "rotate-left", "rotate-right", "swap-first-two", "swap-last-two")


def _apply_listing_policy(names, policy):
    s = sorted(names)
    n = len(s)
    if n < 2 or policy == "sorted":
        return s
    if policy == "reversed":
        return s[::-1]
    if policy == "rotate-left":
        return s[1:] + s[:1]
    if policy == "rotate-right":
        return s[-1:] + s[:-1]
    if policy == "swap-first-two":
        return [s[1], s[0]] + s[2:]
    if policy == "swap-last-two":
        return s[:-2] + [s[-1], s[-2]]
    raise ValueError(policy)


class ListingPolicy(contextlib.AbstractContextManager):
    """The order in which the operating system lists a directory is an environment answer.  Within the
    context, ``os.listdir`` / ``os.scandir`` (and so ``os.walk``, ``glob``, ``pathlib.iterdir``) return the
    entries of every directory below ``root`` in the order fixed by ``policy`` (a rule applied to the sorted
    names, the same for every call - an unchanged directory is listed the same way twice).  The six policies
    produce EVERY permutation of a directory with <= 3 entries and six distinct orders of larger ones.
    Paths outside ``root`` are untouched."""

    def __init__(self, policy, root="/dev/shm/verif-"):
        assert policy in LISTING_POLICIES
        self.policy, self.root = policy, root
        self.calls = 0

    def _mine(self, path):
        import os

        try:
            p = os.path.abspath(os.fspath(path if path is not None else "."))
        except TypeError:
            return False
        if isinstance(p, bytes):
            return False
        return p.startswith(self.root)

    def __enter__(self):
        import os

        self._saved = (os.listdir, os.scandir)
        real_listdir, real_scandir = self._saved
        outer = self

        def listdir(path="."):
            names = real_listdir(path)
            if not outer._mine(path):
                return names
            outer.calls += 1
            return _apply_listing_policy(names, outer.policy)

        class _Scan:
            def __init__(self, path):
                with real_scandir(path) as it:
                    ents = {e.name: e for e in it}
                outer.calls += 1
                self._ents = [ents[k] for k in _apply_listing_policy(list(ents), outer.policy)]
                self._i = 0

            def __iter__(self):
                return self

            def __next__(self):
                if self._i >= len(self._ents):
                    raise StopIteration
                self._i += 1
                return self._ents[self._i - 1]

            def __enter__(self):
                return self

            def __exit__(self, *exc):
                return False

            def close(self):
                pass

        def scandir(path="."):
            if not outer._mine(path):
                return real_scandir(path)
            return _Scan(path)

        os.listdir, os.scandir = listdir, scandir
        return self

    def __exit__(self, *exc):
        import os

        os.listdir, os.scandir = self._saved
        return False
