"""Validate an evidence (or manifest) file against its schema; run with python3-vt."""
import json
import os
import sys

import jsonschema

here = os.path.dirname(os.path.dirname(os.path.abspath(__file__)))
path = sys.argv[1]
schema = "MANIFEST.schema.json" if os.path.basename(path) == "MANIFEST.json" else "EVIDENCE.schema.json"
with open(os.path.join(here, "schemas", schema)) as f:
    sch = json.load(f)
with open(path) as f:
    doc = json.load(f)
try:
    jsonschema.Draft202012Validator(sch).validate(doc)
except jsonschema.ValidationError as e:
    print("INVALID:", e.message)
    sys.exit(1)
print("valid")
