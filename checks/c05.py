"""C05 - CTC prefix search reports true prefix mass, never more, never NaN (model_checking).

Every search is one trajectory of prune/merge steps of the real implementation. Each trajectory is
compared with two plain-Python reference models (mc/oracles/decoding_ctc.py): Oracle A (exact sum
over all alignments) and Oracle B (standard prefix-beam recursion pruned to the same width).
"""

import itertools
import math
import random

import torch

from pydrobert.torch.modules import CTCPrefixSearch
from pydrobert.torch.functional import ctc_prefix_search_advance

from mc.runner import Ctx
from mc.oracles import decoding_ctc as O
from mc.oracles import katz as KZ
from mc import guards
from checks._c05_lm import TableLM, RecurrentLM

PROP = "C05"
LEVEL = "model_checking"
RULE = (
    "searches: V in {1,2} labels + blank (thorough: also V=3 for N<=2), tensor length T in 0..3 (quick) / "
    "0..4 (thorough; 0..5 for N<=2, V<=2), batch N in {1,2,3} with ALL lens vectors in {0..T}^N (and "
    "lens=None when all lens == T; and NaN in the frames past the lengths for the first rotation), widths {1,2,3,P+5,50} (P = number of label sequences reachable in T frames), "
    "score matrices per element from a pool of seed-valued matrices (VERIF_SEED only picks the "
    "numbers) and structured ones (a label impossible via -inf at all/some frames, blank "
    "impossible at frame 0 / everywhere, peaky frames cycling over the symbols, peaky repeated "
    "label, all-equal scores = exact ties), every element of a batch using a different pool matrix "
    "(all pool matrices for N=1; for N>=2 two rotations of the pool (quick) / all rotations for N=2, every "
    "other for N=3, two at T=5 (thorough)), fusion in "
    "{none, plain x beta {0,.3,1}, valid_mixture x beta {0,.3,1}} with a stateful table LM whose "
    "scores depend on the threaded state and a per-element initial state, dtype in {float32, "
    "float64}. Every (matrix, valid length, width, fusion, dtype) is also searched alone and "
    "compared with Oracle A (upper bound always; equality and completeness when no frame had more "
    "live prefixes than the width) and prefix-by-prefix with Oracle B unless Oracle B saw a near-tie "
    "at a pruning decision; every batch element is compared with its solo search. "
    "ctc_prefix_search_advance is driven directly for 3 (quick) / 5 (thorough) consecutive steps on width schedules that "
    "exceed the legitimate candidates at the first, at a later, or at every step, with plain and "
    "prefix-dependent extension scores. Object reuse: 13 histories on ONE CTCPrefixSearch object (with "
    "the table LM), with and without a call before the first reassignment, x every pool rotation, "
    "T=3 (thorough: also 4): construct, call, reassign public attributes (beta among {0,.3,1}, "
    "valid_mixture, width among {1,2,3,P+5,50}, lm <-> None, singly and combined, there and back) or "
    "only change the input (N=2 with mixed lens / N=1 / N=2 swapped with lens=None / N=1 shorter "
    "with the initial state omitted), call again; every call must equal bit-for-bit the result of a "
    "FRESH object carrying the current settings and every element must equal its solo search under "
    "those settings (held to both oracles); a step that reassigns width / beta / valid_mixture (all "
    "__constants__ of the module) is executed and only COUNTED (constants_reassigned_honoured/_ignored), "
    "the history then continues on a newly constructed object; lm <-> None and input changes stay "
    "verdicts. LM flavours (V=2, T=3 (thorough 3,4), N=1 every pool matrix x every length, N=2 all lens "
    "vectors for 2 (thorough 6) rotations, widths {1,2,3,P+5}, plain beta {.3,1} and valid_mixture .3): "
    "LookupLanguageModel of order 2 (sos outside) and 3 (sos=0), a recurrent LM with per-element "
    "initial hidden state, MixableShallowFusionLanguageModel(first, second, beta_c in {0,.3}) over "
    "members lookup/recurrent/table in both positions, and an Extractable-only composite with search "
    "beta 0 - all against Oracle A/B with next-label scores obtained by stepping every member by hand "
    "(Katz back-off on the n-gram dictionaries, the recurrence in plain Python, the table row) and "
    "combining first + beta_c*second. Lifecycle of the whole search object (5 LM flavours incl. "
    "order-2/3 lookup and composites, plain .3 / mixture 1, widths {3,P+5}, 4 inputs each): deepcopy, "
    "pickle, torch.save, used+deepcopy, eval+deepcopy, state_dict, state_dict-after-use, double-float, "
    "the parent-level search.load_state_dict into a search whose LM has the same shape but other "
    "numbers / a bushier or smaller n-gram table / a fresh uniform LM / other recurrent weights "
    "(a refused load is counted, lifecycle_load_refused), and lm.load_state_dict into a uniform LM: "
    "every variant must return bit-for-bit what a fresh search returns. Larger instances (Oracle B of the same width + structural "
    "invariants + batch == solo; Oracle A cannot enumerate them): V+1 in {32,16,7}, T in {16,20,24}, N=2 "
    "with lens [T,T-3] plus both elements alone, widths {2,8}, no fusion / plain fusion beta .3 with the "
    "table LM, 3 (thorough 8) seed-valued matrix pairs with a +4 peak per frame on labels that never "
    "repeat back to back (hypotheses of 14..22 tokens), float32 and float64. Variants of one call that "
    "must give the plain call's outcome (V in {1,2}, T=3, N=2, lens [3,1],[2,3],[3,3],[0,2], widths "
    "{2,P+5}, none / plain .3 / mixture 1, every pool rotation): lens as int32, non-contiguous logits, "
    "lens as a stride-0 view, logits requiring grad (no no_grad), torch.inference_mode, default dtype "
    "float64. Distinct by construction; non-trivial = at least one element "
    "has a valid frame. states = distinct (V, frame, beam contents) reached; transitions = frames "
    "advanced by the implementation; traces = solo searches / advance runs matched prefix-by-prefix "
    "against Oracle B. EXACT ZEROS AND ONES (round 6): V=2, every sequence of 3 (thorough 4) frames each certain of one "
    "label (posterior exactly one-hot through +-1000 logits; a quarter also through -inf logits; a fifth 'certainly "
    "not label a'), every length 0..3, widths {1,2,9}, alone and batched next to another such element under all "
    "lens patterns, x {no LM, plain .3, plain 1, mixture .3} x a lexicon LM with hard zeros (after a token only the "
    "same / only the other token is possible): whole beams of zero mass occur; both oracles as before, never NaN. "
    "Variants of one call are now the same outcome up to rounding (masses to 1e-5 relative, exact ties and ties at "
    "the pruning boundary may be reordered), and 'decreasing probability' tolerates a one-ulp inversion of an exact tie."
)
ASSUMPTIONS = [
    "small scope: T<=3 (quick) / 4 (5 for N<=2) (thorough), V<=2 (3 in thorough), N<=3, logits in [-2,2] (+8 on "
    "peaky frames) or -inf",
    "mass comparison tolerance abs 2e-6 + rel 2e-5 (float32), abs 1e-12 + rel 1e-9 (float64)",
    "a pruning decision is a near-tie when the last kept and first dropped candidate differ by "
    "<= 1e-6 + 1e-4*max (float32) / 1e-10 + 1e-8*max (float64); such runs are only held to the "
    "Oracle-A upper bound and the structural invariants and are counted (near_tie_downgraded)",
    "frames past an element's length hold the rest of its pool matrix (finite or -inf scores); for the first "
    "rotation (thorough: every fourth) every batch with a short element is repeated with NaN in those frames",
    "Oracle B keeps only positive-mass candidates (zero-mass prefixes are inert in the recursion)",
    "the table LM used for fusion is trusted harness code; softmax of the reference is math.exp based",
    "TorchScript-compiled and CUDA variants are not explored",
    "larger instances: masses compared relatively (1e-4 float32 / 1e-9 float64), near-tie = relative gap <= "
    "5e-4 / 1e-7 at a pruning decision (float64 runs had none); the LM table is indexed by the state code "
    "modulo 4093; CTCPrefixSearch has no blank/eos argument (blank is always the last index), so there is no "
    "negative spelling to try; float64 logits are a full dtype dimension of the small-scope part",
    "LM flavours: the hand-stepped reference uses mc/oracles/katz.py for n-gram members (finite listed "
    "log-probabilities only); with an n-gram member the float32 tolerances apply whatever the logits' dtype "
    "(its buffers are float32); an Extractable-only composite is only legal with search beta 0",
    "object reuse covers the public attributes width, beta, valid_mixture, lm (CTCPrefixSearch has no other "
    "public setting); the blank index is fixed by the API; reassigned values are legal constructor values; "
    "equality with a fresh object is exact (same arithmetic on the same inputs, single thread)",
]
BUDGET_S = {"quick": 200, "thorough": 2400}

NEG_INF = float("-inf")
CFGS = [("none", 0.0), ("plain", 0.0), ("plain", 0.3), ("plain", 1.0),
        ("mixture", 0.0), ("mixture", 0.3), ("mixture", 1.0)]
DTYPES = {"float32": torch.float32, "float64": torch.float64}
TOL = {"float32": (2e-6, 2e-5), "float64": (1e-12, 1e-9)}
TOL_SOLO = {"float32": (1e-6, 1e-5), "float64": (1e-13, 1e-11)}
TIE = {"float32": (1e-6, 1e-4), "float64": (1e-10, 1e-8)}
TINY = 1e-30
ROWS = 5  # rows generated per pool matrix (>= largest T of any tier)
NBIAS = 3


def tmax(tier, N=3, V=2):
    """largest tensor length T enumerated for batches of N elements over V labels"""
    if tier != "thorough":
        return 3
    return 5 if (N <= 2 and V <= 2) else 4


def close(a, b, tol):
    return abs(a - b) <= tol[0] + tol[1] * max(abs(a), abs(b))


# ----------------------------------------------------------------------------------------------
# inputs
def pool_names(tier):
    nseed = 5 if tier == "thorough" else 3
    return [f"seed{i}" for i in range(nseed)] + [
        "label0-impossible", "last-label-impossible@1,2", "blank-impossible@0", "blank-impossible",
        "peaky-cycle", "peaky-repeat", "uniform",
    ]


def gen_matrix(name, V, seed):
    rng = random.Random(f"c05-{seed}-{V}-{name}")
    m = [[round(rng.uniform(-2, 2), 2) for _ in range(V + 1)] for _ in range(ROWS)]
    if name == "label0-impossible":
        for r in m:
            r[0] = NEG_INF
    elif name == "last-label-impossible@1,2":
        m[1][V - 1] = NEG_INF
        m[2][V - 1] = NEG_INF
    elif name == "blank-impossible@0":
        m[0][V] = NEG_INF
    elif name == "blank-impossible":
        for r in m:
            r[V] = NEG_INF
    elif name == "peaky-cycle":
        m = [[round(x / 4, 2) for x in r] for r in m]
        for t, r in enumerate(m):
            r[t % (V + 1)] += 8.0
    elif name == "peaky-repeat":
        m = [[round(x / 4, 2) for x in r] for r in m]
        for r in m:
            r[0] += 8.0
    elif name == "uniform":
        m = [[0.0] * (V + 1) for _ in range(ROWS)]
    return m


class Env:
    """Everything fixed within one shard: V, fusion configuration, dtype, the pool and the caches."""

    def __init__(self, V, cfg, dtype, seed, names):
        self.V, self.cfg, self.dtype_name, self.seed = V, (cfg[0], float(cfg[1])), dtype, seed
        self.dtype = DTYPES[dtype]
        self.names = list(names)
        self.mat_t = {n: torch.tensor(gen_matrix(n, V, seed), dtype=self.dtype) for n in self.names}
        self.mat_l = {n: t.tolist() for n, t in self.mat_t.items()}
        self.off = {n: i % NBIAS for i, n in enumerate(pool_names("thorough"))}
        self.tol, self.tol_solo, self.tie = TOL[dtype], TOL_SOLO[dtype], TIE[dtype]
        self.lm = None
        if cfg[0] != "none":
            rng = random.Random(f"c05-lm-{seed}-{V}")
            ncodes = (V + 1) ** ROWS
            table = torch.tensor([[round(rng.uniform(-2, 2), 2) for _ in range(V)] for _ in range(ncodes)],
                                 dtype=self.dtype)
            bias = torch.tensor([[0.0] * V] + [[round(rng.uniform(-1, 1), 2) for _ in range(V)]
                                               for _ in range(NBIAS - 1)], dtype=self.dtype)
            self.lm = TableLM(V, table, bias)
            self.table_l, self.bias_l = table.tolist(), bias.tolist()
        self.sig_extra = {}  # added to every signature / case of this environment (LM flavour)
        self.case_extra = {}
        self._lmp = {}
        self._search = {}
        self._solo = {}
        self._exact = {}
        self._probs = {}
        self._reach = {}

    # -- reference side ---------------------------------------------------------------------
    def lm_probs(self, prefix, off):
        k = (prefix, off)
        r = self._lmp.get(k)
        if r is None:
            row = self.table_l[O.encode(prefix, self.V) % len(self.table_l)]
            r = self._lmp[k] = O.softmax([a + b for a, b in zip(row, self.bias_l[off])])
        return r

    def probs(self, name, l):
        k = (name, l)
        if k not in self._probs:
            self._probs[k] = O.frame_probs(self.mat_l[name][:l])
        return self._probs[k]

    def ext(self, name, l):
        probs = self.probs(name, l)
        kind, beta = self.cfg
        off = self.off[name]
        fusion = None if kind == "none" else kind
        return O.make_ext(probs, self.V, fusion, beta, lambda prefix: self.lm_probs(prefix, off))

    def exact(self, name, l):
        k = (name, l)
        if k not in self._exact:
            probs, ext = self.probs(name, l), self.ext(name, l)
            self._exact[k] = (O.exact_masses(probs, self.V, ext), O.live_counts(probs, self.V, ext, TINY))
        return self._exact[k]

    def n_reachable(self, T):
        if T not in self._reach:
            self._reach[T] = len(O.reachable_prefixes(T, self.V))
        return self._reach[T]

    # -- implementation side ----------------------------------------------------------------
    def search(self, width):
        s = self._search.get(width)
        if s is None:
            kind, beta = self.cfg
            if kind == "none":
                s = CTCPrefixSearch(width)
            else:
                s = CTCPrefixSearch(width, beta, self.lm, valid_mixture=(kind == "mixture"))
            self._search[width] = s
        return s

    def call(self, width, logits, lens, names):
        args = [logits, lens]
        if self.lm is not None:
            args.append({"off": torch.tensor([self.off[n] for n in names], dtype=torch.long)})
        with torch.no_grad():
            return self.search(width)(*args)


def widths_for(env, T):
    ws = []
    for w in (1, 2, 3, env.n_reachable(T) + 5, 50):
        if w not in ws:
            ws.append(w)
    return ws


# ----------------------------------------------------------------------------------------------
# observation of one batch element + structural invariants
def make_view(y, y_lens, probs, n):
    return {"p": probs[n].tolist(), "L": y_lens[n].tolist(), "Y": y[:, n, :].t().tolist(), "S": y.size(0)}


def structure(ctx, sig0, case, view, V, own_len):
    """Invariants that need no oracle. Returns (pos, tail, ok): pos = dict prefix -> mass of the
    positive-mass slots, tail = sorted masses of the other slots; ok False if a NaN was present."""
    p, L, Y, S = view["p"], view["L"], view["Y"], view["S"]
    W = len(p)
    nan = [k for k in range(W) if p[k] != p[k]]
    pos, tail = {}, []
    problems = []
    for k in range(W):
        m = p[k]
        if m != m:
            continue
        if m > 0 and m != float("inf"):
            l = L[k]
            if not (0 <= l <= own_len and l <= S):
                problems.append(("prefix-too-long", {"slot": k, "len": l, "own_len": own_len, "S": S}))
                continue
            seq = tuple(Y[k][:l]) if S else ()
            if any(not (0 <= tok < V) for tok in seq):
                problems.append(("blank-or-foreign-token-in-prefix", {"slot": k, "prefix": seq}))
                continue
            if seq in pos:
                problems.append(("duplicate-positive-prefix", {"slot": k, "prefix": seq, "masses": [pos[seq], m]}))
                continue
            pos[seq] = m
        elif m == 0 or m == NEG_INF:
            tail.append(m)
        else:
            problems.append(("negative-or-infinite-mass", {"slot": k, "mass": m}))
    if nan:
        ctx.violation(dict(sig0, symptom="nan-in-output"), case,
                      {"nan_slots": nan, "probs": p, "expected": "every slot a probability, 0 or -inf"})
        return pos, tail, False
    for sym, det in problems:
        ctx.violation(dict(sig0, symptom=sym), case, dict(det, probs=p))
    for k in range(W - 1):
        # decreasing probability, up to rounding: an exact tie that internal rescaling turns into a one-ulp inversion is
        # not a violation (rtol 1e-6 on positive masses; the 0 / -inf tail is compared exactly)
        if not (p[k] >= p[k + 1]) and not (p[k] > 0 and p[k + 1] > 0 and p[k + 1] - p[k] <= 1e-6 * p[k + 1]):
            region = "positive" if p[k + 1] > 0 else "tail"
            ctx.violation(dict(sig0, symptom="order-violated", region=region), case, {"slot": k, "probs": p})
            break
    return pos, sorted(tail), not problems


def fmt(d):
    return {" ".join(map(str, s)) if s else "<empty>": m for s, m in sorted(d.items(), key=lambda kv: -kv[1])}


# ----------------------------------------------------------------------------------------------
def solo(ctx, env, name, l, width, tier):
    """Search one matrix's first l frames alone (cached) and hold it to both oracles."""
    key = (name, l, width)
    if key in env._solo:
        return env._solo[key]
    V = env.V
    case = {"kind": "search", "V": V, "dtype": env.dtype_name, "cfg": list(env.cfg), "seed": env.seed,
            "tier": tier, "T": l, "mats": [name], "lens": [l], "width": width, "lens_none": False}
    A, live = env.exact(name, l)
    wide = width > max(live)
    sig0 = {"api": "CTCPrefixSearch", "fusion": env.cfg[0] if env.cfg[1] else "none", "width_exceeds_live": wide}
    sig0.update(env.sig_extra)
    case.update(env.case_extra)
    ctx.case(1, 1 if l else 0)
    ctx.transitions += l
    ctx.count("solo_searches")
    if wide:
        ctx.count("solo_width_exceeds_live_prefixes")
    res = None
    env._solo[key] = None
    logits = env.mat_t[name][:l].unsqueeze(1)
    try:
        y, yl, pr = env.call(width, logits, torch.tensor([l]), [name])
    except Exception as e:  # a legal input must not raise
        ctx.violation(dict(sig0, symptom="raises", type=type(e).__name__), case, {"error": str(e)[-400:]})
        return None
    if not (y.dim() == 3 and tuple(y.shape[1:]) == (1, width) and y.size(0) <= l
            and tuple(yl.shape) == (1, width) and tuple(pr.shape) == (1, width) and pr.dtype == env.dtype):
        ctx.violation(dict(sig0, symptom="wrong-shape"), case,
                      {"y": list(y.shape), "y_lens": list(yl.shape), "probs": list(pr.shape), "dtype": str(pr.dtype)})
        return None
    view = make_view(y, yl, pr, 0)
    pos, tail, ok = structure(ctx, sig0, case, view, V, l)
    unpruned = max(live) <= width
    want = {s: m for s, m in A.items() if m > TINY}
    has_nan = any(m != m for m in view["p"])
    if unpruned:
        missing = [s for s in want if s not in pos]
        if missing:
            ctx.violation(dict(sig0, symptom="real-prefix-lost", with_nan=has_nan), case,
                          {"missing": fmt({s: want[s] for s in missing}), "exact": fmt(want),
                           "observed_positive": fmt(pos), "probs": view["p"], "live_per_frame": live})
            ok = False
    if has_nan:
        return None
    # Oracle A: never more than the exact mass; equal to it when nothing had to be pruned
    for s, m in pos.items():
        ex = A.get(s, 0.0)
        if m > ex and not close(m, ex, env.tol):
            ctx.violation(dict(sig0, symptom="mass-exceeds-exact", pruned=not unpruned), case,
                          {"prefix": s, "observed": m, "exact": ex, "exact_all": fmt(want)})
            ok = False
        elif unpruned and not close(m, ex, env.tol):
            ctx.violation(dict(sig0, symptom="mass-below-exact-unpruned"), case,
                          {"prefix": s, "observed": m, "exact": ex, "exact_all": fmt(want)})
            ok = False
    if unpruned:
        ctx.count("solo_unpruned_compared_with_exact")
    # Oracle B: prefix by prefix unless a pruning decision was a near-tie
    B = O.prefix_beam(env.probs(name, l), V, width, env.ext(name, l), env.tie[0], env.tie[1])
    if B["pruned"]:
        ctx.count("solo_pruned")
    if B["tie"]:
        ctx.count("near_tie_downgraded")
    else:
        ref = {s: pb + pnb for s, (pb, pnb) in B["beam"].items() if pb + pnb > TINY}
        bad = None
        for s in ref:
            if s not in pos:
                bad = ("missing", s)
                break
            if not close(pos[s], ref[s], env.tol):
                bad = ("mass", s)
                break
        if bad is None:
            for s in pos:
                if s not in ref:
                    bad = ("extra", s)
                    break
        if bad is not None:
            ctx.violation(dict(sig0, symptom="differs-from-reference-beam", what=bad[0], pruned=B["pruned"]), case,
                          {"prefix": bad[1], "reference": fmt(ref), "observed": fmt(pos)})
            ok = False
        else:
            ctx.traces += 1
    beam_c = sorted((s, round(m, 6)) for s, m in pos.items())
    ctx.state(["search", V, l, beam_c])
    ctx.outcome([beam_c, tail])
    if l >= 2 and width >= 2 and len(ctx.samples) < 1:
        ctx.sample({"logits": env.mat_l[name][:l], "V": V, "width": width, "fusion": list(env.cfg),
                    "dtype": env.dtype_name, "returned": fmt(pos), "tail": tail, "exact_all_alignments": fmt(want),
                    "reference_beam": fmt({s: a + b for s, (a, b) in B["beam"].items()}),
                    "pruned": B["pruned"], "near_tie": B["tie"]})
    res = {"pos": pos, "tail": tail, "tie": B["tie"], "ok": ok}
    env._solo[key] = res
    return res


def run_batch(ctx, env, T, names, lens, width, tier, lens_none=False, poison=False):
    """One batched search; each element against its solo search. poison: the frames past an
    element's length (not part of its input) hold NaN instead of the rest of its pool matrix."""
    N = len(names)
    V = env.V
    if N == 1 and lens[0] == T and not lens_none:
        solo(ctx, env, names[0], T, width, tier)
        return
    case = {"kind": "search", "V": V, "dtype": env.dtype_name, "cfg": list(env.cfg), "seed": env.seed, "tier": tier,
            "T": T, "mats": list(names), "lens": list(lens), "width": width, "lens_none": lens_none,
            "poison": poison}
    sig0 = {"api": "CTCPrefixSearch", "fusion": env.cfg[0] if env.cfg[1] else "none", "batched": True}
    sig0.update(env.sig_extra)
    case.update(env.case_extra)
    if poison:
        sig0["padding_frames"] = "nan"
        ctx.count("batched_searches_with_nan_padding_frames")
    ctx.case(1, 1 if any(lens) else 0)
    ctx.transitions += sum(lens)
    ctx.count("batched_searches")
    logits = torch.stack([env.mat_t[n][:T] for n in names], 1)
    if poison:
        for n in range(N):
            logits[lens[n]:, n] = float("nan")
    try:
        y, yl, pr = env.call(width, logits, None if lens_none else torch.tensor(lens), names)
    except Exception as e:
        ctx.violation(dict(sig0, symptom="raises", type=type(e).__name__), case, {"error": str(e)[-400:]})
        return
    if not (y.dim() == 3 and tuple(y.shape[1:]) == (N, width) and y.size(0) <= T
            and tuple(yl.shape) == (N, width) and tuple(pr.shape) == (N, width) and pr.dtype == env.dtype):
        ctx.violation(dict(sig0, symptom="wrong-shape"), case,
                      {"y": list(y.shape), "y_lens": list(yl.shape), "probs": list(pr.shape), "dtype": str(pr.dtype)})
        return
    check_elements(ctx, env, sig0, case, y, yl, pr, names, lens, width, tier, lens_none)


def check_elements(ctx, env, sig0, case, y, yl, pr, names, lens, width, tier, lens_none=False):
    """structural invariants of every element of a batched result + equality with its solo search
    (which is itself held to both oracles)"""
    V = env.V
    for n in range(len(names)):
        ref = solo(ctx, env, names[n], lens[n], width, tier)
        view = make_view(y, yl, pr, n)
        ecase = dict(case, element=n)
        live = env.exact(names[n], lens[n])[1]
        esig = dict(sig0, width_exceeds_live=width > max(live))
        pos, tail, ok = structure(ctx, esig, ecase, view, V, lens[n])
        if ref is None or not ok:
            continue
        if ref["tie"]:
            ctx.count("batch_element_vs_solo_skipped_near_tie")
            continue
        bad = None
        if set(pos) != set(ref["pos"]):
            bad = "prefix-set"
        elif any(not close(pos[s], ref["pos"][s], env.tol_solo) for s in pos):
            bad = "mass"
        elif tail != ref["tail"]:
            bad = "empty-slots"
        if bad:
            ctx.violation(dict(esig, symptom="differs-from-solo", what=bad, lens_none=lens_none), ecase,
                          {"solo": fmt(ref["pos"]), "solo_tail": ref["tail"], "batched": fmt(pos),
                           "batched_tail": tail})
        else:
            ctx.count("batch_elements_equal_to_solo")


def rotations(N, npool, tier, T):
    """which pool rotations provide the matrices of an N-element batch"""
    if N == 1:
        return list(range(npool))
    if tier != "thorough" or T > 4:
        return [0, npool // 2]
    return list(range(npool)) if N == 2 else list(range(0, npool, 2))


def run_search_shard(ctx, spec, tier, seed):
    V = spec["V"]
    names = pool_names(tier)
    env = Env(V, tuple(spec["cfg"]), spec["dtype"], seed, names)
    P = len(names)
    part, parts = spec.get("part", 0), spec.get("parts", 1)
    Ns = spec.get("Ns", [1, 2, 3])
    for T in range(tmax(tier, 1, V) + 1):
        ws = widths_for(env, T)
        for N in Ns:
            if T > tmax(tier, N, V):
                continue
            stride = 1 if N < 3 else 2
            for ri, r in enumerate(rotations(N, P, tier, T)):
                if N > 1 and ri % parts != part:
                    continue
                if N == 1 and part != 0:
                    continue
                mats = [names[(r + j * stride + (j * j if N == 3 else 0)) % P] for j in range(N)]
                for lens in itertools.product(range(T + 1), repeat=N):
                    for w in ws:
                        run_batch(ctx, env, T, mats, list(lens), w, tier)
                        if all(l == T for l in lens):
                            run_batch(ctx, env, T, mats, list(lens), w, tier, lens_none=True)
                        elif r == 0 or (tier == "thorough" and r % 4 == 0):
                            run_batch(ctx, env, T, mats, list(lens), w, tier, poison=True)
    if env.lm is not None:
        ctx.count("lm_calls", env.lm.calls)
        ctx.count("lm_extract_by_src", env.lm.extracts)
        ctx.count("lm_mix_by_mask", env.lm.mixes)
        ctx.count("lm_out_of_vocabulary_token_read", env.lm.garbage_reads)


# ----------------------------------------------------------------------------------------------
# probabilities of exactly 0 and 1 (round 6): saturated frames x a language model with hard zeros
SURE = 1000.0  # softmax([1000, -1000, -1000]) is exactly one-hot in float32 AND float64 (exp(-2000) underflows to 0)


class ZerosEnv(Env):
    """V = 2.  Pool = EVERY sequence of ZT frames each of which is certain of one label (label 0, label 1 or blank:
    posterior exactly one-hot, once through +-1000 logits and once through -inf logits), plus half-certain ones.  The
    fused LM is a lexicon: after a token only the SAME token (lexicon 'repeat') or only the OTHER one ('alternate') is
    possible (log-probability -inf for the rest), the first token is free.  Whole beams of zero mass, products 0 * 1,
    0 ** beta and log(0) all occur; the exact oracle (all alignments) and the reference recursion still apply."""

    def __init__(self, cfg, dtype, seed, lexicon, ZT):
        V = 2
        labels = list(itertools.product(range(V + 1), repeat=ZT))
        self._znames = []
        for lab in labels:
            self._znames.append("sure:" + "".join(map(str, lab)))
        for lab in labels[:: 4]:
            self._znames.append("ninf:" + "".join(map(str, lab)))
        for lab in labels[1:: 5]:
            self._znames.append("half:" + "".join(map(str, lab)))
        self.lexicon = lexicon
        super().__init__(V, cfg, dtype, seed, [])
        self.names = list(self._znames)
        for n in self.names:
            kind, lab = n.split(":")
            rows = []
            for t in range(ROWS):
                if t >= len(lab):
                    rows.append([0.0] * (V + 1))
                    continue
                a = int(lab[t])
                if kind == "sure":
                    rows.append([SURE if v == a else -SURE for v in range(V + 1)])
                elif kind == "ninf":
                    rows.append([0.0 if v == a else NEG_INF for v in range(V + 1)])
                else:  # certain that it is NOT label a; the other two equally likely
                    rows.append([NEG_INF if v == a else 0.0 for v in range(V + 1)])
            self.mat_t[n] = torch.tensor(rows, dtype=self.dtype)
            self.mat_l[n] = rows
        self.off = {n: 0 for n in self.names}
        if cfg[0] != "none":
            ncodes = (V + 1) ** ROWS
            rng = random.Random(f"c05-lexicon-{seed}")
            first = [round(rng.uniform(-1, 1), 2) for _ in range(V)]
            table = []
            for code in range(ncodes):
                if code == 0:
                    table.append(first)
                    continue
                last = (code - 1) % (V + 1)  # last consumed token (codes are base-(V+1) digits tok+1)
                allowed = last if lexicon == "repeat" else 1 - last
                table.append([0.0 if v == allowed else NEG_INF for v in range(V)])
            table_t = torch.tensor(table, dtype=self.dtype)
            bias = torch.zeros(NBIAS, V, dtype=self.dtype)
            self.lm = TableLM(V, table_t, bias)
            self.table_l, self.bias_l = table, bias.tolist()
        self.sig_extra = {"regime": "exact-zeros", "lexicon": lexicon}
        self.case_extra = {"zeros": {"lexicon": lexicon, "ZT": ZT}}


def run_zeros_shard(ctx, spec, tier, seed):
    ZT = 3 if tier == "quick" else 4
    env = ZerosEnv(tuple(spec["cfg"]), spec["dtype"], seed, spec["lexicon"], ZT)
    names = env.names
    for name in names:
        for l in range(ZT + 1):
            for w in (1, 2, 9):
                solo(ctx, env, name, l, w, tier)
                ctx.count("exact-zero-regime-searches")
    # batched: a doomed element (every alignment impossible) next to live ones, all lens
    for i in range(0, len(names) - 1, 3):
        pair = [names[i], names[(i * 7 + 5) % len(names)]]
        for lens in ((ZT, ZT), (ZT, 1), (2, ZT), (0, ZT)):
            for w in (2, 9):
                run_batch(ctx, env, ZT, pair, list(lens), w, tier)
                ctx.count("exact-zero-regime-searches")


# ----------------------------------------------------------------------------------------------
# ctc_prefix_search_advance driven directly
def schedules(V, steps):
    k1 = V + 1
    grow, w = [], 1
    for _ in range(steps):
        grow.append(w)
        w = w * (V + 1) + 2
    out = [
        [k1 + 1] * steps,
        [k1 + 5] * steps,
        [50] * steps,
        [2] + [2 * (V + 1) + 3] * (steps - 1),
        grow,
        [3, 3] + [50] * (steps - 2),
    ]
    return out


def run_advance(ctx, V, dtype_name, seed, names, schedule, extmode):
    dtype = DTYPES[dtype_name]
    tol, tie = TOL[dtype_name], TIE[dtype_name]
    N = len(names)
    case = {"kind": "advance", "V": V, "dtype": dtype_name, "seed": seed, "mats": list(names),
            "schedule": list(schedule), "extmode": extmode}
    sig0 = {"api": "ctc_prefix_search_advance", "extmode": extmode}
    ctx.case(1, 1)
    ctx.count("advance_runs")
    mats = [gen_matrix(n, V, seed) for n in names]
    mat_t = torch.tensor(mats, dtype=dtype)  # (N, ROWS, V+1)
    rng = random.Random(f"c05-adv-{seed}-{V}")
    G = 11
    g = [[round(rng.uniform(0.5, 1.5), 2) for _ in range(V)] for _ in range(G)]
    g_t = torch.tensor(g, dtype=dtype)
    g_l = g_t.tolist()

    def factor(prefix, v):
        return 1.0 if extmode == "plain" else g_l[O.encode(prefix, V) % G][v]

    nb = torch.zeros((N, 1), dtype=dtype)
    b = torch.ones((N, 1), dtype=dtype)
    y = torch.empty((0, N, 1), dtype=torch.long)
    last = torch.zeros((N, 1), dtype=torch.long)
    lens = torch.zeros((N, 1), dtype=torch.long)
    isp = torch.ones((N, 1, 1), dtype=torch.bool)
    beams = [{(): (1.0, 0.0)} for _ in range(N)]
    tied = [False] * N
    prev_seqs = [[()] for _ in range(N)]  # label sequence held in each slot (None = no real prefix)
    for t, W in enumerate(schedule):
        Kp = nb.size(1)
        p_t = mat_t[:, t].softmax(-1)
        p_l = p_t.tolist()
        nonext, blank = p_t[:, :V], p_t[:, V]
        ext = nonext.unsqueeze(1).expand(N, Kp, V).clone()
        if extmode != "plain":
            yl_l, y_l = lens.tolist(), y.permute(1, 2, 0).tolist()
            for n in range(N):
                for k in range(Kp):
                    pre = tuple(min(max(tok, 0), V - 1) for tok in y_l[n][k][: yl_l[n][k]])
                    ext[n, k] = ext[n, k] * g_t[O.encode(pre, V) % G]
        try:
            with torch.no_grad():
                y2, last2, lens2, (nb2, b2), isp2, src, nonx = ctc_prefix_search_advance(
                    (ext, nonext, blank), W, (nb, b), y, last, lens, isp)
        except Exception as e:
            ctx.violation(dict(sig0, symptom="raises", type=type(e).__name__), dict(case, step=t),
                          {"error": str(e)[-400:]})
            return
        shapes_ok = (tuple(y2.shape) == (t + 1, N, W) and tuple(last2.shape) == (N, W) and tuple(lens2.shape) == (N, W)
                     and tuple(nb2.shape) == (N, W) and tuple(b2.shape) == (N, W) and tuple(isp2.shape) == (N, W, W)
                     and tuple(src.shape) == (N, W) and tuple(nonx.shape) == (N, W))
        if not shapes_ok:
            ctx.violation(dict(sig0, symptom="wrong-shape"), dict(case, step=t), {"y_next": list(y2.shape)})
            return
        nb_l, b_l, tot_l = nb2.tolist(), b2.tolist(), (nb2 + b2).tolist()
        y_l, len_l, last_l = y2.permute(1, 2, 0).tolist(), lens2.tolist(), last2.tolist()
        src_l, nonx_l, isp_l = src.tolist(), nonx.tolist(), isp2.tolist()
        new_seqs = []
        inv_in = ((nb < 0) | (b < 0)).any(1).tolist()  # element has padding (negative-mass) slots in its input
        for n in range(N):
            ecase = dict(case, step=t, element=n)
            esig = dict(sig0, invalid_input_slots=inv_in[n])
            ctx.transitions += 1
            nan = [k for k in range(W) if tot_l[n][k] != tot_l[n][k] or nb_l[n][k] != nb_l[n][k] or b_l[n][k] != b_l[n][k]]
            if nan:
                ctx.violation(dict(esig, symptom="nan-in-output"), ecase,
                              {"nan_slots": nan, "nb": nb_l[n], "b": b_l[n], "width": W, "old_width": Kp})
                return
            p_n = p_l[n]

            def ext_fn(tt, prefix, v, p_n=p_n):
                return p_n[v] * factor(prefix, v)

            beams[n], pruned, ti = O.prefix_beam_step(beams[n], p_n, t, V, W, ext_fn, tie[0], tie[1])
            tied[n] = tied[n] or ti
            seqs, pos, problems = [None] * W, {}, []
            held = [None] * W  # label sequence in every slot of non-negative mass (zero-mass prefixes are real too)
            for k in range(W):
                m = tot_l[n][k]
                if m == 0 and 0 <= len_l[n][k] <= t + 1:
                    held[k] = tuple(y_l[n][k][: len_l[n][k]])
                if m > 0 and m != float("inf"):
                    l = len_l[n][k]
                    seq = tuple(y_l[n][k][:l]) if 0 <= l <= t + 1 else None
                    if seq is None or any(not (0 <= tok < V) for tok in seq):
                        problems.append(("blank-or-foreign-token-in-prefix", {"slot": k, "len": l}))
                        continue
                    if seq in pos:
                        problems.append(("duplicate-positive-prefix", {"slot": k, "prefix": seq}))
                        continue
                    if nb_l[n][k] < 0 or b_l[n][k] < 0:
                        problems.append(("negative-or-infinite-mass", {"slot": k}))
                        continue
                    pos[seq] = (b_l[n][k], nb_l[n][k], k)
                    seqs[k] = held[k] = seq
                elif not (m == 0 or m == NEG_INF):
                    problems.append(("negative-or-infinite-mass", {"slot": k, "mass": m}))
            for k, seq in enumerate(seqs):  # bookkeeping outputs for real prefixes
                if seq is None:
                    continue
                parent = prev_seqs[n][src_l[n][k]] if 0 <= src_l[n][k] < Kp else None
                want_parent = seq if nonx_l[n][k] else seq[:-1]
                if parent != want_parent or (not nonx_l[n][k] and not seq):
                    problems.append(("wrong-source", {"slot": k, "prefix": seq, "src": src_l[n][k],
                                                      "is_nonext": nonx_l[n][k], "source_prefix": parent}))
                if seq and last_l[n][k] != seq[-1]:
                    problems.append(("wrong-last-token", {"slot": k, "prefix": seq, "last": last_l[n][k]}))
                for k2, seq2 in enumerate(seqs):
                    if seq2 is not None and isp_l[n][k][k2] != (seq == seq2[: len(seq)]):
                        problems.append(("wrong-is-prefix", {"k": k, "k2": k2, "prefix_k": seq, "prefix_k2": seq2,
                                                             "reported": isp_l[n][k][k2]}))
                        break
            if not tied[n]:
                ref = {s: v for s, v in beams[n].items() if v[0] + v[1] > TINY}
                for s, (pb, pnb) in ref.items():
                    if s not in pos:
                        problems.append(("differs-from-reference-beam/missing", {"prefix": s}))
                        break
                    if not (close(pos[s][0], pb, tol) and close(pos[s][1], pnb, tol)):
                        problems.append(("differs-from-reference-beam/mass",
                                         {"prefix": s, "reference_b_nb": [pb, pnb],
                                          "observed_b_nb": list(pos[s][:2])}))
                        break
                else:
                    extra = [s for s in pos if s not in ref]
                    if extra:
                        problems.append(("differs-from-reference-beam/extra", {"prefix": extra[0]}))
            for sym, det in problems:
                sym, _, what = sym.partition("/")
                ctx.violation(dict(esig, symptom=sym, **({"what": what} if what else {})), ecase,
                              dict(det, total=tot_l[n], width=W, old_width=Kp,
                                   reference=fmt({s: a + c for s, (a, c) in beams[n].items()})))
            if problems:
                return
            new_seqs.append(held)
            ctx.state(["advance", V, t + 1, sorted((s, round(v[0] + v[1], 6)) for s, v in pos.items())])
        prev_seqs = new_seqs
        y, last, lens, nb, b, isp = y2, last2, lens2, nb2, b2, isp2
    for n in range(N):
        if tied[n]:
            ctx.count("advance_near_tie_downgraded")
        else:
            ctx.traces += 1
    ctx.outcome([sorted((s, round(v[0] + v[1], 6)) for s, v in bm.items()) for bm in beams])


def run_advance_shard(ctx, spec, tier, seed):
    V, dtype = spec["V"], spec["dtype"]
    names = pool_names(tier)
    P = len(names)
    steps = tmax(tier, 1, 1)
    for sched in schedules(V, steps):
        for extmode in ("plain", "prefix-dependent"):
            for r in range(P):
                for N in (1, 2):
                    run_advance(ctx, V, dtype, seed, [names[(r + j) % P] for j in range(N)], sched, extmode)


# ----------------------------------------------------------------------------------------------
# histories on ONE CTCPrefixSearch object: call, reassign public attributes / change the inputs, call again
def reuse_menu(big):
    """[(settings the object is constructed with, [attributes reassigned before each later call])]"""

    def S(w, b, vm, lm=True):
        return {"width": w, "beta": b, "valid_mixture": vm, "lm": lm}

    return [
        (S(3, 0.3, False), [{"beta": 1.0}, {"beta": 0.3}]),
        (S(3, 0.0, False), [{"beta": 0.3}, {"beta": 0.0}]),
        (S(big, 1.0, False), [{"beta": 0.0}, {"beta": 1.0}]),
        (S(3, 0.3, False), [{"valid_mixture": True}, {"valid_mixture": False}]),
        (S(big, 1.0, True), [{"valid_mixture": False}, {"valid_mixture": True}]),
        (S(2, 0.3, False), [{"beta": 1.0, "valid_mixture": True}, {"beta": 0.3, "valid_mixture": False}]),
        (S(2, 0.3, False), [{"width": 50}, {"width": 1}, {"width": 2}]),
        (S(50, 0.3, True), [{"width": 1}, {"width": big}]),
        (S(3, 1.0, False), [{"width": big, "beta": 0.3}, {"width": 1, "valid_mixture": True}]),
        (S(3, 0.3, False), [{"lm": False}, {"lm": True}]),
        (S(3, 0.0, True, False), [{"lm": True}, {"beta": 1.0}]),
        (S(3, 0.3, True), [{}, {}, {}]),  # same settings, only batch / lens / initial state change
        (S(big, 1.0, False), [{}, {}, {}]),
    ]


def reuse_inputs(names, r, T):
    """the inputs the calls of one history cycle through: different batch sizes, matrices, lens given or
    None, initial state given (per-element) or omitted (seed0 has the default state index 0)"""
    P = len(names)

    def nm(j):
        return names[(r + j) % P]

    return [
        {"mats": [nm(0), nm(1)], "lens": [T, min(1, T)], "lens_none": False, "state": True},
        {"mats": [nm(2)], "lens": [T], "lens_none": False, "state": True},
        {"mats": [nm(1), nm(0)], "lens": [T, T], "lens_none": True, "state": True},
        {"mats": [names[0]], "lens": [max(T - 1, 0)], "lens_none": False, "state": False},
    ]


RTOL_VARIANT = 1e-5  # two legal evaluation routes (grad / no grad, float64 default ...) may differ by rounding


def _as_dicts(y, lens, p):
    out = []
    for n in range(p.size(0)):
        d, tail = {}, []
        for k in range(p.size(1)):
            m = p[n, k].item()
            if m > 0:
                d[tuple(y[: int(lens[n, k]), n, k].tolist())] = m
            else:
                tail.append(m)
        out.append((d, sorted(tail, key=lambda x: (x != x, x))))
    return out


def _same_result(a, b):
    """None when the two results are the same search outcome.  Bit-identical results pass at once; otherwise the
    positive-mass prefixes are compared as sets with masses to RTOL_VARIANT (rounding may reorder exact ties and may
    swap prefixes tied at the pruning boundary: those are tolerated, never a larger difference)."""
    (ya, la, pa), (yb, lb, pb) = a, b
    if ya.shape != yb.shape or la.shape != lb.shape or pa.shape != pb.shape:
        return "shape"
    if not torch.equal(pa.isnan(), pb.isnan()):
        return "masses"
    exact = torch.equal(pa.nan_to_num(nan=-7.0), pb.nan_to_num(nan=-7.0))
    if exact:
        pos = pa > 0
        if not torch.equal(la[pos], lb[pos]):
            return "lengths"
        if ya.size(0):
            mask = (torch.arange(ya.size(0)).view(-1, 1, 1) < la.unsqueeze(0)) & pos.unsqueeze(0)
            if not torch.equal(ya[mask], yb[mask]):
                return "prefixes"
        return None
    for (da, ta), (db, tb) in zip(_as_dicts(ya, la, pa), _as_dicts(yb, lb, pb)):
        if len(ta) != len(tb) or any(x != y_ and not (x != x and y_ != y_) for x, y_ in zip(ta, tb)):
            return "masses"
        floor = min(list(da.values()) + list(db.values())) if (da or db) else 0.0
        for key in set(da) | set(db):
            ma, mb = da.get(key), db.get(key)
            if ma is None or mb is None:
                m = ma if mb is None else mb
                if abs(m - floor) > RTOL_VARIANT * abs(floor):  # not a tie at the pruning boundary
                    return "prefixes"
            elif abs(ma - mb) > RTOL_VARIANT * max(abs(ma), abs(mb)):
                return "masses"
    return None


class ReuseEnvs:
    """reference environments (one per fusion setting) sharing V, dtype, seed and the LM tables"""

    def __init__(self, V, dtype, seed, names):
        self.V, self.dtype, self.seed, self.names = V, dtype, seed, names
        self.envs = {}
        self.lm = self.get({"lm": True, "beta": 0.3, "valid_mixture": False}).lm

    def get(self, st):
        if not st["lm"] or not st["beta"]:
            cfg = ("none", 0.0)
        else:
            cfg = ("mixture" if st["valid_mixture"] else "plain", float(st["beta"]))
        if cfg not in self.envs:
            self.envs[cfg] = Env(self.V, cfg, self.dtype, self.seed, self.names)
        return self.envs[cfg]

    def build(self, st):
        return CTCPrefixSearch(st["width"], st["beta"], self.lm if st["lm"] else None,
                               valid_mixture=st["valid_mixture"])


def run_reuse(ctx, R, tier, T, r, start, assigns, call_first, shift=0):
    """One history on one object. After every call the result must equal what a FRESH object carrying
    the object's current public settings returns for the same input, and every element must agree
    with its solo search under those settings (which is held to both oracles)."""
    V = R.V
    inputs = reuse_inputs(R.names, r, T)
    case0 = {"kind": "reuse", "V": V, "dtype": R.dtype, "seed": R.seed, "tier": tier, "T": T, "r": r,
             "start": dict(start), "assigns": [dict(a) for a in assigns], "call_first": call_first, "shift": shift}
    ctx.count("reuse_histories")
    cur = dict(start)
    try:
        obj = R.build(cur)
    except Exception as e:
        ctx.violation({"api": "CTCPrefixSearch", "symptom": "raises", "type": type(e).__name__, "where": "constructor"},
                      case0, {"error": str(e)[-400:]})
        return
    seq = ([{}] if call_first else []) + list(assigns)
    for j, assign in enumerate(seq):
        for k, v in assign.items():
            if k == "lm":
                obj.lm = R.lm if v else None
            else:
                setattr(obj, k, v)
        cur.update(assign)
        # width, beta, valid_mixture are __constants__ of CTCPrefixSearch: reassigning them on a live module is
        # not a supported way to reconfigure it. Such a step is executed and COUNTED, never judged; the history
        # continues on a newly constructed object with the new configuration.
        constants = sorted(set(assign) & set(CTCPrefixSearch.__constants__))
        inp = inputs[(j + shift) % len(inputs)]
        env = R.get(cur)
        changed = "+".join(sorted(assign)) if assign else ("first-call" if j == 0 else "inputs-only")
        case = dict(case0, step=j, settings=dict(cur), input=inp)
        sig0 = {"api": "CTCPrefixSearch", "fusion": env.cfg[0] if env.cfg[1] else "none", "batched": True,
                "reused_object": True, "changed": changed}
        N = len(inp["mats"])
        ctx.case(1, 1 if any(inp["lens"]) else 0)
        ctx.transitions += sum(inp["lens"])
        logits = torch.stack([env.mat_t[n][:T] for n in inp["mats"]], 1)
        lens_t = None if inp["lens_none"] else torch.tensor(inp["lens"])

        def call(search):
            args = [logits.clone(), None if lens_t is None else lens_t.clone()]
            if inp["state"] and search.lm is not None:
                args.append({"off": torch.tensor([env.off[n] for n in inp["mats"]], dtype=torch.long)})
            with torch.no_grad():
                return search(*args)

        if constants:
            try:
                honoured = _same_result(call(obj), call(R.build(cur))) is None
            except Exception:  # noqa: BLE001 - counted, not judged
                honoured = False
            ctx.count("constants_reassigned_honoured" if honoured else "constants_reassigned_ignored")
            obj = R.build(cur)
        try:
            got = call(obj)
            fresh = call(R.build(cur))
        except Exception as e:
            ctx.violation(dict(sig0, symptom="raises", type=type(e).__name__), case, {"error": str(e)[-400:]})
            return
        diff = _same_result(got, fresh)
        if diff:
            ctx.violation(dict(sig0, symptom="reused-object-differs-from-fresh", what=diff), case,
                          {"reused_probs": got[2].tolist(), "fresh_probs": fresh[2].tolist(),
                           "expected": "the result of a freshly constructed object with the current settings"})
        else:
            ctx.count("reuse_calls_equal_to_fresh_object")
        y, yl, pr = got
        W = cur["width"]
        if not (y.dim() == 3 and tuple(y.shape[1:]) == (N, W) and y.size(0) <= T and tuple(yl.shape) == (N, W)
                and tuple(pr.shape) == (N, W) and pr.dtype == env.dtype):
            ctx.violation(dict(sig0, symptom="wrong-shape"), case,
                          {"y": list(y.shape), "y_lens": list(yl.shape), "probs": list(pr.shape)})
            return
        check_elements(ctx, env, sig0, case, y, yl, pr, inp["mats"], inp["lens"], W, tier, inp["lens_none"])


def run_reuse_shard(ctx, spec, tier, seed):
    V, dtype = spec["V"], spec["dtype"]
    names = pool_names(tier)
    R = ReuseEnvs(V, dtype, seed, names)
    P = len(names)
    for T in ((3, 4) if tier == "thorough" else (3,)):
        big = len(O.reachable_prefixes(T, V)) + 5
        for r in range(P):
            for hi, (start, assigns) in enumerate(reuse_menu(big)):
                for call_first in (True, False):
                    if not call_first and not any(assigns):
                        continue
                    run_reuse(ctx, R, tier, T, r, start, assigns, call_first, shift=hi)


# ----------------------------------------------------------------------------------------------
# larger instances (beyond what Oracle A can enumerate): Oracle B + structural invariants + batch == solo
LARGE_TOL = {"float32": (1e-30, 1e-4), "float64": (1e-200, 1e-9)}  # masses get tiny: relative comparison
LARGE_TIE = {"float32": (1e-30, 5e-4), "float64": (1e-200, 1e-7)}
LARGE_NCODES = 4093


def gen_large(V, T, seed, idx):
    """seed-valued scores in [-1,1] with a moderately peaky (+4) symbol per frame: labels that never repeat
    back to back (so the best hypotheses grow by one token per frame), blank on every tenth frame"""
    rng = random.Random(f"c05-large-{seed}-{V}-{T}-{idx}")
    m = [[round(rng.uniform(-1, 1), 4) for _ in range(V + 1)] for _ in range(T)]
    lab = rng.randrange(V)
    for t, r in enumerate(m):
        if t % 10 == 9:
            r[V] += 4.0
        else:
            lab = (lab + 1 + rng.randrange(V - 1)) % V
            r[lab] += 4.0
    return m


def run_large(ctx, Vp1, T, width, cfg, dtype_name, seed, tier, rep=0):
    V = Vp1 - 1
    dtype = DTYPES[dtype_name]
    tol, tie = LARGE_TOL[dtype_name], LARGE_TIE[dtype_name]
    kind, beta = cfg[0], float(cfg[1])
    lens = [T, T - 3]
    case = {"kind": "large", "Vp1": Vp1, "T": T, "width": width, "cfg": [kind, beta], "dtype": dtype_name,
            "seed": seed, "tier": tier, "lens": lens, "rep": rep}
    sig0 = {"api": "CTCPrefixSearch", "scope": "large", "fusion": kind if beta else "none"}
    mats_t = [torch.tensor(gen_large(V, T, seed, 2 * rep + i), dtype=dtype) for i in range(2)]
    mats_l = [m.tolist() for m in mats_t]
    offs = [1, 2]
    lm = None
    if kind != "none":
        rng = random.Random(f"c05-large-lm-{seed}-{V}")
        table = torch.tensor([[round(rng.uniform(-2, 2), 2) for _ in range(V)] for _ in range(LARGE_NCODES)], dtype=dtype)
        bias = torch.tensor([[0.0] * V] + [[round(rng.uniform(-1, 1), 2) for _ in range(V)] for _ in range(NBIAS - 1)],
                            dtype=dtype)
        lm = TableLM(V, table, bias)
        table_l, bias_l = table.tolist(), bias.tolist()
    search = CTCPrefixSearch(width) if lm is None else CTCPrefixSearch(width, beta, lm, valid_mixture=(kind == "mixture"))
    cache = {}

    def reference(n, l):
        probs = O.frame_probs(mats_l[n][:l])

        def lm_probs(prefix, off=offs[n]):
            k = (prefix, off)
            if k not in cache:
                row = table_l[O.encode(prefix, V) % LARGE_NCODES]
                cache[k] = O.softmax([a + b for a, b in zip(row, bias_l[off])])
            return cache[k]

        ext = O.make_ext(probs, V, None if kind == "none" else kind, beta, lm_probs)
        return O.prefix_beam(probs, V, width, ext, tie[0], tie[1])

    def call(logits, lens_t, ns):
        args = [logits, lens_t]
        if lm is not None:
            args.append({"off": torch.tensor([offs[n] for n in ns], dtype=torch.long)})
        with torch.no_grad():
            return search(*args)

    views = {}
    runs = [("batch", [0, 1], lens), ("solo0", [0], [lens[0]]), ("solo1", [1], [lens[1]])]
    for tag, ns, ls in runs:
        ctx.case(1, 1)
        ctx.transitions += sum(ls)
        ctx.count("large_searches")
        Tt = max(ls)
        logits = torch.stack([mats_t[n][:Tt] for n in ns], 1) if tag != "batch" else torch.stack(mats_t, 1)
        rcase = dict(case, run=tag)
        try:
            y, yl, pr = call(logits, torch.tensor(ls), ns)
        except Exception as e:
            ctx.violation(dict(sig0, symptom="raises", type=type(e).__name__), rcase, {"error": str(e)[-400:]})
            continue
        if not (y.dim() == 3 and tuple(y.shape[1:]) == (len(ns), width) and y.size(0) <= logits.size(0)
                and tuple(yl.shape) == (len(ns), width) and tuple(pr.shape) == (len(ns), width) and pr.dtype == dtype):
            ctx.violation(dict(sig0, symptom="wrong-shape"), rcase, {"y": list(y.shape), "probs": list(pr.shape)})
            continue
        for j, n in enumerate(ns):
            ecase = dict(rcase, element=n)
            pos, tail, ok = structure(ctx, dict(sig0, width_exceeds_live=False), ecase, make_view(y, yl, pr, j), V, ls[j])
            if not ok:
                continue
            views[(tag, n)] = (pos, tail)
            B = reference(n, ls[j])
            if B["tie"]:
                ctx.count("near_tie_downgraded")
                continue
            ref = {s: a + b for s, (a, b) in B["beam"].items() if a + b > 0}
            bad = None
            for s_, m_ in ref.items():
                if s_ not in pos:
                    bad = ("missing", s_)
                    break
                if not close(pos[s_], m_, tol):
                    bad = ("mass", s_)
                    break
            if bad is None:
                extra = [s_ for s_ in pos if s_ not in ref]
                if extra:
                    bad = ("extra", extra[0])
            if bad:
                ctx.violation(dict(sig0, symptom="differs-from-reference-beam", what=bad[0], pruned=B["pruned"]), ecase,
                              {"prefix": bad[1], "reference": fmt(ref), "observed": fmt(pos)})
            else:
                ctx.traces += 1
                ctx.state(["large", V, ls[j], sorted((s_, float("%.6g" % m_)) for s_, m_ in pos.items())])
                ctx.outcome([sorted(pos), tail])
    for n in (0, 1):
        a, b = views.get(("batch", n)), views.get((f"solo{n}", n))
        if a is None or b is None:
            continue
        if set(a[0]) != set(b[0]) or any(not close(a[0][s_], b[0][s_], (tol[0], 1e-5 if dtype_name == "float32" else 1e-11))
                                         for s_ in a[0]) or a[1] != b[1]:
            ctx.violation(dict(sig0, symptom="differs-from-solo", batched=True), dict(case, element=n),
                          {"solo": fmt(b[0]), "batched": fmt(a[0]), "solo_tail": b[1], "batched_tail": a[1]})
        else:
            ctx.count("batch_elements_equal_to_solo")


def run_large_shard(ctx, spec, tier, seed):
    for T in (16, 20, 24):
        for width in (2, 8):
            for cfg in (("none", 0.0), ("plain", 0.3)):
                for rep in range(3 if tier != "thorough" else 8):
                    run_large(ctx, spec["Vp1"], T, width, cfg, spec["dtype"], seed, tier, rep)


# ----------------------------------------------------------------------------------------------
# alias spellings of the same input, autograd, global torch state: bit-identical results required
def _variant_call(env, width, logits, lens, names, how):
    search = env.search(width)
    args = [logits, lens]
    if env.lm is not None:
        args.append({"off": torch.tensor([env.off[n] for n in names], dtype=torch.long)})
    if how == "lens-int32":
        args[1] = lens.to(torch.int32)
    elif how == "logits-noncontiguous":
        args[0] = logits.transpose(0, 1).contiguous().transpose(0, 1)
        assert not args[0].is_contiguous() or logits.size(0) <= 1 or logits.size(1) <= 1
    elif how == "logits-expanded-lens":
        args[1] = lens.unsqueeze(1).expand(-1, 3)[:, 1]  # stride-0 view of the same values
    if how == "requires-grad":
        args[0] = logits.clone().requires_grad_(True)
        out = search(*args)
        return tuple(o.detach() for o in out)
    if how == "inference-mode":
        with torch.inference_mode():
            out = search(*[a.clone() if isinstance(a, torch.Tensor) else a for a in args])
        return tuple(o.clone() for o in out)
    if how == "default-dtype-float64":
        old = torch.get_default_dtype()
        torch.set_default_dtype(torch.float64)
        try:
            with torch.no_grad():
                return search(*args)
        finally:
            torch.set_default_dtype(old)
    with torch.no_grad():
        return search(*args)


VARIANTS = ["lens-int32", "logits-noncontiguous", "logits-expanded-lens", "requires-grad", "inference-mode",
            "default-dtype-float64"]


def run_variants(ctx, env, T, names, lens, width, tier):
    case = {"kind": "variants", "V": env.V, "dtype": env.dtype_name, "cfg": list(env.cfg), "seed": env.seed,
            "tier": tier, "T": T, "mats": list(names), "lens": list(lens), "width": width}
    sig0 = {"api": "CTCPrefixSearch", "fusion": env.cfg[0] if env.cfg[1] else "none", "batched": True}
    logits = torch.stack([env.mat_t[n][:T] for n in names], 1)
    lens_t = torch.tensor(lens)
    ctx.case(1, 1)
    try:
        base = _variant_call(env, width, logits, lens_t, names, "plain")
    except Exception as e:
        ctx.violation(dict(sig0, symptom="raises", type=type(e).__name__), case, {"error": str(e)[-400:]})
        return
    y, yl, pr = base
    if tuple(pr.shape) != (len(names), width) or pr.dtype != env.dtype:
        ctx.violation(dict(sig0, symptom="wrong-shape"), case, {"probs": list(pr.shape), "dtype": str(pr.dtype)})
        return
    check_elements(ctx, env, sig0, case, y, yl, pr, names, lens, width, tier)
    for how in VARIANTS:
        vcase = dict(case, variant=how)
        vsig = dict(sig0, variant=how)
        ctx.case(1, 1)
        ctx.transitions += sum(lens)
        ctx.count("variant_searches")
        try:
            got = _variant_call(env, width, logits, lens_t, names, how)
        except Exception as e:
            ctx.violation(dict(vsig, symptom="raises", type=type(e).__name__), vcase, {"error": str(e)[-400:]})
            continue
        diff = "dtype" if got[2].dtype != pr.dtype else _same_result(got, base)
        if diff:
            ctx.violation(dict(vsig, symptom="variant-differs-from-plain-call", what=diff), vcase,
                          {"variant_probs": got[2].tolist(), "plain_probs": pr.tolist(), "dtype": str(got[2].dtype)})
        else:
            ctx.count("variant_calls_equal_to_plain_call")


def run_variants_shard(ctx, spec, tier, seed):
    V, dtype = spec["V"], spec["dtype"]
    names = pool_names(tier)
    P = len(names)
    T = 3
    for cfg in (("none", 0.0), ("plain", 0.3), ("mixture", 1.0)):
        env = Env(V, cfg, dtype, seed, names)
        for r in range(P):
            mats = [names[r], names[(r + 1) % P]]
            for lens in ([T, 1], [2, T], [T, T], [0, 2]):
                for w in (2, env.n_reachable(T) + 5):
                    run_variants(ctx, env, T, mats, lens, w, tier)


# ----------------------------------------------------------------------------------------------
# every LM flavour the search accepts, against the fused reference in which the LMs are stepped by hand
LOOKUP_KEYS = {  # name -> (sos, [keys of order 1, 2, ...]); V = 2
    "lookup2": (-1, [[0, 1, -1], [(-1, 0), (0, 1), (1, 1), (1, 0)]]),
    "lookup2b": (-1, [[0, 1, -1], [(-1, 0), (0, 1), (1, 1), (1, 0)]]),  # same shape, other numbers
    "lookup2full": (-1, [[0, 1, -1], [(-1, 0), (-1, 1), (0, 0), (0, 1), (1, 0), (1, 1)]]),  # bushier trie
    "lookup1": (-1, [[0, 1, -1]]),  # smaller table
    "lookup3": (0, [[0, 1], [(0, 0), (0, 1), (1, 0), (1, 1)], [(0, 0, 1), (0, 1, 1), (1, 0, 0), (0, 1, 0), (1, 1, 1)]]),
    "lookup3b": (0, [[0, 1], [(0, 0), (0, 1), (1, 0), (1, 1)], [(0, 0, 1), (0, 1, 1), (1, 0, 0), (0, 1, 0), (1, 1, 1)]]),
}
FLAVOURS = [
    ["lookup2"], ["lookup3"], ["rnn"],
    ["mix", "lookup2", "rnn", 0.3], ["mix", "rnn", "lookup3", 0.3], ["mix", "rnn", "table", 0.3],
    ["mix", "table", "rnn", 0.3], ["mix", "lookup2", "lookup3", 0.3], ["mix", "rnn", "rnn2", 0.3],
    ["mix", "lookup2", "rnn", 0.0], ["mix", "rnn", "table", 0.0],
    ["ext", "lookup2", "rnn", 0.3],  # extractable only: legal for the search as long as its beta is 0
]
RNN_H = 3


def gen_lookup(name, seed):
    sos, keys = LOOKUP_KEYS[name]
    rng = random.Random(f"c05-{name}-{seed}")
    dicts = []
    for n, ks in enumerate(keys):
        last = n == len(keys) - 1
        d = {}
        for k in ks:
            lp, lb = round(rng.uniform(-2.0, -0.1), 2), round(rng.uniform(-1.0, 0.0), 2)
            d[k] = lp if last else (lp, lb)
        dicts.append(d)
    return sos, dicts


def gen_rnn(name, V, seed, dtype):
    rng = random.Random(f"c05-{name}-{seed}-{V}")

    def mat(r, c, a):
        return torch.tensor([[round(rng.uniform(-a, a), 2) for _ in range(c)] for _ in range(r)], dtype=dtype)

    E, U, Wo = mat(V, RNN_H, 1.5), mat(RNN_H, RNN_H, 1.0), mat(RNN_H, V, 2.0)
    bo = mat(1, V, 0.5)[0]
    h0 = torch.cat([torch.zeros(1, RNN_H, dtype=dtype), mat(NBIAS - 1, RNN_H, 1.0)], 0)
    return E, U, Wo, bo, h0


class FlavourEnv(Env):
    """Env whose fused LM is one of FLAVOURS; the reference next-label scores are obtained by stepping every
    member by hand along the prefix (Katz back-off on the n-gram dictionaries, the recurrence in plain Python,
    the table row) and combining them as the shallow-fusion composite documents: first + beta_c * second."""

    def __init__(self, V, cfg, dtype, seed, names, flavour):
        super().__init__(V, cfg if cfg[0] != "none" else ("plain", 0.0), dtype, seed, names)
        self.flavour = list(flavour)
        self.sig_extra = {"lm": "/".join(str(x) for x in flavour)}
        self.case_extra = {"flavour": list(flavour)}
        self.members = flavour[1:3] if flavour[0] in ("mix", "ext") else [flavour[0]]
        self.bc = float(flavour[3]) if flavour[0] in ("mix", "ext") else 0.0
        self._ref = {}
        for m in self.members:
            if m.startswith("lookup"):
                self._ref[m] = gen_lookup(m, seed)
            elif m.startswith("rnn"):
                self._ref[m] = [t.tolist() for t in gen_rnn(m, V, seed, self.dtype)]
        if any(m.startswith("lookup") for m in self.members) and dtype == "float64":
            # the n-gram buffers are float32 whatever the logits are
            self.tol, self.tol_solo, self.tie = TOL["float32"], TOL_SOLO["float32"], TIE["float32"]
        self.lm = self.build_lm()

    def build_member(self, m, seed=None):
        seed = self.seed if seed is None else seed
        if m.startswith("lookup"):
            from pydrobert.torch.modules import LookupLanguageModel

            sos, dicts = gen_lookup(m, seed)
            return LookupLanguageModel(self.V, sos, dicts)
        if m.startswith("rnn"):
            return RecurrentLM(self.V, *gen_rnn(m, self.V, seed, self.dtype))
        return TableLM(self.V, torch.tensor(self.table_l, dtype=self.dtype), torch.tensor(self.bias_l, dtype=self.dtype))

    def build_lm(self, members=None, seed=None):
        from pydrobert.torch.modules import (ExtractableShallowFusionLanguageModel,
                                             MixableShallowFusionLanguageModel)

        members = self.members if members is None else members
        if self.flavour[0] == "mix":
            return MixableShallowFusionLanguageModel(self.build_member(members[0], seed),
                                                     self.build_member(members[1], seed), self.bc)
        if self.flavour[0] == "ext":
            return ExtractableShallowFusionLanguageModel(self.build_member(members[0], seed),
                                                         self.build_member(members[1], seed), self.bc)
        return self.build_member(members[0], seed)

    def build_search(self, width, lm=None):
        kind, beta = self.cfg
        return CTCPrefixSearch(width, beta, self.build_lm() if lm is None else lm, valid_mixture=(kind == "mixture"))

    def raw(self, m, prefix, off):
        if m.startswith("lookup"):
            sos, dicts = self._ref[m]
            return KZ.next_logps(dicts, self.V, sos, prefix)
        if m.startswith("rnn"):
            E, U, Wo, bo, h0 = self._ref[m]
            h = list(h0[off])
            for tok in prefix:
                h = [math.tanh(E[tok][j] + sum(h[i] * U[i][j] for i in range(RNN_H))) for j in range(RNN_H)]
            return [sum(h[i] * Wo[i][v] for i in range(RNN_H)) + bo[v] for v in range(self.V)]
        row = self.table_l[O.encode(prefix, self.V) % len(self.table_l)]
        return [a + b for a, b in zip(row, self.bias_l[off])]

    def lm_probs(self, prefix, off):
        k = (prefix, off)
        r = self._lmp.get(k)
        if r is None:
            raw = self.raw(self.members[0], prefix, off)
            if len(self.members) == 2:
                raw = [a + self.bc * b for a, b in zip(raw, self.raw(self.members[1], prefix, off))]
            r = self._lmp[k] = O.softmax(raw)
        return r

    def init_state(self, names):
        offs = torch.tensor([self.off[n] for n in names], dtype=torch.long)
        if len(self.members) == 1:
            return {} if self.members[0].startswith("lookup") else {"off": offs}
        st = {}
        for pre, m in zip(("first.", "second."), self.members):
            if not m.startswith("lookup"):
                st[pre + "off"] = offs.clone()
        return st

    def call(self, width, logits, lens, names, search=None):
        with torch.no_grad():
            return (self.search(width) if search is None else search)(logits, lens, self.init_state(names))


def flavour_cfgs(flavour):
    return [("plain", 0.0)] if flavour[0] == "ext" else [("plain", 0.3), ("plain", 1.0), ("mixture", 0.3)]


def run_flavour_shard(ctx, spec, tier, seed):
    V = 2
    names = pool_names(tier)
    P = len(names)
    for cfg in flavour_cfgs(spec["flavour"]):
        env = FlavourEnv(V, cfg, spec["dtype"], seed, names, spec["flavour"])
        for T in ((3, 4) if tier == "thorough" else (3,)):
            ws = [w for w in widths_for(env, T) if w != 50]
            for r in range(P):
                for l in range(T + 1):
                    for w in ws:
                        run_batch(ctx, env, T, [names[r]], [l], w, tier)
            for r in ((0, P // 2) if tier != "thorough" else range(0, P, 2)):
                mats = [names[r], names[(r + 1) % P]]
                for lens in itertools.product(range(T + 1), repeat=2):
                    for w in ws:
                        run_batch(ctx, env, T, mats, list(lens), w, tier)
        ctx.count("lm_flavour_configurations")


# ----------------------------------------------------------------------------------------------
# lifecycle of the whole search object (deepcopy, pickle, torch.save, state dicts ...) with a fused LM
LIFECYCLE = [  # (flavour, members of the module that RECEIVES a state dict in 'state_dict-into-other' runs)
    (["lookup2"], [["lookup2b"], ["lookup2full"], ["lookup1"], ["uniform"]]),
    (["lookup3"], [["lookup3b"], ["uniform"]]),
    (["rnn"], [["rnn2"]]),
    (["mix", "lookup3", "rnn", 0.3], [["lookup3b", "rnn2"], ["uniform", "rnn2"]]),
    (["mix", "rnn", "lookup2", 0.3], [["rnn2", "lookup1"]]),
]


def run_lifecycle(ctx, env, width, tier, others):
    V, T = env.V, 3
    names = env.names
    inputs = [([names[0], names[4]], [T, 1], False), ([names[2]], [T], False), ([names[5], names[1]], [T, T], True),
              ([names[9], names[3]], [2, T], False)]
    case0 = {"kind": "lifecycle", "V": V, "dtype": env.dtype_name, "cfg": list(env.cfg), "seed": env.seed,
             "tier": tier, "flavour": env.flavour, "width": width, "others": others}
    sig0 = {"api": "CTCPrefixSearch", "fusion": env.cfg[0] if env.cfg[1] else "none", "batched": True}
    sig0.update(env.sig_extra)

    def run(search, inp):
        mats, lens, none = inp
        logits = torch.stack([env.mat_t[n][:T] for n in mats], 1)
        return env.call(width, logits, None if none else torch.tensor(lens), mats, search=search)

    def make():
        return env.build_search(width)

    def used(o):
        run(o, inputs[1])

    def other_lm(members):
        from pydrobert.torch.modules import LookupLanguageModel

        def one(m, like):
            if m == "uniform":
                return LookupLanguageModel(V, LOOKUP_KEYS[like][0])
            return env.build_member(m)

        if len(env.members) == 1:
            return one(members[0], env.members[0])
        from pydrobert.torch.modules import MixableShallowFusionLanguageModel

        return MixableShallowFusionLanguageModel(one(members[0], env.members[0]), one(members[1], env.members[1]), env.bc)

    try:
        fresh = [run(make(), inp) for inp in inputs]
    except Exception as e:
        ctx.violation(dict(sig0, symptom="raises", type=type(e).__name__), case0, {"error": str(e)[-400:]})
        return
    mats, lens, _ = inputs[0]  # the fresh object itself against the oracles
    ctx.case(1, 1)
    check_elements(ctx, env, sig0, dict(case0, variant="fresh"), *fresh[0], mats, lens, width, tier)

    def variants():
        yield from guards.lifecycle_variants(make, used)
        for members in others:
            got = False
            for name, o in guards.lifecycle_variants(make, used, kinds=["state_dict-into-other"],
                                                     make_other=lambda: env.build_search(width, other_lm(members))):
                got = True
                yield name + ":" + "+".join(members), o
            if not got:
                ctx.count("lifecycle_load_refused")  # a refused load decides nothing
        # the documented route for an n-gram LM: the LM's own load_state_dict on a fresh uniform model
        if len(env.members) == 1 and env.members[0].startswith("lookup"):
            o = env.build_search(width, other_lm(["uniform"]))
            used(o)
            o.lm.load_state_dict(make().lm.state_dict())
            yield "lm.load_state_dict:uniform", o

    it = variants()
    while True:
        try:
            name, obj = next(it)
        except StopIteration:
            break
        except Exception as e:
            ctx.violation(dict(sig0, symptom="lifecycle-operation-raises", type=type(e).__name__), case0,
                          {"error": str(e)[-400:]})
            break
        vcase = dict(case0, variant=name)
        vsig = dict(sig0, variant=name.split(":")[0])
        for i, inp in enumerate(inputs):
            ctx.case(1, 1)
            ctx.transitions += sum(inp[1])
            ctx.count("lifecycle_searches")
            try:
                got = run(obj, inp)
            except Exception as e:
                ctx.violation(dict(vsig, symptom="raises", type=type(e).__name__), dict(vcase, input=i),
                              {"error": str(e)[-400:]})
                break
            diff = _same_result(got, fresh[i])
            if diff:
                ctx.violation(dict(vsig, symptom="lifecycle-variant-differs-from-fresh", what=diff), dict(vcase, input=i),
                              {"variant_probs": got[2].tolist(), "fresh_probs": fresh[i][2].tolist(),
                               "expected": "exactly what a freshly constructed search returns"})
                break
        else:
            ctx.count("lifecycle_variants_equal_to_fresh")


def run_lifecycle_shard(ctx, spec, tier, seed):
    names = pool_names("thorough")
    flavour, others = LIFECYCLE[spec["index"]]
    for cfg in (("plain", 0.3), ("mixture", 1.0)):
        env = FlavourEnv(2, cfg, spec["dtype"], seed, names, flavour)
        for width in (3, env.n_reachable(3) + 5):
            run_lifecycle(ctx, env, width, tier, others)


# ----------------------------------------------------------------------------------------------
def shards(tier, seed):
    out = []
    for i in range(len(LIFECYCLE)):
        out.append({"kind": "lifecycle", "index": i, "dtype": "float32"})
    for fl in FLAVOURS:
        for dt in DTYPES:
            if dt == "float64" and tier != "thorough" and any(str(m).startswith("lookup") for m in fl):
                continue  # the n-gram buffers are float32 anyway
            out.append({"kind": "flavour", "flavour": fl, "dtype": dt})
    for Vp1 in (32, 16, 7):
        for dt in DTYPES:
            out.append({"kind": "large", "Vp1": Vp1, "dtype": dt})
    for V in (1, 2):
        for dt in DTYPES:
            out.append({"kind": "variants", "V": V, "dtype": dt})
    for V in (1, 2):
        for dt in DTYPES:
            out.append({"kind": "advance", "V": V, "dtype": dt})
            out.append({"kind": "reuse", "V": V, "dtype": dt})
    for cfg in (("plain", 0.3), ("plain", 1.0), ("mixture", 0.3), ("none", 0.0)):
        for lexicon in (("repeat", "alternate") if cfg[0] != "none" else ("repeat",)):
            for dt in DTYPES:
                out.append({"kind": "zeros", "cfg": list(cfg), "lexicon": lexicon, "dtype": dt})
    parts = 4 if tier == "thorough" else 1
    for V in (1, 2):
        for cfg in CFGS:
            for dt in DTYPES:
                for part in range(parts):
                    out.append({"kind": "search", "V": V, "cfg": list(cfg), "dtype": dt, "part": part, "parts": parts})
    if tier == "thorough":
        for cfg in CFGS:
            for dt in DTYPES:
                out.append({"kind": "search", "V": 3, "cfg": list(cfg), "dtype": dt, "part": 0, "parts": 1,
                            "Ns": [1, 2]})
    return out


def run_shard(spec, tier, seed):
    ctx = Ctx()
    if spec["kind"] == "zeros":
        run_zeros_shard(ctx, spec, tier, seed)
    elif spec["kind"] == "search":
        run_search_shard(ctx, spec, tier, seed)
    elif spec["kind"] == "reuse":
        run_reuse_shard(ctx, spec, tier, seed)
    elif spec["kind"] == "large":
        run_large_shard(ctx, spec, tier, seed)
    elif spec["kind"] == "variants":
        run_variants_shard(ctx, spec, tier, seed)
    elif spec["kind"] == "flavour":
        run_flavour_shard(ctx, spec, tier, seed)
    elif spec["kind"] == "lifecycle":
        run_lifecycle_shard(ctx, spec, tier, seed)
    else:
        run_advance_shard(ctx, spec, tier, seed)
    return ctx


def replay(case):
    ctx = Ctx()
    if case["kind"] == "search":
        tier = case.get("tier", "thorough")
        if "zeros" in case:
            env = ZerosEnv(tuple(case["cfg"]), case["dtype"], case["seed"], case["zeros"]["lexicon"], case["zeros"]["ZT"])
        elif "flavour" in case:
            env = FlavourEnv(case["V"], tuple(case["cfg"]), case["dtype"], case["seed"], pool_names("thorough"),
                             case["flavour"])
        else:
            env = Env(case["V"], tuple(case["cfg"]), case["dtype"], case["seed"], pool_names("thorough"))
        run_batch(ctx, env, case["T"], case["mats"], case["lens"], case["width"], tier, case.get("lens_none", False),
                  case.get("poison", False))
    elif case["kind"] == "advance":
        run_advance(ctx, case["V"], case["dtype"], case["seed"], case["mats"], case["schedule"], case["extmode"])
    elif case["kind"] == "large":
        run_large(ctx, case["Vp1"], case["T"], case["width"], tuple(case["cfg"]), case["dtype"], case["seed"],
                  case.get("tier", "quick"), case.get("rep", 0))
    elif case["kind"] == "variants":
        tier = case.get("tier", "quick")
        env = Env(case["V"], tuple(case["cfg"]), case["dtype"], case["seed"], pool_names(tier))
        run_variants(ctx, env, case["T"], case["mats"], case["lens"], case["width"], tier)
    elif case["kind"] == "lifecycle":
        env = FlavourEnv(case["V"], tuple(case["cfg"]), case["dtype"], case["seed"], pool_names("thorough"),
                         case["flavour"])
        run_lifecycle(ctx, env, case["width"], case.get("tier", "quick"), case["others"])
    elif case["kind"] == "reuse":
        tier = case.get("tier", "quick")
        R = ReuseEnvs(case["V"], case["dtype"], case["seed"], pool_names(tier))
        run_reuse(ctx, R, tier, case["T"], case["r"], case["start"], case["assigns"], case["call_first"],
                  case.get("shift", 0))
    else:  # a whole shard blew up
        return run_shard(case["spec"], "quick", 0)
    return ctx
