"""C02 - error rate counts the edits of some minimum-cost alignment; MER loss (E1)."""

import itertools

import torch

import pydrobert.torch.functional as F
import pydrobert.torch.modules as M
from pydrobert.torch import config

from mc.runner import Ctx
from mc.oracles import strings as O
from checks import _strings_common as S

PROP = "C02"
LEVEL = "exploration"
RULE = (
    "same pair space as C01 (all stored ref/hyp over {0,1,2}, sizes 0..3 quick / 0..4 thorough, one "
    "ragged batch per (R,H), reversed order, single pairs); error_rate and prefix_error_rates under "
    "4/8 cost triples x eos x include_eos x norm x batch_first x exclude_last x padding values (the usual negative ones and 0, 1, 2, which collide with legitimate counts and rates); the count must lie in "
    "[fewest, most] edits over all minimum-cost alignments (DP carrying both), equal plain "
    "Levenshtein for equal costs, and follow the 0/1 empty-reference convention. "
    "minimum_error_rate_loss: every (N<=2, M in {2,3}) sample set drawn from a seed-rotated slice of the "
    "same string space, 2-D and 3-D references, all reductions, sub_avg both. Distinct by "
    "construction; non-trivial = counted ref and hyp differ and are non-empty. Plus larger instances (R,H,N) = "
    "(63,60,90), (127,120,40), handed in as offset non-contiguous views, against an integer DP carrying fewest/most edits; "
    "module objects are reused across unrelated calls and arguments must come back unchanged."
)
ASSUMPTIONS = [
    "small-scope: alphabet of 3 symbols, lengths <= 3/4, fixed cost menu",
    "for unequal costs the loss clause is compared against softmax x the oracle-bounded per-sample "
    "error rates returned by the implementation's own error_rate (tie-breaking left free)",
    "float32 tolerance 1e-5",
]
BUDGET_S = {"quick": 900, "thorough": 3000}


def shards(tier, seed):
    L = S.max_len(tier)
    LIFE = [{"lifecycle": [n]} for n in ['ErrorRate', 'PrefixErrorRates', 'MinimumErrorRateLoss']]
    out = [{"kind": "pairs", "R": R, "H": H} for R in range(L + 1) for H in range(L + 1)]
    out += [{"kind": "mer", "part": p} for p in range(16)]
    out += [{"kind": "large", "dims": d, "cost": c} for d in ([63, 60, 90], [127, 120, 40])
            for c in ((1.0, 1.0, 1.0), (1.0, 0.5, 2.0))]
    out += [{"kind": "large", "dims": [31, 30, 40], "cost": (1.0, 2.0, 3.0), "id_offset": S.BIG_ID},
            {"kind": "large", "dims": [31, 30, 40], "cost": (1, 1, 1.5), "jit": True},
            {"kind": "large", "dims": [9, 11, 17], "cost": (1.0, 1.0, 1.0), "jit": True}]
    return LIFE + out


def _check_batch(ctx, pairs, ref, hyp, eos, include_eos, cost, tier, tag, modules):
    N = len(pairs)
    uniform = cost[0] == cost[1] == cost[2]
    effs = [S.eff_pair(p, eos, include_eos) for p in pairs]
    orc = [O.distance(er, eh, cost) for er, eh in effs]
    lev = [O.distance(er, eh, (1.0, 1.0, 1.0))[0] for er, eh in effs] if uniform else None
    H = hyp.size(0)

    def bounds(n, j):
        if uniform:
            return lev[n][j], lev[n][j]
        return orc[n][1][j], orc[n][2][j]

    for norm, batch_first in itertools.product((False, True), (False, True)):
        r_in, h_in = (ref.t(), hyp.t()) if batch_first else (ref, hyp)
        kw = dict(eos=eos, include_eos=include_eos, norm=norm, batch_first=batch_first,
                  ins_cost=cost[0], del_cost=cost[1], sub_cost=cost[2])
        base_case = {"kind": "pair", "eos": eos, "include_eos": include_eos, "norm": norm,
                     "batch_first": batch_first, "cost": cost, "batching": tag}
        for api in (("functional", "module") if modules else ("functional",)):
            try:
                r0, h0 = r_in.clone(), h_in.clone()
                if api == "functional":
                    out_t = F.error_rate(r_in, h_in, warn=False, **kw)
                else:
                    mod = M.ErrorRate(warn=False, **kw)
                    mod(h_in.flip(0), r_in.flip(0))  # one module object, an unrelated call first
                    out_t = mod(r_in, h_in)
                kept = out_t.clone()
                F.error_rate(h_in.flip(0), r_in.flip(0), warn=False, **kw)  # a later, unrelated call
                if not torch.equal(kept, out_t) and not (kept != kept).any():
                    raise AssertionError("result of an earlier call changed after a later call (aliased buffer)")
                out = out_t.tolist()
                if not (torch.equal(r0, r_in) and torch.equal(h0, h_in)):
                    raise AssertionError("argument modified in place")
                err = None
            except Exception as e:
                err = e
            for n in range(N):
                er, eh = effs[n]
                ctx.case(1, 1 if (er != eh and er and eh) else 0)
                case = dict(base_case, api=api, fn="error_rate", ref=pairs[n][0], hyp=pairs[n][1])
                if err is not None:
                    ctx.violation({"api": "error_rate", "symptom": "raises", "type": type(err).__name__},
                                  case, {"error": str(err)[-400:]})
                    break
                lo, hi = bounds(n, len(eh))
                if norm:
                    if len(er) == 0:
                        lo = hi = 0.0 if len(eh) == 0 else 1.0
                    else:
                        lo, hi = lo / len(er), hi / len(er)
                if not (lo - 1e-5 <= out[n] <= hi + 1e-5):
                    ctx.violation(
                        {"api": "error_rate", "symptom": "count-outside-optimal-alignments",
                         "norm": norm, "uniform": uniform, "empty_ref": len(er) == 0},
                        case, {"lo": lo, "hi": hi, "observed": out[n]})
                else:
                    ctx.outcome(round(out[n] * 64))
                    if lo != hi:
                        ctx.count("pairs_with_tie_freedom")
        for exclude_last in (False, True):
            if exclude_last and H == 0:
                continue
            # padding values that COLLIDE with legitimate counts / rates (1, 2, 0) next to the usual negative ones: a
            # result must never be told from padding by its value
            for padding in ((config.INDEX_PAD_VALUE, 1) if not exclude_last else (-3, 2, 0)):
                for api in (("functional", "module") if modules else ("functional",)):
                    try:
                        if api == "functional":
                            out = F.prefix_error_rates(r_in, h_in, padding=padding,
                                                       exclude_last=exclude_last, warn=False, **kw)
                        else:
                            out = M.PrefixErrorRates(padding=padding, exclude_last=exclude_last, warn=False, **kw)(
                                r_in, h_in)
                        if batch_first:
                            out = out.t()
                        rows = H + (0 if exclude_last else 1)
                        if tuple(out.shape) != (rows, N):
                            raise AssertionError(f"shape {tuple(out.shape)} != {(rows, N)}")
                        out = out.t().tolist()
                        err = None
                    except Exception as e:
                        err = e
                    for n in range(N):
                        er, eh = effs[n]
                        ctx.case(1, 1 if (er != eh and er and eh) else 0)
                        case = dict(base_case, api=api, fn="prefix_error_rates", padding=padding,
                                    exclude_last=exclude_last, ref=pairs[n][0], hyp=pairs[n][1])
                        if err is not None:
                            ctx.violation({"api": "prefix_error_rates", "symptom": "raises",
                                           "type": type(err).__name__}, case, {"error": str(err)[-400:]})
                            break
                        nvalid = len(eh) + (0 if exclude_last else 1)
                        bad = []
                        exp = []
                        for j in range(H + (0 if exclude_last else 1)):
                            if j < nvalid:
                                lo, hi = bounds(n, j)
                                if norm:
                                    if len(er) == 0:
                                        lo = hi = 0.0 if j == 0 else 1.0
                                    else:
                                        lo, hi = lo / len(er), hi / len(er)
                            else:
                                lo = hi = float(padding)
                            exp.append((lo, hi))
                            if not (lo - 1e-5 <= out[n][j] <= hi + 1e-5):
                                bad.append(j)
                        if bad:
                            ctx.violation(
                                {"api": "prefix_error_rates", "symptom":
                                 "wrong-padding" if all(j >= nvalid for j in bad) else "count-outside-optimal-alignments",
                                 "norm": norm, "uniform": uniform, "exclude_last": exclude_last,
                                 "empty_ref": len(er) == 0},
                                case, {"expected_ranges": exp, "observed": out[n], "bad_positions": bad})


def _mer_case(ctx, refs, hyps, logp, eos, include_eos, cost, norm, sub_avg, batch_first, ref3d, reduction):
    """refs: list over N of stored ref (or list over N of list over M when ref3d), hyps[n][m]."""
    N, Mm = len(hyps), len(hyps[0])
    uniform = cost[0] == cost[1] == cost[2]
    hyp_t = torch.tensor(hyps, dtype=torch.long)  # N, M, H
    if ref3d:
        ref_t = torch.tensor(refs, dtype=torch.long)  # N, M, R
    else:
        ref_t = torch.tensor(refs, dtype=torch.long)  # N, R
    lp = torch.tensor(logp, dtype=torch.float)
    if not batch_first:
        hyp_in = hyp_t.permute(2, 0, 1).contiguous()
        ref_in = ref_t.permute(2, 0, 1).contiguous() if ref3d else ref_t.t().contiguous()
    else:
        hyp_in, ref_in = hyp_t, ref_t
    kw = dict(eos=eos, include_eos=include_eos, sub_avg=sub_avg, batch_first=batch_first, norm=norm,
              ins_cost=cost[0], del_cost=cost[1], sub_cost=cost[2], reduction=reduction)
    case = {"kind": "mer", "refs": refs, "hyps": hyps, "logp": logp, "ref3d": ref3d, **kw}
    ctx.case(1, 1)
    try:
        out = F.minimum_error_rate_loss(lp, ref_in, hyp_in, warn=False, **kw)
    except Exception as e:
        ctx.violation({"api": "minimum_error_rate_loss", "symptom": "raises", "type": type(e).__name__},
                      case, {"error": str(e)[-400:]})
        return
    # oracle error rates
    ers = []
    for n in range(N):
        row = []
        for m in range(Mm):
            r = refs[n][m] if ref3d else refs[n]
            er, eh = S.eff_pair((tuple(r), tuple(hyps[n][m])), eos, include_eos)
            if uniform:
                c = O.distance(er, eh, (1.0, 1.0, 1.0))[0][-1]
                lo = hi = c
            else:
                d = O.distance(er, eh, cost)
                lo, hi = d[1][-1], d[2][-1]
            if norm:
                if len(er) == 0:
                    lo = hi = 0.0 if len(eh) == 0 else 1.0
                else:
                    lo, hi = lo / len(er), hi / len(er)
            row.append((lo, hi))
        ers.append(row)
    if any(lo != hi for row in ers for lo, hi in row):
        # tie freedom: use the implementation's own (already bounded in the pair shards) rates
        r2 = ref_t if ref3d else ref_t.unsqueeze(1).expand(N, Mm, ref_t.size(-1))
        impl = F.error_rate(r2.reshape(N * Mm, -1), hyp_t.reshape(N * Mm, -1), eos=eos,
                            include_eos=include_eos, norm=norm, batch_first=True, ins_cost=cost[0],
                            del_cost=cost[1], sub_cost=cost[2], warn=False).view(N, Mm).tolist()
        for n in range(N):
            for m in range(Mm):
                lo, hi = ers[n][m]
                if not (lo - 1e-5 <= impl[n][m] <= hi + 1e-5):
                    ctx.violation({"api": "error_rate", "symptom": "count-outside-optimal-alignments",
                                   "via": "mer"}, case, {"lo": lo, "hi": hi, "observed": impl[n][m]})
                    return
        er_v = impl
        ctx.count("mer_cases_with_tie_freedom")
    else:
        er_v = [[lo for lo, _ in row] for row in ers]
    import math

    exp = []
    for n in range(N):
        mx = max(logp[n])
        z = [math.exp(v - mx) for v in logp[n]]
        s = sum(z)
        w = [v / s for v in z]
        e = list(er_v[n])
        if sub_avg:
            mu = sum(e) / len(e)
            e = [v - mu for v in e]
        exp.append([a * b for a, b in zip(e, w)])
    flat = [v for row in exp for v in row]
    if reduction == "none":
        ok = tuple(out.shape) == (N, Mm) and all(
            S.close(o, e) for o, e in zip(out.flatten().tolist(), flat))
        obs = out.tolist()
        expv = exp
    else:
        expv = sum(flat) if reduction == "sum" else sum(flat) / len(flat)
        ok = out.dim() == 0 and S.close(out.item(), expv)
        obs = out.tolist()
    if not ok:
        ctx.violation({"api": "minimum_error_rate_loss", "symptom": "wrong-loss", "reduction": reduction,
                       "sub_avg": sub_avg, "ref3d": ref3d}, case, {"expected": expv, "observed": obs})
    else:
        ctx.outcome(round(sum(flat) * 4096))


def _mer_shard(ctx, part, nparts, tier, seed):
    import random

    rng = random.Random(1000 * seed + part)  # don't-care values: log-probs only
    idx = 0
    for N, Mm in ((1, 2), (1, 3), (2, 2)):
        # stored sequences of tensor size L (eos inside gives all shorter ones); thorough uses length 3 for
        # pairs of samples only: triples of length-3 strings would be 38 M calls
        L = 3 if (tier == "thorough" and Mm == 2 and N == 1) else 2
        strs = S.all_strings(L)
        # all hyp sample sets: M-tuples of stored strings per element
        hyp_sets = list(itertools.product(strs, repeat=Mm))
        for ref3d in (False, True):
            if ref3d:
                ref_choices = list(itertools.product(strs, repeat=Mm)) if Mm == 2 and N == 1 else None
            for hs in hyp_sets:
                for ri, r in enumerate(strs):
                    idx += 1
                    if idx % nparts != part:
                        continue
                    if N == 2 and (ri + len(hs[0]) + seed) % 3 != 0 and tier == "quick":
                        continue
                    hyps = [list(map(list, hs))]
                    refs = [list(r)]
                    if N == 2:
                        hyps.append([list(x) for x in hs[::-1]])
                        refs.append(list(strs[(ri * 7 + 3) % len(strs)]))
                    if ref3d:
                        refs = [[list(strs[(ri + 5 * m + 11 * n) % len(strs)]) for m in range(Mm)]
                                for n in range(N)]
                    logp = [[round(rng.uniform(-2, 2), 3) for _ in range(Mm)] for _ in range(N)]
                    for eos, include_eos in S.eos_cfgs():
                        k = (ri + idx) % 4
                        cost = S.costs(tier)[k % len(S.costs(tier))]
                        for norm, sub_avg in itertools.product((False, True), (False, True)):
                            for reduction in ("none", "sum", "mean"):
                                bf = (idx + len(reduction)) % 2 == 0
                                _mer_case(ctx, refs, hyps, logp, eos, include_eos, cost, norm,
                                          sub_avg, bf, ref3d, reduction)
    ctx.sample({"mer_part": part, "example_hyps": hyps, "example_refs": refs, "logp": logp})


def _large(ctx, R, H, N, cost, seed, id_offset=0, jit=False):
    """Larger instance handed in as offset, non-contiguous views: error_rate / prefix_error_rates against an
    integer DP carrying the fewest and most edits over optimal alignments."""
    eos = 3 + id_offset
    refs, hyps, ref, hyp = S.large_batch(R, H, N, seed, 3, id_offset)
    ci, cd, cs = (int(round(c * 2)) for c in cost)
    uniform = cost[0] == cost[1] == cost[2]
    for include_eos in (False, True):
        exp = []
        for n in range(N):
            er, eh = O.effective(refs[n], eos, include_eos), O.effective(hyps[n], eos, include_eos)
            outs, _ = O.lev_int_full(er, eh, 1, 1, 1) if uniform else O.lev_int_full(er, eh, ci, cd, cs)
            exp.append((outs, len(er), len(eh)))
        for norm, batch_first in itertools.product((False, True), (False, True)):
            r_in, h_in = (ref.t(), hyp.t()) if batch_first else (ref, hyp)
            r0, h0 = r_in.clone(), h_in.clone()
            kw = dict(eos=eos, include_eos=include_eos, norm=norm, batch_first=batch_first, ins_cost=cost[0],
                      del_cost=cost[1], sub_cost=cost[2])
            case = {"kind": "large", "R": R, "H": H, "N": N, "cost": cost, "seed": seed, "id_offset": id_offset,
                    "jit": jit, **kw}
            ctx.case(2 * N, 2 * N)
            try:
                er_out = F.error_rate(r_in, h_in, warn=False, **kw).tolist()
                pe = F.prefix_error_rates(r_in, h_in, warn=False, **kw)
                pe = (pe if batch_first else pe.t()).tolist()
                if jit:  # scripted / traced modules (traced on an unrelated one-token example) must agree with eager
                    fkw = {k: (float(v) if k.endswith("_cost") else v) for k, v in kw.items()}
                    ex = (torch.full((1, 1), eos, dtype=torch.long),) * 2
                    # a second tracing example that contains no empty reference and has another length
                    ex2 = (torch.tensor([[id_offset, 1 + id_offset, eos]]).t() if not batch_first
                           else torch.tensor([[id_offset, 1 + id_offset, eos]]),) * 2
                    jv = [(nm, v, "eos-only-example") for nm, v in S.jit_variants(lambda: M.ErrorRate(warn=False, **fkw), ex)]
                    jv += [(nm, v, "three-token-example") for nm, v in
                           S.jit_variants(lambda: M.ErrorRate(warn=False, **fkw), ex2) if nm == "traced"]
                    for nm, v, exname in jv:
                        if isinstance(v, Exception):
                            raise v
                        o2 = v(r_in, h_in).tolist()
                        if any(not (S.close(a, b) or (a != a and b != b)) for a, b in zip(o2, er_out)):
                            ctx.violation({"api": "ErrorRate/" + nm, "symptom": "differs-from-eager", "large": True,
                                           "norm": norm, "example": exname}, case, {"eager": er_out[:4], nm: o2[:4]})
                    # eos unset: every stored token counts; the traced module must follow the reference length
                    nkw = dict(fkw, eos=None, include_eos=False)
                    eager_ne = F.error_rate(r_in, h_in, warn=False, **nkw).tolist()
                    exn = (torch.zeros((3, 1) if not batch_first else (1, 3), dtype=torch.long),) * 2
                    for nm, v in S.jit_variants(lambda: M.ErrorRate(warn=False, **nkw), exn):
                        if isinstance(v, Exception):
                            raise v
                        o2 = v(r_in, h_in).tolist()
                        if any(not S.close(a, b) for a, b in zip(o2, eager_ne)):
                            ctx.violation({"api": "ErrorRate/" + nm, "symptom": "differs-from-eager", "large": True,
                                           "norm": norm, "example": "no-eos"}, case, {"eager": eager_ne[:4], nm: o2[:4]})
            except Exception as e:
                ctx.violation({"api": "error_rate", "symptom": "raises", "type": type(e).__name__, "large": True},
                              case, {"error": str(e)[-300:]})
                continue
            if not (torch.equal(r0, r_in) and torch.equal(h0, h_in)):
                ctx.violation({"api": "error_rate", "symptom": "argument-modified-in-place", "large": True}, case, {})
                continue
            for n in range(N):
                outs, lr, lh = exp[n]
                d = float(lr) if (norm and lr) else 1.0
                lo, hi = outs[lh][1] / d, outs[lh][2] / d
                if norm and lr == 0:
                    lo = hi = 0.0 if lh == 0 else 1.0
                bad = not (lo - 1e-4 <= er_out[n] <= hi + 1e-4)
                j = lh // 2
                plo, phi = outs[j][1] / d, outs[j][2] / d
                if norm and lr == 0:
                    plo = phi = 0.0 if j == 0 else 1.0
                badp = not (plo - 1e-4 <= pe[n][j] <= phi + 1e-4) or pe[n][lh + 1:] != [float(config.INDEX_PAD_VALUE)] * (H - lh)
                if bad or badp:
                    ctx.violation({"api": "error_rate" if bad else "prefix_error_rates", "large": True,
                                   "symptom": "count-outside-optimal-alignments", "norm": norm, "uniform": uniform},
                                  dict(case, pair=n), {"range": [lo, hi], "observed": er_out[n],
                                                       "prefix": j, "prefix_range": [plo, phi],
                                                       "prefix_observed": pe[n][j]})
                    break
            else:
                ctx.outcome(round(sum(er_out) * 16))
    ctx.sample({"large_instance": {"R": R, "H": H, "N": N, "cost": cost, "layout": "offset non-contiguous views"}})


def run_shard(spec, tier, seed):
    ctx = Ctx()
    if "lifecycle" in spec:
        S.lifecycle_pass(ctx, spec["lifecycle"], seed)
        return ctx
    if spec["kind"] == "large":
        for gs in S.GLOBAL_STATES:  # the same instance under every global torch state: results must not change
            sub = Ctx()
            with S.global_state(gs):
                _large(sub, *spec["dims"], tuple(spec["cost"]), seed, spec.get("id_offset", 0),
                       spec.get("jit", False) and gs == "default")
            for v in sub.violations:
                v["sig"]["global_state"] = gs
            sub.viol_count = type(sub.viol_count)({k.replace("}", ', "global_state": "%s"}' % gs, 1) if k.endswith("}") else k: n
                                                   for k, n in sub.viol_count.items()})
            ctx.merge(sub)
        return ctx
    if spec["kind"] == "mer":
        _mer_shard(ctx, spec["part"], 16, tier, seed)
        return ctx
    R, H = spec["R"], spec["H"]
    pairs, ref, hyp = S.pair_batch(R, H)
    pairs_r, ref_r, hyp_r = S.pair_batch(R, H, reverse=True)
    ctx.sample({"R": R, "H": H, "N": len(pairs), "first_pairs": pairs[:3]})
    ci = 0
    for eos, include_eos in S.eos_cfgs():
        for cost in S.costs(tier):
            ci += 1
            modules = tier == "thorough" or ci % 4 == 0
            if tier == "thorough" or ci % 2 == 0:
                _check_batch(ctx, pairs, ref, hyp, eos, include_eos, cost, tier, "all-pairs", modules)
            if tier == "thorough" or ci % 2 == 1:
                _check_batch(ctx, pairs_r, ref_r, hyp_r, eos, include_eos, cost, tier,
                             "all-pairs-reversed", modules)
    step = 1 if tier == "thorough" else 7
    sub_costs = S.costs(tier)[:: (2 if tier == "thorough" else 3)]
    if tier == "quick" or R + H <= 6:
        for i in range((seed + R + H) % step, len(pairs), step):
            p = [pairs[i]]
            r1 = ref[:, i: i + 1].contiguous()
            h1 = hyp[:, i: i + 1].contiguous()
            for eos, include_eos in S.eos_cfgs():
                for cost in sub_costs:
                    _check_batch(ctx, p, r1, h1, eos, include_eos, cost, "quick", "single", False)
    return ctx


def replay(case):
    ctx = Ctx()
    if case.get("kind") == "lifecycle":
        S.lifecycle_pass(ctx, [case["module"]], case.get("seed", 0))
        return ctx
    if case["kind"] == "large":
        _large(ctx, case["R"], case["H"], case["N"], tuple(case["cost"]), case["seed"], case.get("id_offset", 0),
               case.get("jit", False))
        return ctx
    if case["kind"] == "mer":
        _mer_case(ctx, case["refs"], case["hyps"], case["logp"], case["eos"], case["include_eos"],
                  (case["ins_cost"], case["del_cost"], case["sub_cost"]), case["norm"], case["sub_avg"],
                  case["batch_first"], case["ref3d"], case["reduction"])
        return ctx
    ref = torch.tensor(case["ref"], dtype=torch.long).view(len(case["ref"]), 1)
    hyp = torch.tensor(case["hyp"], dtype=torch.long).view(len(case["hyp"]), 1)
    pair = [(tuple(case["ref"]), tuple(case["hyp"]))]
    _check_batch(ctx, pair, ref, hyp, case["eos"], case["include_eos"], tuple(case["cost"]),
                 "thorough", "replay", True)
    return ctx
