"""C19 helper: object lifecycle.  The distribution / estimator / control-variate object that reaches
a call is rarely the one the constructor returned: it was copy.copy'd, deep-copied, pickled
(DataLoader workers, DDP) or went through torch.save / torch.load, possibly after it had been used
(lazily computed attributes travel along).  Every such variant must behave exactly like an object
freshly constructed from the ORIGINAL parameters - a copy that is merely self-consistent (another
distribution) is the failure this family looks for.  All randomness is scripted (same draws for
the fresh object and for the variant)."""

import copy
import io
import math
import pickle

import torch

import pydrobert.torch.distributions as D
import pydrobert.torch.estimators as E
import pydrobert.torch.modules as M

from mc.explore import Chooser
from mc.guards import lifecycle_variants
from mc.runner import h64
from mc.seams import ScriptedRandom
from mc.oracles import estimators as O

DT = {"float32": torch.float32, "float64": torch.float64}
NINF = -float("inf")


# ---------------------------------------------------------------------------------------
# picklable callables (lambdas cannot be pickled)
class Fn:
    """elem: t0 + (t1 - t0) * b  |  dot: (b * t).sum(-1)  |  index: t[b]  |  sq: 1 + (b.sum(-1) - 1.5)^2;
    log=True returns the logarithm (values must be positive)"""

    def __init__(self, kind, vals, log=False):
        self.kind, self.vals, self.log = kind, vals, log

    def __call__(self, b):
        t = None if self.vals is None else torch.tensor(self.vals, dtype=b.dtype if b.is_floating_point() else torch.float32)
        if self.kind == "elem":
            out = t[0] + (t[1] - t[0]) * b
        elif self.kind == "dot":
            out = (b * t).sum(-1)
        elif self.kind == "index":
            out = t[b.long()]
        else:
            out = 1.0 + (b.sum(-1) - 1.5) ** 2
        return out.log() if self.log else out


class SmoothCV:
    """a bounded smooth control variate on relaxed samples"""

    def __init__(self, a, d, event):
        self.a, self.d, self.event = a, d, event

    def __call__(self, z):
        t = torch.tanh(z * 0.7)
        return self.d + self.a * (t.sum(-1) if self.event else t)


def _same(a, b, tol=1e-6):
    if isinstance(a, torch.Tensor) and isinstance(b, torch.Tensor):
        if a.shape != b.shape or a.dtype != b.dtype:
            return False
        a, b = a.detach().double(), b.detach().double()
        eq = (a == b) | ((a != a) & (b != b)) | ((a - b).abs() <= tol * (1 + a.abs().clamp_max(1e30)))
        return bool(eq.all())
    return a == b


def _first_diff(ref, got):
    for k in ref:
        if k not in got or not _same(ref[k], got[k]):
            r, g = ref[k], got.get(k)
            return k, (r.tolist() if isinstance(r, torch.Tensor) else r), (g.tolist() if isinstance(g, torch.Tensor) else g)
    return None


def _twin_used(o):
    return o.probs, o.logits, o.mean  # fills the lazily computed attributes, as use of the real object does


def _variants(make, used, twin_make=None):
    """(name, object | None, error | None, refused_by_torch).  copy.copy and used+copy are added to the
    framework's list.  An operation that raises is looked up on a torch-only twin object built from the
    same tensors: if torch itself refuses (deepcopy of a tensor with a grad_fn), the variant is
    skipped and counted, otherwise the raise is the library's."""
    ops = [
        ("copy", lambda: copy.copy(make())),
        ("deepcopy", lambda: copy.deepcopy(make())),
        ("pickle", lambda: pickle.loads(pickle.dumps(make()))),
        ("torch.save", lambda: _save_load(make())),
        ("used+deepcopy", lambda: copy.deepcopy(_use(make(), used))),
        ("used+copy", lambda: copy.copy(_use(make(), used))),
        ("used+pickle", lambda: pickle.loads(pickle.dumps(_use(make(), used)))),
    ]
    tops = {
        "copy": copy.copy, "deepcopy": copy.deepcopy, "pickle": lambda o: pickle.loads(pickle.dumps(o)),
        "torch.save": _save_load, "used+deepcopy": copy.deepcopy, "used+copy": copy.copy,
        "used+pickle": lambda o: pickle.loads(pickle.dumps(o)),
    }
    for name, op in ops:
        try:
            yield name, op(), None, False
        except Exception as ex:  # noqa: BLE001
            refused = False
            if twin_make is not None:
                try:
                    tw = twin_make()
                    if name.startswith("used+"):
                        _twin_used(tw)
                    tops[name](tw)
                except Exception as ex2:  # noqa: BLE001
                    refused = type(ex2) is type(ex)
            yield name, None, ex, refused


def _save_load(o):
    buf = io.BytesIO()
    torch.save(o, buf)
    buf.seek(0)
    return torch.load(buf, weights_only=False)


def _use(o, used):
    used(o)
    return o


# ---------------------------------------------------------------------------------------
def _param_tensor(vals, mode, dtype, par, dist):
    vals = [NINF if v is None else v for v in vals] if not isinstance(vals[0], list) else \
        [[NINF if v is None else v for v in row] for row in vals]
    t = torch.tensor(vals, dtype=dtype)
    if mode == "plain":
        return t
    t.requires_grad_(True)
    if mode == "leaf_grad":
        return t
    return t * 1.0  # non-leaf: carries a grad_fn, same values


def _make_dist(cfg, twin=False):
    dtype = DT[cfg["dtype"]]
    kind = cfg["dist"]
    va = cfg.get("validate")
    if kind == "srswor":
        g, t = cfg["params"]
        if cfg.get("tensor_counts"):
            g, t = torch.tensor(g), torch.tensor(t)
        return D.SimpleRandomSamplingWithoutReplacement(g, t, cfg.get("out"), validate_args=va)
    p = _param_tensor(cfg["params"], cfg["mode"], dtype, cfg["par"], kind)
    if kind == "logistic":
        cls = torch.distributions.Bernoulli if twin else D.LogisticBernoulli
    else:
        cls = torch.distributions.OneHotCategorical if twin else D.GumbelOneHotCategorical
    return cls(**{cfg["par"]: p}, validate_args=va)


def _probe_dist(d, cfg):
    """everything observable of a relaxed distribution, under scripted noise"""
    dtype = DT[cfg["dtype"]]
    out = {"batch_shape": tuple(d.batch_shape), "event_shape": tuple(d.event_shape), "validate": d._validate_args,
           "class": type(d).__name__}
    if cfg["dist"] == "srswor":
        out["total"], out["given"] = d.total_count, d.given_count
        out["has_enum"] = bool(d.has_enumerate_support)
        for i, prefix in enumerate(([], [1], [0, 1], [1, 0, 1])):
            with ScriptedRandom(Chooser(prefix)):
                b = d.sample([2])
            out[f"sample{i}"] = b
            out[f"log_prob{i}"] = d.log_prob(b)
            out[f"insup{i}"] = d.support.check(b)
        if out["has_enum"]:
            sup = d.enumerate_support()
            out["support"] = sup
            out["support_lp"] = d.log_prob(sup)
        out["mean"] = d.mean
        return out
    shape = tuple(d.batch_shape) + tuple(d.event_shape)
    n = 1
    for s in shape:
        n *= s
    noises = [((torch.arange(n, dtype=torch.float64) * 0.37 + off) % 1.0).clamp(0.02, 0.98).view(shape)
              for off in (0.11, 0.53)]
    for i, nz in enumerate(noises):
        def uni(sh, dt, device, label, ch, nz=nz):
            return nz.expand(sh).to(dt).contiguous()

        with ScriptedRandom(Chooser(), uniform=uni):
            z = d.rsample()
            z2 = d.rsample([2])
            b = d.threshold(z)
            zc = d.csample(b)
        out[f"z{i}"], out[f"z2_{i}"], out[f"b{i}"], out[f"zc{i}"] = z, z2, b, zc
        out[f"log_prob{i}"] = d.log_prob(z)
        out[f"tlog{i}"] = d.tlog_prob(b)
        out[f"clog{i}"] = d.clog_prob(zc, b)
        out[f"log_prob_c{i}"] = d.log_prob(zc)
        out[f"st{i}"] = d.threshold(z, True)
    if cfg["dist"] == "gumbel":
        eye = torch.eye(shape[-1], dtype=dtype)
        out["tlog_eye"] = torch.stack([d.tlog_prob(eye[k].expand(shape)) for k in range(shape[-1])])
    else:
        out["tlog01"] = torch.stack([d.tlog_prob(torch.full(shape, v, dtype=dtype)) for v in (0.0, 1.0)])
    out["probs"], out["logits"] = d.probs, d.logits
    out["mean"], out["stddev"], out["entropy"] = d.mean, d.stddev, d.entropy()
    e = d.expand((2,) + tuple(d.batch_shape))
    out["expanded_probs"] = e.probs
    return out


def run_life_dist(ctx, cfg):
    case = {"kind": "life_dist", "cfg": cfg}
    sig0 = {"api": cfg["dist"], "lifecycle": True, "par": cfg.get("par"), "mode": cfg.get("mode")}
    make = lambda: _make_dist(cfg)
    twin = (lambda: _make_dist(cfg, twin=True)) if cfg["dist"] != "srswor" else None
    try:
        ref = _probe_dist(make(), cfg)
    except Exception as ex:  # noqa: BLE001
        ctx.case(1)
        ctx.violation(dict(sig0, symptom="raises", variant="fresh", type=type(ex).__name__), case, {"error": repr(ex)[-300:]})
        return
    used = lambda o: _probe_dist(o, cfg)
    for name, obj, err, refused in _variants(make, used, twin):
        ctx.case(1, nontrivial=1)
        if err is not None:
            if refused:
                ctx.count("lifecycle_op_refused_by_torch")
                continue
            ctx.violation(dict(sig0, symptom="lifecycle-op-raises", variant=name, type=type(err).__name__),
                          dict(case, variant=name), {"error": repr(err)[-300:]})
            continue
        try:
            got = _probe_dist(obj, cfg)
        except Exception as ex:  # noqa: BLE001
            ctx.violation(dict(sig0, symptom="raises-after-lifecycle-op", variant=name, type=type(ex).__name__),
                          dict(case, variant=name), {"error": repr(ex)[-300:]})
            continue
        diff = _first_diff(ref, got)
        if diff:
            ctx.violation(dict(sig0, symptom="copy-differs-from-original", variant=name, what=diff[0].rstrip("0123456789_")),
                          dict(case, variant=name), {"quantity": diff[0], "fresh": diff[1], "variant": diff[2]})
        else:
            ctx.outcome(("life", cfg["dist"], name))
        ctx.count("lifecycle_variants_compared")
    ctx.key(("life_dist", h64(cfg)))


# ---------------------------------------------------------------------------------------
def _make_est(cfg):
    """estimator objects over plain (no-grad) parameters; every callable is picklable"""
    k = cfg["est"]
    dtype = DT[cfg.get("dtype", "float32")]
    is_log = cfg.get("is_log", False)
    t = lambda v: torch.tensor(v, dtype=dtype)
    pk = cfg["prop"]
    if pk == "bern":
        prop = torch.distributions.Bernoulli(**{cfg["par"]: t(cfg["theta"])})
        f = Fn("elem", cfg["f"], is_log)
    elif pk == "onehot":
        prop = torch.distributions.OneHotCategorical(**{cfg["par"]: t(cfg["theta"])})
        f = Fn("dot", cfg["f"], is_log)
    elif pk == "cat":
        prop = torch.distributions.Categorical(**{cfg["par"]: t(cfg["theta"])})
        f = Fn("index", cfg["f"], is_log)
    elif pk == "srswor":
        prop = D.SimpleRandomSamplingWithoutReplacement(cfg["theta"][0], cfg["theta"][1])
        f = Fn("sq", None, is_log)
    elif pk == "logistic":
        prop = D.LogisticBernoulli(**{cfg["par"]: t(cfg["theta"])})
        f = Fn("elem", cfg["f"], is_log)
    else:
        prop = D.GumbelOneHotCategorical(**{cfg["par"]: t(cfg["theta"])})
        f = Fn("dot", cfg["f"], is_log)
    N = cfg.get("N", 1)
    if k == "direct":
        if cfg.get("cv"):
            cv = Fn("elem" if pk == "bern" else "dot", cfg["cv"], is_log)
            return E.DirectEstimator(prop, f, N, cv, t(cfg["cv_mean"]), is_log)
        return E.DirectEstimator(prop, f, N, is_log=is_log)
    if k == "is":
        dens = prop if cfg.get("same") else type(prop)(**{cfg["par"]: t(cfg["theta2"])})
        return E.ImportanceSamplingEstimator(prop, f, N, dens, cfg.get("self_normalize", False), is_log)
    if k == "enum":
        return E.EnumerateEstimator(prop, f, is_log)
    if k == "imh":
        kw = {}
        if cfg.get("initial") is not None:
            kw["initial_sample"] = t(cfg["initial"])
        return E.IndependentMetropolisHastingsEstimator(prop, f, N, prop, cfg.get("burn_in", 0), is_log=is_log, **kw)
    if k == "st":
        return E.StraightThroughEstimator(prop, f, N, is_log)
    if cfg["cvk"] == "rebar":
        cls = M.LogisticBernoulliRebarControlVariate if pk == "logistic" else M.GumbelOneHotCategoricalRebarControlVariate
        cv = cls(f, cfg["lam"], cfg["eta"]).to(dtype)
    else:
        cv = SmoothCV(0.1 if is_log else 0.8, 0.5, pk != "logistic")
        if is_log:
            cv = _LogOf(cv)
    return E.RelaxEstimator(prop, f, N, cv, is_log=is_log)


class _LogOf:
    def __init__(self, fn):
        self.fn = fn

    def __call__(self, z):
        return self.fn(z).log()


PREFIXES = ([], [1], [0, 1], [1, 1, 0, 1], [2, 0, 3, 1])


def _call_est(est):
    """the estimator's value on a handful of scripted draw sequences (categorical / Bernoulli draws and
    uniform menu indices follow the prefix, then answer 0)"""
    out = {"class": type(est).__name__, "is_log": est.is_log}
    menu = (0.25, 0.5, 0.75, 0.125, 0.9)
    for i, prefix in enumerate(PREFIXES):
        class Ch(Chooser):
            def choose(self, n, label="", probs=None):
                j = len(self.trace)
                c = (self.prefix[j] if j < len(self.prefix) else (j % 2)) % n
                self.trace.append((label, n, c, None))
                return c

        with ScriptedRandom(Ch(prefix), uniform=menu):
            out[f"v{i}"] = est()
    return out


def run_life_est(ctx, cfg):
    case = {"kind": "life_est", "cfg": cfg}
    sig0 = {"api": cfg["est"], "lifecycle": True, "proposal": cfg["prop"], "par": cfg.get("par")}
    make = lambda: _make_est(cfg)
    try:
        ref = _call_est(make())
    except Exception as ex:  # noqa: BLE001
        ctx.case(1)
        ctx.violation(dict(sig0, symptom="raises", variant="fresh", type=type(ex).__name__), case, {"error": repr(ex)[-300:]})
        return
    for name, obj, err, refused in _variants(make, lambda o: o(), None):
        ctx.case(len(PREFIXES), nontrivial=len(PREFIXES))
        if err is not None:
            ctx.violation(dict(sig0, symptom="lifecycle-op-raises", variant=name, type=type(err).__name__),
                          dict(case, variant=name), {"error": repr(err)[-300:]})
            continue
        try:
            got = _call_est(obj)
        except Exception as ex:  # noqa: BLE001
            ctx.violation(dict(sig0, symptom="raises-after-lifecycle-op", variant=name, type=type(ex).__name__),
                          dict(case, variant=name), {"error": repr(ex)[-300:]})
            continue
        diff = _first_diff(ref, got)
        if diff:
            ctx.violation(dict(sig0, symptom="copy-differs-from-original", variant=name, what="value"),
                          dict(case, variant=name), {"quantity": diff[0], "fresh": diff[1], "variant": diff[2]})
        else:
            ctx.outcome(("life-est", cfg["est"], cfg["prop"], name))
        ctx.count("lifecycle_variants_compared")
    ctx.key(("life_est", h64(cfg)))


# ---------------------------------------------------------------------------------------
def run_life_cv(ctx, cfg):
    """the REBAR control-variate modules (current and deprecated) through the framework's module
    lifecycle list (deepcopy, pickle, torch.save, eval+deepcopy, state_dict, state_dict-after-use,
    double-float, state_dict-into-other) plus copy.copy; falsy start_eta = 0.0 included"""
    case = {"kind": "life_cv", "cfg": cfg}
    sig0 = {"api": cfg["cls"], "lifecycle": True}
    event = not (cfg["cls"] == "logistic" or cfg.get("legacy_dist") == "bern")
    f = Fn("dot" if event else "elem", cfg["f"])

    def build(lam, eta):
        if cfg["cls"] == "logistic":
            return M.LogisticBernoulliRebarControlVariate(f, lam, eta)
        if cfg["cls"] == "gumbel":
            return M.GumbelOneHotCategoricalRebarControlVariate(f, lam, eta)
        return E.REBARControlVariate(f, cfg["legacy_dist"], lam, eta, warn=False)

    make = lambda: build(cfg["lam"], cfg["eta"])
    make_other = lambda: build(cfg["lam"] * 3.0, 1.0 - cfg["eta"])
    z = torch.tensor([[0.3, -1.2, 2.0], [-0.4, 0.1, 0.9]])
    used = lambda m: m(z)
    ref = make()(z)

    def compare(name, obj):
        ctx.case(1, nontrivial=1)
        try:
            got = obj(z)
        except Exception as ex:  # noqa: BLE001
            ctx.violation(dict(sig0, symptom="raises-after-lifecycle-op", variant=name, type=type(ex).__name__),
                          dict(case, variant=name), {"error": repr(ex)[-300:]})
            return
        if not _same(ref, got):
            ctx.violation(dict(sig0, symptom="copy-differs-from-original", variant=name, what="forward"),
                          dict(case, variant=name), {"fresh": ref.tolist(), "variant": got.tolist()})
        ctx.count("lifecycle_variants_compared")

    try:
        for name, obj in lifecycle_variants(make, used, make_other=make_other):
            # (state_dict-into-other: forward depends on the two parameters and f only, so the module
            # must compute exactly what make() computes once the weights are loaded)
            compare(name, obj)
        compare("copy", copy.copy(make()))
    except Exception as ex:  # noqa: BLE001
        ctx.violation(dict(sig0, symptom="lifecycle-op-raises", type=type(ex).__name__), case, {"error": repr(ex)[-300:]})
    ctx.key(("life_cv", h64(cfg)))
