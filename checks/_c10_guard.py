"""C10, guards (CHECK_AUTHORING.md "Bug classes every check must cover"): for slice_spect_data and
chunk_token_sequences_by_slices, on a reduced but structured input family and every configuration:

  1. arguments unchanged after every call (also for inputs whose column views are already contiguous:
     refs of shape (1,1,3), refs built with the triple dimension outermost, slices built as stack([s,e]).T)
  2. a kept result unchanged after the next call
  3. layouts: offset views, transposed-dense, int32 lengths / alignments / slices, float64 features
  4. ONE module object per group reused for calls with other N / T / R and lengths given or omitted
  5. contents beyond in_lens / ref_lens are garbage (negative, huge, non-finite, or plausible)
  6. one larger instance
 14. object lifecycle: deepcopy / pickle / torch.save / copy after use / copy in eval mode / load_state_dict of a
     same-configuration state dict into a fresh and into a used module / .double().float() of both modules for
     every option combination (falsy ones included: valid_only False, lobe_size 0, partial / retain False) must
     behave like a fresh object of the same configuration; a state dict loaded into a module of ANOTHER
     configuration must leave one of the two configurations as a whole, never a mixture
Every call is also compared with the oracle.
"""

import json
from collections import Counter

import torch

import pydrobert.torch.functional as F
import pydrobert.torch.modules as M

from mc.guards import Unchanged, Kept, GuardViolation, lifecycle_variants
from mc.oracles import slicing as O

HUGE = 2 ** 62
ALI_GARBAGE = (-7, HUGE, -HUGE, 1, 0, 2)
SEG_GARBAGE = ((0, 1), (-5, -3), (HUGE, HUGE), (0, HUGE), (-HUGE, 3), (1, 2), (2, 2), (3, 1))
REF_OTHERS = (0, 3, 6)


def shards(tier, seed):
    out = []
    for policy in O.POLICIES:
        for l in (0, 1, 2):
            out.append({"part": "guard", "kind": "slicer", "policy": policy, "lobe": l})
    for partial in (False, True):
        for retain in (False, True):
            out.append({"part": "guard", "kind": "tok", "partial": partial, "retain": retain})
    return out


def run_shard(ctx, spec, tier, seed):
    if spec["kind"] == "slicer":
        for wt in O.WINDOW_TYPES:
            for v in (True, False):
                run_group(ctx, {"kind": "slicer", "policy": spec["policy"], "cfg": [wt, v, spec["lobe"]]}, seed)
    else:
        run_group(ctx, {"kind": "tok", "partial": spec["partial"], "retain": spec["retain"]}, seed)


def run_group(ctx, call, seed):
    if call["kind"] == "slicer":
        _slicer_group(ctx, call, seed)
    else:
        _tok_group(ctx, call, seed)


# ----------------------------------------------------------------------------- environments
def _invoke(name, fn):
    """run fn() under the ambient setting a variant names (results must not depend on it)."""
    if name == "float64-default":
        old = torch.get_default_dtype()
        torch.set_default_dtype(torch.float64)
        try:
            return fn()
        finally:
            torch.set_default_dtype(old)
    if name == "inference-mode":
        with torch.inference_mode():
            return fn()
    return fn()


# --------------------------------------------------------------------------------- layouts
def _layout(t, kind):
    if t is None:
        return None
    if kind == "offset-view":
        junk = torch.full((2,) + tuple(t.shape[1:]), 3, dtype=t.dtype)
        return torch.cat([junk, t], 0)[2:]
    if kind == "transposed-dense" and t.dim() >= 2:
        return t.transpose(0, 1).contiguous().transpose(0, 1)
    if kind == "triple-outermost" and t.dim() == 3 and t.size(2) == 3:
        return torch.stack([t[..., 0].contiguous(), t[..., 1].contiguous(), t[..., 2].contiguous()]).permute(1, 2, 0)
    if kind == "stack-T" and t.dim() == 2 and t.size(1) == 2:
        return torch.stack([t[:, 0].contiguous(), t[:, 1].contiguous()]).T
    return t.clone()


# ================================================================================= slicer
def _slicer_base(policy, seed, large=False):
    """python-level rows: xs[n] (frames / labels / triples), lens[n], others[n] (ref only)."""
    from checks import c10 as C

    if policy == "fixed":
        T = 300 if large else 6
        lens = [T, 123, 0, 1] if large else list(range(T + 1))
        xs = [[[float(seed + t), 0.5 * n] for t in range(T)] for n in range(len(lens))]
        return xs, lens, None, T
    if policy == "ali":
        if large:
            T = 200
            lens = [200, 77, 1, 0]
            xs = [[((t * t) // (5 + n)) % 3 for t in range(T)] for n in range(len(lens))]
        else:
            T = 4
            rows = C._ali_rows(T, "all")
            xs, lens = [list(a) for a, _ in rows], [n for _, n in rows]
        return xs, lens, None, T
    if large:
        T = 40
        lens = [40, 17, 0]
        xs = [[[7 + t, (t * 3 + n) % 50 - 1, (t * 3 + n) % 50 - 1 + t % 4] for t in range(T)] for n in range(3)]
        return xs, lens, [60, 30, 5], T
    T = 2
    rows = C._ref_rows(None, list(REF_OTHERS), width=T)
    xs = [[[seed + 5 + t, sg[0], sg[1]] for t, sg in enumerate(segs)] for segs, _, _ in rows]
    return xs, [i for _, i, _ in rows], [o for _, _, o in rows], T


def _slicer_expected(policy, xs, lens, others, wt, v, l):
    if policy == "fixed":
        return [[(w, True) for w in O.fixed_windows(n, wt, v, l)] for n in lens]
    if policy == "ali":
        return [[(w, True) for w in O.ali_windows(x, n, wt, v, l)] for x, n in zip(xs, lens)]
    return [O.ref_windows([(s, e) for _, s, e in x], n, o, wt, v, l) for x, n, o in zip(xs, lens, others)]


def _garbage_tail(policy, xs, lens):
    out = []
    k = 0
    for x, n in zip(xs, lens):
        x = [list(f) if isinstance(f, list) else f for f in x]
        for t in range(n, len(x)):
            k += 1
            if policy == "fixed":
                x[t] = [(float("nan"), float("inf"), float("-inf"), 1e30)[k % 4]] * 2
            elif policy == "ali":
                x[t] = ALI_GARBAGE[k % len(ALI_GARBAGE)]
            else:
                g = SEG_GARBAGE[k % len(SEG_GARBAGE)]
                x[t] = [(-9, HUGE, 4)[k % 3], g[0], g[1]]
        out.append(x)
    return out


def _slicer_tensors(policy, xs, lens, others, T, dtype=None):
    N = len(xs)
    if policy == "fixed":
        x = torch.tensor(xs, dtype=dtype or torch.float).view(N, T, 2)
    elif policy == "ali":
        x = torch.tensor(xs, dtype=dtype or torch.long).view(N, T)
    else:
        x = torch.tensor(xs, dtype=torch.long).view(N, T, 3)
    il = torch.tensor(lens, dtype=torch.long)
    ol = None if others is None else torch.tensor(others, dtype=torch.long)
    return x, il, ol


SLICER_VARIANTS = [
    # name, through the shared module object?
    ("plain", False), ("plain", True), ("rows-reversed", True), ("full-rows-in_lens-omitted", True), ("single-row", True),
    ("plain-after-other-shapes", True), ("offset-view", False), ("transposed-dense", True),
    ("triple-outermost", False), ("int32-lens", True), ("other-input-dtype", False),
    ("garbage-beyond-in_lens", True), ("garbage-beyond-in_lens+offset-view", False), ("larger-instance", True),
    ("float64-default", False), ("inference-mode", True),
    # compiled forms of the module (tests/test_feats.py exercises both); example input of another shape / values
    ("scripted", "script"), ("rows-reversed-scripted", "script"), ("full-rows-in_lens-omitted-scripted", "script"),
    ("traced", "trace"), ("rows-reversed-traced", "trace"),
]


def _slicer_group(ctx, call, seed):
    from checks import c10 as C

    policy = call["policy"]
    wt, v, l = call["cfg"]
    case = {"part": "guard", "call": call, "seed": seed}
    base = _slicer_base(policy, seed)
    big = _slicer_base(policy, seed, large=True)
    module = M.SliceSpectData(policy, wt, v, l)  # ONE object for the whole history
    scripted = traced = None
    kept = kept_mod = None
    middle = (lambda a, b: O.fixed_middle(wt, l, a, b)) if policy == "fixed" else None
    variants = list(SLICER_VARIANTS)
    if policy == "ref":  # refs of shape (1, 1, 3): the boundary columns are contiguous views
        variants += [("one-token-" + str(i), i % 2 == 0) for i in range(len(C.SEGS) * len(REF_OTHERS))]
    for name, use_module in variants:
        xs, lens, others, T = big if name == "larger-instance" else base
        dtype = None
        if name.startswith("one-token-"):
            i = int(name.split("-")[-1])
            sg, o = C.SEGS[i // len(REF_OTHERS)], REF_OTHERS[i % len(REF_OTHERS)]
            xs, lens, others, T = [[[seed + 5, sg[0], sg[1]]]], [1], [o], 1
        elif name.startswith("full-rows-in_lens-omitted"):
            keep = [n for n in range(len(xs)) if lens[n] == T]
            xs, lens = [xs[n] for n in keep], [lens[n] for n in keep]
            others = None if others is None else [others[n] for n in keep]
        elif name.startswith("rows-reversed"):  # same shapes as the call before it, other values
            xs, lens, others = xs[::-1], lens[::-1], None if others is None else others[::-1]
        elif name == "single-row":
            n = (len(xs) * 2) // 3
            xs, lens, others = [xs[n]], [lens[n]], None if others is None else [others[n]]
        elif name == "triple-outermost" and policy != "ref":
            continue
        elif name == "other-input-dtype":
            if policy == "ref":
                continue
            dtype = torch.float64 if policy == "fixed" else torch.int32
        exp = _slicer_expected(policy, xs, lens, others, wt, v, l)
        if name.startswith("garbage"):
            xs = _garbage_tail(policy, xs, lens)
        x, il, ol = _slicer_tensors(policy, xs, lens, others, T, dtype)
        for kind in ("offset-view", "transposed-dense", "triple-outermost"):
            if name.endswith(kind):
                x, il, ol = _layout(x, kind), _layout(il, kind), _layout(ol, kind)
        if name == "int32-lens":
            il, ol = il.int(), None if ol is None else ol.int()
        if name.startswith("full-rows-in_lens-omitted"):
            il = None
        if use_module == "trace" and ol is None:
            ol = il.clone()  # a traced module takes all three tensors (unused by this policy)
        sig0 = {"api": "slice_spect_data", "policy": policy, "window_type": wt, "valid_only": v,
                "lobe_pos": l > 0, "variant": "one-token" if name.startswith("one-token") else name,
                "via_module": use_module}
        vcase = dict(case, variant=name)
        ctx.case(len(xs), sum(1 for r in exp if r))
        try:
            with Unchanged(x, il, ol):
                if use_module == "script":
                    if scripted is None:
                        scripted = torch.jit.script(M.SliceSpectData(policy, wt, v, l))
                    out = scripted(x, il, ol)
                elif use_module == "trace":
                    if traced is None:
                        ex = torch.zeros((1, T + 3) + tuple(x.shape[2:]), dtype=x.dtype)
                        one = torch.ones(1, dtype=torch.long)
                        traced = torch.jit.trace(M.SliceSpectData(policy, wt, v, l), (ex, one, one.clone()))
                    out = traced(x, il, ol)
                elif use_module:
                    out = _invoke(name, lambda: module(x, il, ol))
                else:
                    out = _invoke(name, lambda: F.slice_spect_data(x, il, ol, policy, wt, v, l))
            slices, sources = C._unpack(out)
        except GuardViolation as e:
            ctx.violation(dict(sig0, symptom="argument-modified"), vcase, {"error": str(e)})
            kept = kept_mod = None
            continue
        except Exception as e:
            ctx.violation(dict(sig0, symptom="raises", type=type(e).__name__), vcase, C._raise_detail(e))
            kept = kept_mod = None
            continue
        for k in (kept, kept_mod):
            if k is not None:
                try:
                    k.check()
                except GuardViolation as e:
                    ctx.violation(dict(sig0, symptom="kept-result-changed-by-later-call"), vcase, {"error": str(e)})
        kept = Kept(*out)
        if use_module:
            kept_mod = kept
        frames = lens if policy != "ref" else others
        C._judge_rows(ctx, sig0, vcase, exp, frames, v, slices, sources, middle=middle, max_outcomes=50)
    _slicer_lifecycle(ctx, call, seed, base)


# ============================================================================== lifecycle
LIFECYCLE_KINDS = ("deepcopy", "pickle", "torch.save", "used+deepcopy", "eval+deepcopy", "state_dict",
                   "state_dict-after-use", "double-float", "state_dict-into-other")


def _lifecycle(ctx, sig0, case, make, used, make_other, run, same_as):
    """run(obj) -> observed (python) or raises; same_as(observed) -> 'make' / 'other' / None."""
    for kind in LIFECYCLE_KINDS:
        vcase = dict(case, variant="lifecycle:" + kind)
        it = lifecycle_variants(make, used, [kind], make_other)
        while True:
            try:
                name, obj = next(it)
            except StopIteration:
                break
            except Exception as e:  # the lifecycle operation itself failed
                ctx.case(1, 1)
                ctx.violation(dict(sig0, symptom="lifecycle-operation-raises", variant=kind, type=type(e).__name__),
                              vcase, {"error": f"{type(e).__name__}: {str(e)[-300:]}"})
                break
            ctx.case(1, 1)
            ctx.count("lifecycle_variants")
            try:
                obs = run(obj)
            except Exception as e:
                ctx.violation(dict(sig0, symptom="raises", variant="lifecycle:" + name, type=type(e).__name__), vcase,
                              {"error": f"{type(e).__name__}: {str(e)[-300:]}"})
                continue
            verdict = same_as(obs)
            ok = verdict == "make" or (name == "state_dict-into-other" and verdict == "other")
            if name == "state_dict-into-other" and ok:
                ctx.count("state_dict_into_other_keeps_" + ("loaded" if verdict == "make" else "own") + "_configuration")
            if not ok:
                ctx.violation(dict(sig0, symptom="lifecycle-variant-differs-from-fresh-object", variant=name), vcase,
                              {"behaves_like": verdict or "neither configuration as a whole",
                               "observed_head": obs[:2] if isinstance(obs, (list, tuple)) else None})


def _slicer_lifecycle(ctx, call, seed, base):
    from checks import c10 as C

    policy = call["policy"]
    wt, v, l = call["cfg"]
    xs, lens, others, T = base
    step = max(1, len(xs) // 500)
    xs, lens = xs[::step], lens[::step]
    others = None if others is None else others[::step]
    x, il, ol = _slicer_tensors(policy, xs, lens, others, T)
    owt = O.WINDOW_TYPES[(O.WINDOW_TYPES.index(wt) + 1) % 3]
    other_cfg = (owt, not v, (l + 1) % 3)
    exp = {"make": _slicer_expected(policy, xs, lens, others, wt, v, l),
           "other": _slicer_expected(policy, xs, lens, others, *other_cfg)}

    def run(m):
        return C._unpack(m(x.clone(), il.clone(), None if ol is None else ol.clone()))

    def same_as(obs):
        rows, err = C._group(obs[0], obs[1], len(xs))
        if err is None:
            for who in ("make", "other"):
                if all(O.admits(e, r) for e, r in zip(exp[who], rows)):
                    return who
        return None

    sig0 = {"api": "SliceSpectData", "policy": policy, "window_type": wt, "valid_only": v, "lobe_pos": l > 0}
    _lifecycle(ctx, sig0, {"part": "guard", "call": call, "seed": seed},
               lambda: M.SliceSpectData(policy, wt, v, l), lambda m: run(m),
               lambda: M.SliceSpectData(policy, *other_cfg), run, same_as)


def _tok_lifecycle(ctx, call, seed, base):
    partial, retain = call["partial"], call["retain"]
    rows = base[::11]
    N, R = len(rows), len(rows[0][0])
    refs = torch.tensor([r[0] for r in rows], dtype=torch.long).view(N, R, 3)
    slices = torch.tensor([[a, b] for _, _, a, b in rows], dtype=torch.long).view(N, 2)
    ref_lens = torch.tensor([n for _, n, _, _ in rows], dtype=torch.long)
    exp = {"make": [O.chunk_tokens(ref, n, a, b, partial, retain) for ref, n, a, b in rows],
           "other": [O.chunk_tokens(ref, n, a, b, not partial, not retain) for ref, n, a, b in rows]}

    def run(m):
        chunked, clens = m(refs.clone(), slices.clone(), ref_lens.clone())
        chunked, clens = chunked.tolist(), clens.tolist()
        return [[tuple(t) for t in chunked[n][: clens[n]]] for n in range(N)]

    def same_as(obs):
        # the known finding F6 (boundaries + slice start) is judged elsewhere: compare kept tokens, and
        # boundaries only up to the documented / observed shift convention of a fresh object
        fresh = {"make": run(M.ChunkTokenSequencesBySlices(partial, retain)),
                 "other": run(M.ChunkTokenSequencesBySlices(not partial, not retain))}
        for who in ("make", "other"):
            ids_ok = all([t[0] for t in o] == [t[0] for t in e]
                         for o, e, (_, _, a, b) in zip(obs, exp[who], rows) if a < b)  # a >= b: degenerate slice
            if obs == fresh[who] and ids_ok:
                return who
        return None

    sig0 = {"api": "ChunkTokenSequencesBySlices", "partial": partial, "retain": retain}
    _lifecycle(ctx, sig0, {"part": "guard", "call": call, "seed": seed},
               lambda: M.ChunkTokenSequencesBySlices(partial, retain), lambda m: run(m),
               lambda: M.ChunkTokenSequencesBySlices(not partial, not retain), run, same_as)


# ================================================================================= tokens
def _tok_base(seed, large=False):
    """rows (ref triples (width R), ref_len, a, b)."""
    from checks import c10 as C

    if large:
        R = 40
        ref = [(100 + t, (t * 3) % 50 - 1, (t * 3) % 50 - 1 + t % 4) for t in range(R)]
        return [(ref, n, a, b) for n in (40, 17, 0) for a, b in ((0, 50), (10, 30), (-3, 12), (25, 25))]
    toks = [seed + 10, seed + 20, seed + 30]
    rows = []
    for segs, n, a, b in C._tok_rows(2, None, "padded")[::2]:
        rows.append(([(toks[t], sg[0], sg[1]) for t, sg in enumerate(segs)], n, a, b))
    return rows


def _tok_garbage(rows):
    out = []
    k = 0
    for ref, n, a, b in rows:
        ref = list(ref)
        for t in range(n, len(ref)):
            k += 1
            g = SEG_GARBAGE[k % len(SEG_GARBAGE)]
            if k % 5 == 0:
                g = (max(a, 0), max(b, a, 0))  # a token the slice would keep
            ref[t] = (ref[t][0], g[0], g[1])
        out.append((ref, n, a, b))
    return out


def _tsig(sig0, sym):
    if sym == "boundary == original + slice_start":  # known finding F6: one class, whatever the variant
        return {"api": sig0["api"], "partial": sig0["partial"], "retain": sig0["retain"], "symptom": sym}
    return dict(sig0, symptom=sym)


TOK_VARIANTS = [
    ("plain", False), ("plain", True), ("rows-reversed", True), ("narrower-ref_lens-omitted", True), ("single-row", True),
    ("plain-after-other-shapes", True), ("offset-view", False), ("triple-outermost", True),
    ("slices-stack-T", False), ("transposed-dense", True), ("int32-ref_lens-and-slices", False),
    ("garbage-beyond-ref_lens", True), ("garbage-beyond-ref_lens+offset-view", False), ("larger-instance", False),
    ("float64-default", False), ("inference-mode", True),
    ("scripted", "script"), ("rows-reversed-scripted", "script"), ("narrower-ref_lens-omitted-scripted", "script"),
    ("traced", "trace"), ("rows-reversed-traced", "trace"),
]


def _tok_group(ctx, call, seed):
    from checks import c10 as C

    partial, retain = call["partial"], call["retain"]
    case = {"part": "guard", "call": call, "seed": seed}
    base = _tok_base(seed)
    big = _tok_base(seed, large=True)
    module = M.ChunkTokenSequencesBySlices(partial, retain)
    scripted = traced = None
    kept = kept_mod = None
    variants = list(TOK_VARIANTS)
    ones = [(sg, a, b) for sg in C.SEGS_LEGAL for a, b in C.SLICES if (a + 2 * b + sg[0]) % 3 == 0]
    variants += [("one-token-%d" % i, i % 2 == 0) for i in range(len(ones))]
    for name, use_module in variants:
        rows = big if name == "larger-instance" else base
        lens_given = True
        if name.startswith("one-token-"):
            sg, a, b = ones[int(name.split("-")[-1])]
            rows = [([(seed + 10, sg[0], sg[1])], 1, a, b)]
            lens_given = int(name.split("-")[-1]) % 4 < 2
        elif name.startswith("narrower-ref_lens-omitted"):
            rows = [(ref[:2], 2, a, b) for ref, n, a, b in rows[::7]]
            lens_given = False
        elif name.startswith("rows-reversed"):  # same shapes as the call before it, other values
            rows = rows[::-1]
        elif name == "single-row":
            rows = [rows[(len(rows) * 2) // 3]]
        judged = rows
        if name.startswith("garbage"):
            rows = _tok_garbage(rows)
        N = len(rows)
        R = len(rows[0][0])
        refs = torch.tensor([r[0] for r in rows], dtype=torch.long).view(N, R, 3)
        slices = torch.tensor([[a, b] for _, _, a, b in rows], dtype=torch.long).view(N, 2)
        ref_lens = torch.tensor([n for _, n, _, _ in rows], dtype=torch.long) if lens_given else None
        for kind in ("offset-view", "transposed-dense", "triple-outermost"):
            if name.endswith(kind):
                refs, slices, ref_lens = _layout(refs, kind), _layout(slices, kind), _layout(ref_lens, kind)
        if name == "slices-stack-T":
            slices = _layout(slices, "stack-T")
        if name == "int32-ref_lens-and-slices":
            slices, ref_lens = slices.int(), ref_lens.int()
        tag = "one-token" if name.startswith("one-token") else name
        sig0 = {"api": "chunk_token_sequences_by_slices", "partial": partial, "retain": retain,
                "variant": tag, "via_module": use_module}
        vcase = dict(case, variant=name)
        try:
            with Unchanged(refs, slices, ref_lens):
                if use_module == "script":
                    if scripted is None:
                        scripted = torch.jit.script(M.ChunkTokenSequencesBySlices(partial, retain))
                    out = scripted(refs, slices, ref_lens)
                elif use_module == "trace":
                    if traced is None:
                        ex = (torch.tensor([[[5, 1, 2]]]), torch.tensor([[0, 9]]), torch.tensor([1]))
                        traced = torch.jit.trace(M.ChunkTokenSequencesBySlices(partial, retain), ex)
                    out = traced(refs, slices, ref_lens)
                elif use_module:
                    out = _invoke(name, lambda: module(refs, slices, ref_lens))
                else:
                    out = _invoke(name, lambda: F.chunk_token_sequences_by_slices(refs, slices, ref_lens, partial, retain))
            chunked, clens = out
            if chunked.ndim != 3 or chunked.size(0) != N or chunked.size(2) != 3 or clens.shape != (N,):
                raise AssertionError(f"shapes {tuple(chunked.shape)} {tuple(clens.shape)}")
            if N and (int(clens.max()) > chunked.size(1) or int(clens.min()) < 0):
                raise AssertionError("chunked_lens exceeds the width of chunked")
            lchunked, lclens = chunked.tolist(), clens.tolist()
        except GuardViolation as e:
            ctx.case(N, N)
            ctx.violation(dict(sig0, symptom="argument-modified"), vcase, {"error": str(e)})
            kept = kept_mod = None
            continue
        except Exception as e:
            ctx.case(N, N)
            ctx.violation(dict(sig0, symptom="raises", type=type(e).__name__), vcase, C._raise_detail(e))
            kept = kept_mod = None
            continue
        for k in (kept, kept_mod):
            if k is not None:
                try:
                    k.check()
                except GuardViolation as e:
                    ctx.violation(dict(sig0, symptom="kept-result-changed-by-later-call"), vcase, {"error": str(e)})
        # only the valid part of a result is a result: rows beyond chunked_lens are uninitialised
        valid = [chunked[n, : lclens[n]] for n in range(min(N, 64))]
        kept = Kept(clens, *valid)
        if use_module:
            kept_mod = kept
        seen = Counter()
        nt = 0
        for n, (ref, ref_len, a, b) in enumerate(judged):
            obs = [tuple(t) for t in lchunked[n][: lclens[n]]]
            if not lens_given:
                ref_len = len(ref)
            nt += 1 if (a < b and any(O.segment_known(t[1], t[2]) for t in ref[:ref_len])) else 0
            for sym in C.tok_symptoms(ref, ref_len, a, b, partial, retain, obs):
                seen[sym] += 1
                if seen[sym] <= 2:
                    ctx.violation(_tsig(sig0, sym), dict(vcase, row=n, row_info={"ref": ref, "ref_len": ref_len, "slice": [a, b]}),
                                  {"expected": O.chunk_tokens(ref, ref_len, a, b, partial, retain), "observed": obs})
        for sym, cnt in seen.items():
            if cnt > 2:
                ctx.viol_count[json.dumps(_tsig(sig0, sym), sort_keys=True)] += cnt - 2
        ctx.case(N, nt)
        if N > 1:
            ctx.outcome(hash(tuple(lclens[:200])) & 0xFFFFFFFFFFFF)
    _tok_lifecycle(ctx, call, seed, base)
