"""C19 - Monte Carlo estimators unbiased in value and gradient over the whole sample space;
relaxed distributions consistent; supports; fixed-cardinality sampling (E2, probability-weighted
draw trees + fixed quadrature grids)."""

import torch

from mc.runner import Ctx
from mc.oracles import estimators as O
from checks import _c19_tree as T
from checks import _c19_relax as R
from checks import _c19_comb as C
from checks import _c19_life as L
from checks import _c19_legacy as G

PROP = "C19"
LEVEL = "model_checking"
RULE = (
    "Configurations = proposal (1-3 joint Bernoulli variables via Independent, element-wise Bernoulli batches, "
    "OneHotCategorical / Categorical with 2-3 classes, SimpleRandomSamplingWithoutReplacement; logits and probs "
    "parametrisations, seed-valued parameters with requires_grad, variants with a constant 0/1 probability) x "
    "function (seed-valued table over the support, structured quadratic, table scaled by a factor that depends on "
    "the parameters) x control variate (none, table, linear; "
    "its mean handed in as a differentiable function of the parameters) x mc_samples in {1,2} (thorough: 3) x "
    "is_log x estimator (direct, importance sampling with density != proposal incl. unnormalised densities, "
    "enumeration). Shared-object configurations: importance sampling with density IS proposal (the same Python "
    "object) and with two distribution objects over one parameter tensor; one distribution object (and one "
    "control-variate-mean tensor) used by 2 estimator calls in a row (direct->is, is->direct, same estimator "
    "called twice), gradients taken after the last call; parameter tensor shared by proposal and function. "
    "Don't-care / boundary parameterisations: categorical proposals (OneHotCategorical, Categorical, "
    "GumbelOneHotCategorical) built with logits= and one or several classes at exactly -inf, and with probs= and "
    "exact zeros - in every estimator tree (direct, importance sampling incl. shared objects, enumeration, call "
    "sequences), in the relaxation estimators (region-mapped grids, RELAX value + finite gradient, "
    "straight-through value) and in the relaxed-distribution grid (threshold probabilities over the one-hot "
    "support sum to one and equal softmax, masked classes have probability 0, factorisation, supports). "
    "Object lifecycle: LogisticBernoulli, GumbelOneHotCategorical (probs= and logits=, batched and unbatched, "
    "unnormalised, exact 0/1 and -inf entries, plain / requires_grad leaf / non-leaf parameter tensors, "
    "validate_args None and False), SimpleRandomSamplingWithoutReplacement (int and tensor counts, given 0, padded), "
    "every estimator class (direct, importance sampling incl. density is proposal and self_normalize, enumeration, "
    "Metropolis-Hastings with burn_in 0 / initial_sample, straight-through, RELAX with REBAR eta 0.0 and smooth "
    "control variates, is_log both) and the REBAR control-variate modules (current and deprecated) after copy.copy, "
    "deepcopy, pickle, torch.save/load, used+copy, used+deepcopy, used+pickle (modules: also the framework's "
    "state_dict / eval / double-float variants): everything observable under the same scripted draws (tlog_prob, "
    "log_prob, clog_prob, rsample, csample, threshold, probs, logits, moments, expand, estimator values on 5 draw "
    "scripts) must equal what an object freshly built from the ORIGINAL parameters gives. Secondary entry point: the "
    "deprecated functional interface (to_z, to_b, to_fb, reinforce, relax, REBARControlVariate; all Bernoulli / "
    "categorical / one-hot synonyms) on the same quadrature grids as the class-based estimators - see "
    "checks/_c19_legacy.py for the clause-by-clause mapping. "
    "Functions / control variates that hand back the sample itself or a view of it (identity, no-op .to(), "
    "slice, squeeze) x control variate (none, table, linear, view) x is_log x validate_args on/off. Every "
    "func/cv callback is wrapped: tensors handed to it and produced by it must be bit-identical after the "
    "estimator returns, and a result kept from an earlier call must be unchanged after a later call. For each configuration the explorer answers every torch.bernoulli / torch.multinomial call "
    "with every positive-probability outcome; E[value] and E[grad] are the probability-weighted sums over all "
    "leaves (in log mode of exp(value)). Metropolis-Hastings: proposal == target, every draw and every uniform "
    "menu value incl. 0 and 1-2^-24, drawn and handed-in starting point. Relaxation estimators: uniform noise "
    "on product midpoint grids (threshold jump on a cell edge) and on region-mapped midpoint grids. Relaxed "
    "distributions: parameter x conditioning value x noise grid. Fixed-cardinality sampling: every total<=5 "
    "(thorough 6), given<=total, every Bernoulli path. binomial_coefficient: all n,k<=12 (thorough 24). "
    "Cases are distinct by construction (hashed configuration keys); a tree is non-trivial when the support "
    "has >1 element and the function is not constant on it."
)
ASSUMPTIONS = [
    "small scope: <=3 binary variables / <=3 classes / total<=5(6), mc_samples<=2 (3), tree sizes <= 2^(vars*mc_samples)",
    "tolerance 1e-5 (absolute and relative) on expectations, float32 parameters (thorough: also float64)",
    "torch.distributions Bernoulli/Categorical/OneHotCategorical/Independent (sampling through torch.bernoulli / "
    "torch.multinomial, log_prob) are trusted; their probabilities are cross-checked against the plain-Python oracle",
    "the control-variate mean is a differentiable function of the parameters (a detached mean makes the documented "
    "gradient biased for a reason that is the caller's)",
    "log mode: value compared after exponentiation (the documentation promises unbiasedness of exp(value) only); "
    "functions and control variates are chosen so that f - c + mu_c > 0 on every path (log of a negative estimate "
    "is clamped by design)",
    "importance sampling: self_normalize=False (the self-normalised estimate is documented as biased)",
    "an estimator owns neither the sample it hands to func/cv nor the tensors they return: writing into them is "
    "reported (symptom callback-tensor-modified) even where value and gradient happen to stay exact",
    "masked classes: a -inf logit has no parameter influence (exact gradient 0, compared); a probability that is "
    "exactly 0 under probs= is a boundary coordinate no score-function estimator can see - only the live "
    "coordinates of the gradient are compared there; conditioning a relaxed sample on a masked class "
    "(probability zero) is not constrained; a masked class' coordinate of rsample may be -inf but never nan, and "
    "log_prob / clog_prob of the distribution's own rsample must be finite; the parameter-dependent function "
    "variant is not combined with masked classes (sum(theta) would be -inf)",
    "Bernoulli-type logits at +-inf are NOT enumerated: torch.distributions.Bernoulli(logits=inf).log_prob(1.) is "
    "itself nan (binary_cross_entropy_with_logits), so no reference behaviour exists; probs= 0 and 1 are covered",
    "lifecycle: an operation that torch itself refuses on a torch.distributions twin built from the same tensors "
    "(copy.deepcopy of a tensor with a grad_fn) is skipped and counted (lifecycle_op_refused_by_torch); estimator "
    "objects are copied over plain (no-grad) parameters with picklable callables; equality tolerance 1e-6 "
    "(a legitimately rebuilt object may renormalise once more)",
    "deprecated relax: value = diff + c(z) from components=True; the Bernoulli gradient mean (promised by its "
    "docstring) uses midpoint grids K and 2K with one Richardson step; the categorical gradient mean of relax is "
    "not judged (no exact quadrature of the pathwise terms; C19 promises value only for relaxations); to_b uses "
    "z > 0 where LogisticBernoulli.threshold uses z >= 0 - the measure-zero tie z == 0 is not compared; no "
    "attribute listed in a module's __constants__ is reassigned anywhere in C19",
    "view-returning functions are exercised on float samples only (Bernoulli, OneHotCategorical, SRSWOR); a "
    "Categorical sample is an integer tensor and cannot be the function value",
    "relaxation estimators: value only; midpoint product grids need the Bernoulli probability on a cell edge; the "
    "library's REBAR control variate is integrated with K=100/200 and one Richardson step; for arbitrary "
    "probabilities and for the categorical relaxation the nodes are images of a midpoint grid under the "
    "measure-preserving region maps derived from the documented conditional-sample formulas, the conditional noise "
    "being coupled to the same grid point (valid because the estimate is a sum of per-sample terms)",
    "Metropolis-Hastings acceptance is monotone in the uniform draw, so the two ends of [0,1) decide all values",
    "relaxed-distribution grid: tlog_prob compared with the discrete probability only for probabilities in "
    "(1e-4, 1-1e-4) (torch clamps at the boundary)",
]
BUDGET_S = {"quick": 240, "thorough": 2400}
NSHARDS = 32


# ---------------------------------------------------------------------------------------
def _theta(rng, par, n, cat=False):
    if par == "logits":
        return [T.r3(rng, -1.5, 1.5) for _ in range(n)]
    if cat:
        return [T.r3(rng, 0.2, 1.5) for _ in range(n)]  # unnormalised on purpose
    return [T.r3(rng, 0.1, 0.9) for _ in range(n)]


def _proposals(tier, seed):
    out = []
    nvec = 1 if tier == "quick" else 2
    for r in range(nvec):
        for par in ("logits", "probs"):
            for nv in (1, 2, 3):
                rng = T.rng_for(seed, "bj", par, nv, r)
                out.append({"kind": "bern_joint", "par": par, "theta": _theta(rng, par, nv)})
            rng = T.rng_for(seed, "be", par, r)
            out.append({"kind": "bern_elem", "par": par, "theta": _theta(rng, par, 2)})
            for V in (2, 3):
                for kind in ("onehot", "cat"):
                    rng = T.rng_for(seed, kind, par, V, r)
                    out.append({"kind": kind, "par": par, "theta": _theta(rng, par, V, cat=True)})
    # don't-care / boundary classes: logit exactly -inf (logits=) or probability exactly 0 (probs=)
    for kind in ("onehot", "cat"):
        for par in ("logits", "probs"):
            for V, masked in ((3, [1]), (3, [0, 2]), (2, [0])):
                if tier == "quick" and (V, masked) == (2, [0]) and par == "probs":
                    continue
                rng = T.rng_for(seed, "masked", kind, par, V, masked)
                out.append({"kind": kind, "par": par, "theta": _theta(rng, par, V, cat=True), "masked": masked})
    rng = T.rng_for(seed, "const")
    out.append({"kind": "bern_joint", "par": "logits", "theta": _theta(rng, "logits", 3), "const": {"1": 0.0}})
    out.append({"kind": "bern_joint", "par": "probs", "theta": _theta(rng, "probs", 2), "const": {"0": 1.0}})
    out.append({"kind": "bern_elem", "par": "logits", "theta": _theta(rng, "logits", 3), "const": {"2": 0.0}})
    sr = [(2, 1, 2), (3, 1, 3), (3, 2, 4), (4, 2, 4)]
    if tier == "thorough":
        sr += [(4, 1, 5), (4, 3, 4), (5, 2, 5), (5, 3, 6), (1, 1, 1), (2, 0, 2)]
    for t, l, o in sr:
        out.append({"kind": "srswor", "T": t, "L": l, "out": o})
    return out


def _fspecs(ps, rng, is_log, what):
    """function specs ('f') or control-variate specs ('cv') for a proposal"""
    k = ps["kind"]
    lo, hi = ((1.0, 4.0) if is_log else (-2.0, 3.0)) if what == "f" else ((0.1, 0.5) if is_log else (-1.0, 1.0))
    n = T.nbits(ps)
    support = O.table(T.oracle_spec(ps))[0] if k == "srswor" else None
    if k in ("bern_joint", "srswor"):
        vals = [T.r3(rng, lo, hi) for _ in range(2 ** n)]
        if support is not None:
            keep = {O.bits_index(b) for b in support}
            vals = [v if i in keep else None for i, v in enumerate(vals)]
        table = {"kind": "table", "vals": vals}
    elif k == "bern_elem":
        table = {"kind": "table", "vals": [[T.r3(rng, lo, hi), T.r3(rng, lo, hi)] for _ in range(n)]}
    else:
        table = {"kind": "table", "vals": [T.r3(rng, lo, hi) for _ in range(n)]}
    if what == "f":
        return [table, {"kind": "struct"}]
    # linear control variate
    na = 1 if k == "cat" else n
    if is_log:
        r = [T.r3(rng, 0.2, 1.0) for _ in range(na)]
        scale = 0.4 / (sum(r) if k in ("bern_joint", "srswor") else max(r) * (n - 1 if k == "cat" else 1))
        lin = {"kind": "linear", "a": [round(x * scale, 4) for x in r], "d": 0.1}
    else:
        lin = {"kind": "linear", "a": [T.r3(rng, -1.0, 1.0) for _ in range(na)], "d": T.r3(rng, -0.5, 0.5)}
    return [None, table, lin]


def _support_size(ps):
    return len(O.table(T.oracle_spec(ps))[0])


def configs(tier, seed):
    """the complete, deterministic list of configurations with a cost estimate each"""
    out = []
    props = _proposals(tier, seed)
    Ns = (1, 2) if tier == "quick" else (1, 2, 3)
    dtypes = ("float32",) if tier == "quick" else ("float32", "float64")
    for pi, ps in enumerate(props):
        S = _support_size(ps)
        for is_log in (False, True):
            rng = T.rng_for(seed, "fn", pi, is_log)
            fs = _fspecs(ps, rng, is_log, "f")
            cvs = _fspecs(ps, rng, is_log, "cv")
            for dtype in dtypes:
                for N in Ns:
                    if S ** N > 600:
                        continue
                    fdep = dict(fs[0], dep=0.1) if ps["kind"] != "srswor" and not ps.get("masked") else None
                    for f in fs + ([fdep] if fdep else []):
                        for cv in (cvs if f is not fdep else cvs[:2]):
                            out.append((S ** N, {"fam": "tree", "est": "direct", "prop": ps, "f": f, "cv": cv, "N": N,
                                                 "is_log": is_log, "dtype": dtype}))
                        # importance sampling: target density != proposal
                        for shift in ((0.0, -1.0) if f is not fdep else (0.0,)):
                            if ps["kind"] == "srswor":
                                r2 = T.rng_for(seed, "dens", pi)
                                dens = {"kind": "cbern", "theta": [T.r3(r2, -1.0, 1.0) for _ in range(ps["T"])],
                                        "shift": shift}
                            else:
                                r2 = T.rng_for(seed, "dens", pi)
                                dens = {"kind": ps["kind"], "theta": _theta(r2, ps["par"], len(ps["theta"]),
                                                                            cat=ps["kind"] in ("onehot", "cat")),
                                        "shift": shift}
                            out.append((S ** N, {"fam": "tree", "est": "is", "prop": ps, "dens": dens, "f": f, "N": N,
                                                 "is_log": is_log, "dtype": dtype}))
                if ps["kind"] != "bern_joint":
                    for f in fs + ([dict(fs[0], dep=0.1)] if ps["kind"] != "srswor" and not ps.get("masked") else []):
                        out.append((1, {"fam": "tree", "est": "enum", "prop": ps, "f": f, "is_log": is_log,
                                        "dtype": dtype}))
    # ---- configurations in which arguments share objects ------------------------------------------
    # (a) importance sampling with density IS proposal (one Python object) and with two objects over
    #     one parameter tensor; (b) one distribution object (and one cv-mean tensor) used by several
    #     estimator calls in a row; (c) parameter tensor shared by proposal and function = the 'dep'
    #     function variant above.
    for pi, ps in enumerate(props):
        if ps.get("const"):
            continue
        S = _support_size(ps)
        for is_log in (False, True):
            rng = T.rng_for(seed, "fn", pi, is_log)
            fs = _fspecs(ps, rng, is_log, "f")
            cvs = _fspecs(ps, rng, is_log, "cv")
            flist = [fs[0]] + ([dict(fs[0], dep=0.1)] if ps["kind"] != "srswor" and not ps.get("masked") else [fs[1]])
            for N in Ns:
                if S ** N > (70 if tier == "quick" else 600):
                    continue
                for share in (("object", "param") if ps["kind"] != "srswor" else ("object",)):
                    for f in flist:
                        out.append((S ** N, {"fam": "tree", "est": "is", "share": share, "prop": ps, "f": f, "N": N,
                                             "is_log": is_log, "dtype": "float32"}))
            if S <= (4 if tier == "quick" else 8):
                for order in (["direct", "is"], ["is", "direct"], ["direct", "again"], ["is", "again"]):
                    out.append((S ** len(order), {"fam": "seq", "order": order, "prop": ps, "f": fs[0], "cv": cvs[1],
                                                  "N": 1, "is_log": is_log, "dtype": "float32"}))
    # ---- functions that hand back the sample itself or a view of it ---------------------------------
    view_props = []
    for ps in props:
        k, n = ps["kind"], len(ps.get("theta", []))
        if ps.get("const") or ps.get("masked"):
            continue
        if k == "bern_elem":
            view_props.append((ps, ("identity", "to")))
        elif k == "bern_joint" and n == 1:
            view_props.append((ps, ("squeeze", "slice")))
        elif (k == "bern_joint" and n == 2) or (k == "onehot" and n == 2) or (k == "srswor" and (ps["T"], ps["L"]) == (3, 1)):
            view_props.append((ps, ("slice",)))
    if tier == "quick":
        view_props = [vp for i, vp in enumerate(view_props) if vp[0].get("par", "logits") == "logits" or vp[0]["kind"] == "bern_elem"]
    for pi, (ps, hows) in enumerate(view_props):
        S = _support_size(ps)
        for validate in (True, False):
            psv = dict(ps, validate=validate)
            for is_log in (False, True):
                rng = T.rng_for(seed, "viewcv", pi, is_log)
                cvs = _fspecs(ps, rng, is_log, "cv")
                ftab = _fspecs(ps, rng, is_log, "f")[0]
                for N in (1, 2):
                    if S ** N > 64:
                        continue
                    for how in hows:
                        fview = {"kind": "view", "how": how}
                        pairs = [(fview, None), (fview, cvs[1]), (fview, cvs[2]), (fview, fview)]
                        if not is_log:
                            pairs.append((ftab, fview))  # the control variate hands back a view
                        for f, cv in pairs:
                            out.append((S ** N, {"fam": "tree", "est": "direct", "prop": psv, "f": f, "cv": cv, "N": N,
                                                 "is_log": is_log, "dtype": "float32"}))
                        out.append((S ** N, {"fam": "tree", "est": "is", "share": "object", "prop": psv, "f": fview,
                                             "N": N, "is_log": is_log, "dtype": "float32"}))
    # ---- object lifecycle: copy.copy / deepcopy / pickle / torch.save / used+copy of everything C19 drives ----
    rng = T.rng_for(seed, "life")
    for dtype in ("float32",) if tier == "quick" else ("float32", "float64"):
        for mode in ("plain", "leaf_grad", "nonleaf"):
            for validate in (None, False):
                lb = {"probs": [[T.r3(rng, 0.05, 0.95), 0.0, 1.0], [0.5, T.r3(rng, 0.05, 0.95), T.r3(rng, 0.05, 0.95)]],
                      "logits": [[T.r3(rng, -2, 2), 0.0, T.r3(rng, -2, 2)]]}
                gb = {"probs": [[T.r3(rng, 0.1, 1), T.r3(rng, 0.1, 1), T.r3(rng, 0.1, 1)], [0.0, 0.4, 0.6]],
                      "logits": [[T.r3(rng, -2, 2), T.r3(rng, -2, 2), T.r3(rng, -2, 2)], [0.0, None, -1.0]]}
                for par in ("probs", "logits"):
                    out.append((6, {"fam": "life_dist", "dist": "logistic", "par": par, "params": lb[par], "mode": mode,
                                    "validate": validate, "dtype": dtype}))
                    out.append((6, {"fam": "life_dist", "dist": "gumbel", "par": par, "params": gb[par], "mode": mode,
                                    "validate": validate, "dtype": dtype}))
                    # unnormalised probs / logits of a single (unbatched) distribution
                    out.append((6, {"fam": "life_dist", "dist": "gumbel", "par": par,
                                    "params": [2.0 * x for x in gb[par][0]], "mode": mode, "validate": validate,
                                    "dtype": dtype}))
    for validate in (None, False):
        for params, outsz, tc in (([1, 3], None, False), ([0, 2], 4, False), ([[1, 2], [3, 3]], None, True), ([2, 2], 2, True)):
            out.append((6, {"fam": "life_dist", "dist": "srswor", "params": params, "out": outsz, "tensor_counts": tc,
                            "validate": validate, "dtype": "float32"}))
    for is_log in (False, True):
        tv = (lambda: T.r3(rng, 1.0, 3.0)) if is_log else (lambda: T.r3(rng, -2.0, 3.0))
        bl = [T.r3(rng, -1.5, 1.5), T.r3(rng, -1.5, 1.5)]
        bp = [T.r3(rng, 0.1, 0.9), T.r3(rng, 0.1, 0.9)]
        cl = [T.r3(rng, -1.5, 1.5) for _ in range(3)]
        cp = [T.r3(rng, 0.2, 1.0) for _ in range(3)]
        f2, f3 = [tv(), tv()], [tv(), tv(), tv()]
        ests = [
            {"est": "direct", "prop": "bern", "par": "logits", "theta": bl, "f": f2, "N": 2,
             "cv": [0.1, 0.4], "cv_mean": [0.2, 0.3] if is_log else [0.25, 0.3]},
            {"est": "direct", "prop": "onehot", "par": "probs", "theta": cp, "f": f3, "N": 1},
            {"est": "is", "prop": "bern", "par": "probs", "theta": bp, "theta2": [0.3, 0.6], "f": f2, "N": 2},
            {"est": "is", "prop": "cat", "par": "logits", "theta": cl, "same": True, "f": f3, "N": 2, "self_normalize": True},
            {"est": "enum", "prop": "cat", "par": "probs", "theta": cp, "f": f3},
            {"est": "enum", "prop": "srswor", "theta": [1, 3], "f": None},
            {"est": "imh", "prop": "bern", "par": "logits", "theta": bl, "f": f2, "N": 2, "burn_in": 0},
            {"est": "imh", "prop": "bern", "par": "probs", "theta": bp, "f": f2, "N": 3, "burn_in": 1, "initial": [0.0, 1.0]},
            {"est": "st", "prop": "logistic", "par": "probs", "theta": bp, "f": f2, "N": 2},
            {"est": "st", "prop": "gumbel", "par": "logits", "theta": cl, "f": f3, "N": 2},
            {"est": "st", "prop": "gumbel", "par": "probs", "theta": cp, "f": f3, "N": 1},
            {"est": "relax", "prop": "logistic", "par": "logits", "theta": bl, "f": f2, "N": 2, "cvk": "rebar",
             "lam": 0.5, "eta": 0.3},
            {"est": "relax", "prop": "logistic", "par": "probs", "theta": bp, "f": f2, "N": 1, "cvk": "rebar",
             "lam": 1.0, "eta": 0.0},
            {"est": "relax", "prop": "gumbel", "par": "logits", "theta": cl, "f": f3, "N": 2, "cvk": "rebar",
             "lam": 0.7, "eta": 0.3},
            {"est": "relax", "prop": "gumbel", "par": "probs", "theta": cp, "f": f3, "N": 1, "cvk": "smooth"},
        ]
        for e in ests:
            out.append((8, dict(e, fam="life_est", is_log=is_log, dtype="float32")))
    for cls, ld in (("logistic", None), ("gumbel", None), ("legacy", "bern"), ("legacy", "onehot")):
        for eta in (0.0, 0.7):
            out.append((5, {"fam": "life_cv", "cls": cls, "legacy_dist": ld, "lam": 0.5, "eta": eta,
                            "f": [0.5, 2.0, -1.0] if cls != "logistic" and ld != "bern" else [0.5, 2.0]}))
    # ---- secondary entry point: the deprecated functional interface, on the same quadrature grids ----------
    rng = T.rng_for(seed, "legacy")
    for syn in ("bern", "Bernoulli") if tier == "quick" else ("bern", "Bern", "bernoulli", "Bernoulli"):
        for K, js in ((4, (1, 2, 3)), (10, (1, 7))):
            for j in js:
                out.append((3, {"fam": "legacy_bern", "dist": syn, "K": K, "j": j, "f": [T.r3(rng, -2, 3), T.r3(rng, -2, 3)],
                                "cv": {"kind": "ulinear", "a": T.r3(rng, -2, 2), "d": T.r3(rng, -1, 1)}, "dtype": "float64"}))
        for lam in (0.5, 1.0):
            out.append((40, {"fam": "legacy_bern", "dist": syn, "K": 100, "j": rng.randrange(5, 96),
                             "f": [T.r3(rng, -2, 3), T.r3(rng, -2, 3)],
                             "cv": {"kind": "rebar", "lam": lam, "eta": T.r3(rng, 0.3, 1.2)}, "dtype": "float64"}))
        out.append((1, {"fam": "legacy_reinforce", "dist": syn, "logits": [T.r3(rng, -2, 2) for _ in range(3)],
                        "f": [T.r3(rng, -2, 3), T.r3(rng, -2, 3)]}))
    for syn in ("cat", "onehot") if tier == "quick" else ("cat", "Cat", "categorical", "Categorical", "onehot", "OneHotCategorical"):
        for V, K in ((2, 6), (3, 4)):
            pv = [T.r3(rng, 0.1, 1.0) for _ in range(V)]
            pv = [x / sum(pv) for x in pv]
            for cv in ({"kind": "rebar", "lam": T.r3(rng, 0.3, 1.0), "eta": T.r3(rng, 0.3, 1.2)},
                       {"kind": "tanh", "a": [T.r3(rng, -2, 2) for _ in range(V)], "d": T.r3(rng, -1, 1)}):
                out.append((3, {"fam": "legacy_cat", "dist": syn, "p": pv, "K": K, "shift": T.r3(rng, -1, 1),
                                "f": [T.r3(rng, -2, 3) for _ in range(V)], "cv": cv, "dtype": "float64"}))
    # ---- Metropolis-Hastings -----------------------------------------------------------------
    imh_props = [(p, "quick" if tier == "quick" else "full") for p in props
                 if (p["kind"], len(p.get("theta", []))) in (("bern_joint", 1), ("bern_joint", 2), ("cat", 3), ("onehot", 2))
                 and not p.get("const") and not p.get("masked")][: 8 if tier == "quick" else 16]
    imh_props += [(p, "ends") for p in props if p["kind"] == "bern_elem" and not p.get("const")][:2]
    imh_props += [(p, "quick") for p in props if p["kind"] == "srswor" and (p["T"], p["L"]) == (3, 1)]
    for pi, (ps, menu) in enumerate(imh_props):
        S = _support_size(ps)
        nb = 2 if ps["kind"] == "bern_elem" else 1
        m = {"quick": 4, "full": 7, "ends": 2}[menu]
        for N in (2, 3):
            cost = (S * m ** nb) ** N * S
            if cost > (3000 if tier == "quick" else 20000):
                continue
            for burn in sorted({0, N - 1} if tier == "quick" else {0, 1, N - 1}):
                for is_log in (False, True):
                    rng = T.rng_for(seed, "imhf", pi, is_log)
                    f = _fspecs(ps, rng, is_log, "f")[(N + burn) % 2]
                    for init, idx in (("drawn", 0), ("given", 0), ("given1", S - 1)):
                        for twin in ((False, True) if init == "drawn" and (tier != "quick" or not is_log) else (False,)):
                            out.append((cost, {"fam": "imh", "prop": ps, "f": f, "N": N, "burn_in": burn, "is_log": is_log,
                                               "init": init, "init_index": idx, "twin": twin, "menu": menu,
                                               "dtype": "float32"}))
    # ---- relaxation estimators --------------------------------------------------------------
    rng = T.rng_for(seed, "relax")
    for is_log in (False, True):
        tv = (lambda: T.r3(rng, 1.0, 3.0)) if is_log else (lambda: T.r3(rng, -2.0, 3.0))
        for K in ((4, 10) if tier == "quick" else (4, 5, 10, 16)):
            for j in sorted({0, 1, K // 2, K - 1, K} if tier == "quick" else set(range(K + 1))):
                for par in ("probs", "logits"):
                    if par == "logits" and j in (0, K):
                        continue
                    for N in (1, 2):
                        f = [tv(), tv()]
                        out.append((1 + K ** N / 1000, {"fam": "relax_grid", "est": "st", "K": K, "j": j, "par": par, "N": N,
                                                  "is_log": is_log, "f": f, "dtype": "float32"}))
                        if is_log:
                            cv = {"kind": "ulinear", "a": T.r3(rng, 0.05, 0.3), "d": T.r3(rng, 0.1, 0.3)}
                        else:
                            cv = {"kind": "ulinear", "a": T.r3(rng, -2.0, 2.0), "d": T.r3(rng, -1.0, 1.0)}
                        out.append((1 + K ** (2 * N) / 1000, {"fam": "relax_grid", "est": "relax", "K": K, "j": j, "par": par,
                                                        "N": N, "is_log": is_log, "f": f, "cv": cv, "dtype": "float32"}))
        # library REBAR control variate, K = 100 and 200, Richardson
        for lam in (0.5, 1.0):
            for r in range(2 if tier == "quick" else 6):
                j = rng.randrange(5, 96)
                out.append((50, {"fam": "relax_grid", "est": "relax", "K": 100, "j": j, "par": ("probs", "logits")[r % 2],
                                   "N": 1, "is_log": is_log, "f": [tv(), tv()], "richardson": True,
                                   "cv": {"kind": "rebar", "lam": lam, "eta": 0.3 if is_log else T.r3(rng, 0.3, 1.2)},
                                   "dtype": "float64" if r % 2 else "float32"}))
        # region-mapped nodes: arbitrary probabilities, categorical relaxation
        for dtype in ("float64", "float32"):
            for par in ("probs", "logits"):
                for N in (1, 2):
                    p = [T.r3(rng, 0.05, 0.95)]
                    for cv in ({"kind": "rebar", "lam": T.r3(rng, 0.2, 1.0), "eta": 0.3 if is_log else T.r3(rng, 0.3, 1.2)},
                               {"kind": "tanh", "a": T.r3(rng, 0.05, 0.2) if is_log else T.r3(rng, -2, 2),
                                "d": 0.5 if is_log else T.r3(rng, -1, 1), "s": T.r3(rng, 0.3, 2.0)}):
                        out.append((2 + 16 ** N / 500, {"fam": "relax_region", "est": "relax", "dist": "logistic", "p": p, "par": par,
                                                   "K": 8, "N": N, "is_log": is_log, "f": [tv(), tv()], "cv": cv,
                                                   "dtype": dtype}))
                    for V, K in ((2, 6), (3, 4)):
                        pv = [T.r3(rng, 0.1, 1.0) for _ in range(V)]
                        if par == "logits" or True:
                            tot = sum(pv)
                            pv = [x / tot for x in pv]
                        G = V * K ** V
                        if G ** N > (40000 if tier == "quick" else 10 ** 6):
                            continue
                        f = [tv() for _ in range(V)]
                        if is_log:
                            cvs = ({"kind": "rebar", "lam": T.r3(rng, 0.3, 1.0), "eta": 0.3},
                                   {"kind": "tanh", "a": [T.r3(rng, 0.02, 0.1) for _ in range(V)], "d": 0.5})
                        else:
                            cvs = ({"kind": "rebar", "lam": T.r3(rng, 0.3, 1.0), "eta": T.r3(rng, 0.3, 1.2)},
                                   {"kind": "tanh", "a": [T.r3(rng, -2, 2) for _ in range(V)], "d": T.r3(rng, -1, 1)})
                        for cv in cvs:
                            out.append((2 + G ** N / 500, {"fam": "relax_region", "est": "relax", "dist": "gumbel", "p": pv,
                                                      "par": par, "K": K, "N": N, "is_log": is_log, "f": f, "cv": cv,
                                                      "dtype": dtype}))
                        out.append((2 + G ** N / 1000, {"fam": "relax_region", "est": "st", "dist": "gumbel", "p": pv, "par": par,
                                                  "K": K, "N": N, "is_log": is_log, "f": f, "dtype": dtype}))
    # relaxation estimators over proposals with don't-care classes (logit -inf / probability 0)
    rng = T.rng_for(seed, "relax-masked")
    for is_log in (False, True):
        tv = (lambda: T.r3(rng, 1.0, 3.0)) if is_log else (lambda: T.r3(rng, -2.0, 3.0))
        for par in ("logits", "probs"):
            for pv in ([0.0, T.r3(rng, 0.2, 0.8)], [T.r3(rng, 0.2, 0.8), 0.0, T.r3(rng, 0.2, 0.8)], [0.0, 0.0, 1.0]):
                V = len(pv)
                tot = sum(pv)
                pv = [x / tot for x in pv]
                K = 6 if V == 2 else 4
                f = [tv() for _ in range(V)]
                for N in (1, 2):
                    G = sum(1 for x in pv if x > 0) * K ** V
                    if is_log:
                        cvs = ({"kind": "rebar", "lam": T.r3(rng, 0.3, 1.0), "eta": 0.3},
                               {"kind": "tanh", "a": [T.r3(rng, 0.02, 0.1) for _ in range(V)], "d": 0.5})
                    else:
                        cvs = ({"kind": "rebar", "lam": T.r3(rng, 0.3, 1.0), "eta": T.r3(rng, 0.3, 1.2)},
                               {"kind": "tanh", "a": [T.r3(rng, -2, 2) for _ in range(V)], "d": T.r3(rng, -1, 1)})
                    for dtype in ("float32", "float64"):
                        for cv in cvs:
                            out.append((2 + G ** N / 500, {"fam": "relax_region", "est": "relax", "dist": "gumbel", "p": pv,
                                                           "par": par, "K": K, "N": N, "is_log": is_log, "f": f, "cv": cv,
                                                           "dtype": dtype}))
                        out.append((2 + G ** N / 1000, {"fam": "relax_region", "est": "st", "dist": "gumbel", "p": pv,
                                                        "par": par, "K": K, "N": N, "is_log": is_log, "f": f, "dtype": dtype}))
    # ---- relaxed distributions on a parameter x noise grid -------------------------------------
    rng = T.rng_for(seed, "relaxdist")
    K = 8 if tier == "quick" else 32
    for dtype in ("float32", "float64"):
        probs = [0.0, 1e-6, 0.01, 0.1, 0.25, 0.5, 0.75, 0.9, 0.99, 1 - 1e-6, 1.0] + [T.r3(rng, 0.02, 0.98) for _ in range(4)]
        logits = [-20.0, -5.0, -1.0, 0.0, 1.0, 5.0, 20.0] + [T.r3(rng, -3, 3) for _ in range(4)]
        out.append((5, {"fam": "relaxdist", "dist": "logistic_bernoulli", "par": "probs", "params": probs, "K": K, "dtype": dtype}))
        out.append((5, {"fam": "relaxdist", "dist": "logistic_bernoulli", "par": "logits", "params": logits, "K": K, "dtype": dtype}))
        if dtype == "float32":
            # GLOBAL STATE x BOUNDARY DRAWS (round 6): float32 parameters while the default dtype is float64 - a draw
            # that asks the generator for float64 numbers is answered with float64's own extremes (1 - 2^-53, 2^-53)
            out.append((5, {"fam": "relaxdist", "dist": "logistic_bernoulli", "par": "probs", "params": probs, "K": K,
                            "dtype": dtype, "default_dtype": "float64"}))
            out.append((5, {"fam": "relaxdist", "dist": "logistic_bernoulli", "par": "logits", "params": logits, "K": K,
                            "dtype": dtype, "default_dtype": "float64"}))
        for V in (2, 3):
            Kc = (4 if tier == "quick" else 8) if V == 2 else (2 if tier == "quick" else 4)
            pr = [[1.0 / V] * V, [0.0] + [1.0 / (V - 1)] * (V - 1), [0.98] + [0.02 / (V - 1)] * (V - 1)]
            pr += [[T.r3(rng, 0.05, 1.0) for _ in range(V)] for _ in range(3)]
            pr = [[x / sum(row) for x in row] for row in pr]
            lg = [[0.0] * V, [3.0] + [-3.0] * (V - 1)] + [[T.r3(rng, -2, 2) for _ in range(V)] for _ in range(3)]
            out.append((30, {"fam": "relaxdist", "dist": "gumbel_one_hot", "par": "probs", "params": pr, "K": Kc, "dtype": dtype}))
            out.append((30, {"fam": "relaxdist", "dist": "gumbel_one_hot", "par": "logits", "params": lg, "K": Kc, "dtype": dtype}))
            if dtype == "float32":
                out.append((30, {"fam": "relaxdist", "dist": "gumbel_one_hot", "par": "logits", "params": lg, "K": Kc,
                                 "dtype": dtype, "default_dtype": "float64"}))
            # masked classes: logit exactly -inf (None), one or several; probs= with several exact zeros
            mk = [[T.r3(rng, -2, 2) if (i + r) % V else None for i in range(V)] for r in range(V)]
            if V == 3:
                mk += [[None, T.r3(rng, -2, 2), None], [None, None, 0.0]]
            out.append((30, {"fam": "relaxdist", "dist": "gumbel_one_hot", "par": "logits", "params": mk, "K": Kc,
                             "dtype": dtype, "masked": True}))
            if V == 3:
                out.append((20, {"fam": "relaxdist", "dist": "gumbel_one_hot", "par": "probs",
                                 "params": [[0.0, 1.0, 0.0], [0.0, 0.0, 1.0], [0.3, 0.0, 0.7]], "K": Kc, "dtype": dtype}))
    # ---- fixed-cardinality sampling, supports, binomials -----------------------------------------
    Tmax = 5 if tier == "quick" else 6
    for t in range(Tmax + 1):
        for l in range(t + 1):
            for o in (None, t + 2):
                for api in ("functional", "distribution"):
                    out.append((O.choose(t, l), {"fam": "srswor", "api": api, "pairs": [[t, l]], "out": o}))
                out.append((1, {"fam": "support_sum", "T": t, "L": l, "out": o}))
            out.append((O.choose(t, l), {"fam": "srswor", "api": "distribution", "pairs": [[t, l]], "out": None, "scalar": True}))
            out.append((1, {"fam": "support_sum", "T": t, "L": l, "out": t + 1, "batch": 2}))
            if O.choose(t, l) ** 2 <= 400:
                out.append((O.choose(t, l) ** 2, {"fam": "srswor", "api": "distribution", "pairs": [[t, l]], "out": None,
                                                  "sample_shape": [2]}))
    # reduced joint pass: batches of two different (total, given) pairs (elements are independent)
    joint = [[[3, 1], [2, 2]], [[4, 2], [1, 0]], [[2, 1], [4, 3]], [[0, 0], [3, 2]], [[5, 2], [5, 4]]]
    if tier == "thorough":
        joint += [[[a, b], [c, d]] for a in range(1, 5) for b in range(a + 1) for c in range(1, 4) for d in range(c + 1)]
    for pr in joint:
        cost = O.choose(*pr[0]) * O.choose(*pr[1])
        for api in ("functional", "distribution"):
            out.append((cost, {"fam": "srswor", "api": api, "pairs": pr, "out": None}))
    for ps in props:
        if ps["kind"] != "srswor":
            out.append((1, {"fam": "torch_support_sum", "prop": ps}))
    out.append((30, {"fam": "binomial", "nmax": 12, "single": True}))
    if tier == "thorough":
        out.append((60, {"fam": "binomial", "nmax": 24, "single": False}))
        out.append((60, {"fam": "binomial", "nmax": 21, "single": True}))
    out.append((20, {"fam": "enumerate", "Lmax": 5 if tier == "quick" else 7}))
    return out


def shards(tier, seed):
    return [{"shard": i, "of": NSHARDS} for i in range(NSHARDS)]


def _assign(tier, seed):
    """longest-processing-time assignment of configurations to shards (deterministic)"""
    cfgs = configs(tier, seed)
    order = sorted(range(len(cfgs)), key=lambda i: (-cfgs[i][0], i))
    loads = [0.0] * NSHARDS
    parts = [[] for _ in range(NSHARDS)]
    for i in order:
        s = min(range(NSHARDS), key=lambda k: (loads[k], k))
        loads[s] += cfgs[i][0] + 2.0
        parts[s].append(cfgs[i][1])
    return parts


RUNNERS = {
    "tree": T.run_tree,
    "seq": T.run_seq,
    "life_dist": L.run_life_dist,
    "life_est": L.run_life_est,
    "life_cv": L.run_life_cv,
    "legacy_bern": G.run_legacy_bern,
    "legacy_cat": G.run_legacy_cat,
    "legacy_reinforce": G.run_legacy_reinforce_bern,
    "imh": T.run_imh,
    "relax_grid": R.run_relax_grid,
    "relax_region": R.run_relax_region,
    "relaxdist": R.run_relaxdist,
    "srswor": C.run_srswor,
    "support_sum": C.run_support_sum,
    "torch_support_sum": C.run_torch_support_sum,
    "binomial": C.run_binomial,
    "enumerate": C.run_enumerate,
}


def run_shard(spec, tier, seed):
    ctx = Ctx()
    torch.manual_seed(0)  # nothing may depend on it: every draw is answered by the seams
    for cfg in _assign(tier, seed)[spec["shard"]]:
        RUNNERS[cfg["fam"]](ctx, cfg)
        ctx.count("configs_" + cfg["fam"])
    return ctx


def replay(case):
    ctx = Ctx()
    cfg = case["cfg"]
    RUNNERS[cfg["fam"]](ctx, cfg)
    return ctx


def finalize(total, tier, seed):
    total.notes.append(
        "states = distinct nodes (draw prefixes) of the explored draw trees; transitions = draws answered for the "
        "first time; traces = complete trees whose expectation / per-path verdict was compared with the oracle"
    )
