"""C11 - transcript files read back exactly what was written (E1; E2 for worker schedules).

trn / ctm / TextGrid: write with the real writer, read with the real reader, compare with the
reference models of mc/oracles/transcripts.py; path vs open file byte-identical under every
option; read_trn with worker processes through the virtual pool (every completion order) and
through the real pool (finalize, parent process).  transcript_to_token o token_to_transcript.
"""

import io
import itertools
import os
import random
import shutil
import warnings

import torch

import pydrobert.torch.config as config
import pydrobert.torch.data as D

from mc.runner import Ctx
from mc.explore import explore
from mc.seams import VirtualPools
from mc.guards import Kept
from mc.oracles import transcripts as T

PROP = "C11"
LEVEL = "exploration"
RULE = (
    "trn: every file of 1-3 utterances whose transcript trees over tokens {a,b} have total size "
    "(tokens + empty non-final alternates) <= 3 (quick) / <= 4 (thorough), plus (quick) every "
    "single-utterance tree of size 4; alternates nested to depth 3; each written with bare and with "
    "timed top-level tokens; write->read through an open file for all, through a path and a real open "
    "file (byte comparison, both readers) for all (thorough) / every 4th (quick); read_trn with "
    "processes in {1,2,3} x chunk_size in {1,2} on the virtual pool for every file of <= 3 utterances "
    "with total size <= 2 (quick) / <= 3 (thorough), every completion order explored; real fork pool in "
    "finalize.  ctm: every sequence of <= 3 (quick) / <= 4 (thorough) segments drawn from "
    "{start 0, 2.25, 10.5} x {duration 0, 4} x {a,b} x {u1,u2} (all orderings, since sequences are "
    "ordered; plus the length-4 (quick) / length-5 (thorough) sequences over the long duration with the token fixed by position) x 6 waveform/channel "
    "mappings (default channel, other channel, dict with distinct waveforms, dict with one waveform and "
    "two channels, each dict read with and without wc2utt).  TextGrid: per precision in {0,3,5} every "
    "time-ordered tier of 1-3 entries whose 2n boundaries are a non-decreasing sequence over a 7-point "
    "grid menu (0, one step, ..., 9.99.., 10, 12.5..; zero-length entries and point tiers included) x "
    "tokens {a,b}^n x start_time {unset, = first start, earlier} x end_time {unset, = last end, later} x "
    "tier_name {default, other} x point_tier {None, False, True} (full product for n <= 2 and, thorough, n = 3; "
    "one-factor-at-a-time + two all-changed settings for n = 3 in quick and for the additional n = 4 tiers of "
    "thorough) x read by index / by name x fill token unset / set, compared exactly (grid times are exact in "
    "the printed precision); plus a pass on n <= 2 with seed-valued sub-grid offsets (< 0.45 print step, "
    "monotone) compared with tolerance half a print step.  Tokens: every "
    "transcript of <= 2 elements (3 with a reduced time menu) over in-vocabulary / out-of-vocabulary tokens, "
    "untimed or timed from a menu of (start,end) pairs x token2id/unk settings x frame_shift_ms in "
    "{None, 10, 12.5, 0.125, 0.0625, 10/3 (, 1000/44100)} x skip_frame_times.  Distinct by construction "
    "(products of duplicate-free generators).  ALIAS / DEGENERATE SPELLINGS: read_textgrid fill token in "
    "{None, 'sil', '' (Praat's own label of an unlabelled interval), ' '} for every tier under the default "
    "write options (all options in the large shard); TextGrid tokens '' and 'x y'; trn utterance ids '', ' ' and "
    "a repeated id over every file of total size <= 2; token2id given / omitted, unk as string / as id.  LARGER / "
    "DTYPE-EXACT (one 'large' shard): sample-level frame shifts (8/16/44.1 kHz, 10 ms) of recordings long enough "
    "that frame indices exceed 2**24, 2**31 and 2**32, times strictly inside a frame, compared within one frame "
    "shift exactly as for the small cases; frame-valued ints / integer-valued floats and token ids beyond 2**24 "
    "and 2**31; ctm times up to 1.2e5 s with 6-15 decimals (all 24 orderings x 6 mappings, tolerance 1e-9 "
    "relative); TextGrid times of a day at every precision; a 2500-line trn file through the virtual pool with "
    "the default chunk size.  GLOBAL STATE: every large token case and every 16th small one is repeated under "
    "torch.set_default_dtype(float64) and must give the identical tensor and transcript.  GUARDS: the transcript "
    "lists / mapping dicts / token tensor handed to every writer, reader and converter are unchanged after the "
    "call (repr / clone comparison on every case); a fixed probe per entry point is evaluated before and after "
    "every shard and must not change, nor may the tensor kept from the first call.  OBJECT LIFECYCLE (large shard): "
    "one OPEN handle (real file and StringIO) reused after a writer raised and the caller caught it (what the failed "
    "call itself left behind is counted, not judged - see assumptions) - write_trn "
    "with an unwritable element (int / None) at top level first / middle / last / only, as a timed token, in the "
    "first / second alternate, after a token in an alternate, in a nested alternate, after an alternate, or a "
    "non-string utterance id, as its own call and in the middle / at the start of a several-utterance call, "
    "followed by three kinds of next utterance; write_ctm with a segment of negative start / negative duration / "
    "bare token / pair in first / middle / last position or an utterance missing from utt2wc; write_textgrid "
    "with an empty transcript, start_time / end_time contradicting the tier, a None time in each position; when "
    "the failed calls left nothing, the file must be byte-identical to the accepted calls written to a path on "
    "their own.  SECONDARY ENTRY POINTS: "
    "path form, open-file form and iterator forms (read_trn_iter on a file and on a path) of every reader / "
    "writer with non-ASCII tokens (IPA eth, e-acute, en-dash, CJK), ids and tier name over every trn file of "
    "size <= 2, ctm sequences of <= 2 segments x 6 mappings and TextGrid tiers of <= 2 entries x 3 precisions.  "
    "Non-trivial: trn file with a group of alternates or >1 "
    "utterance; ctm with >= 2 segments; TextGrid with >= 2 entries; token transcript with a timed entry."
)
ASSUMPTIONS = [
    "small scope: tokens {a,b}, ids free of the format's delimiters (one id set contains a space), sizes as in the rule",
    "trn: a trailing empty alternate is not expressible (reader documents the error); timed tokens only at top level",
    "ctm: times on a dyadic grid so that start+duration is exact; order among equal start times is free; "
    "an utterance without segments does not exist in a ctm file",
    "TextGrid: transcripts are in time order and non-overlapping; entries with identical (start,end) may be "
    "permuted; returned start/end are those of the tier (as read_textgrid documents), an explicit "
    "start_time/end_time of the recording is only checked for byte identity, not for recovery; with a "
    "fill token on a *point* tier only the labelled points are compared; point_tier=True with non-zero "
    "durations is lossy by request and only byte identity is checked",
    "times compared with tolerance half a print step (TextGrid), one frame shift (tokens), exactly (ctm)",
    "real multi-process scheduling: the real pool is run a handful of times for conformance only",
    "nothing is assumed about how read_trn uses its pool (whether one is created at all, which function is "
    "mapped, how lines are chunked): only the returned list is compared, for every completion order the "
    "virtual pool offers; the number of runs in which a pool was created is a counter, not a verdict",
    "large ctm times are not dyadic: start + (end - start) may differ from end in the last bit, so that pass "
    "compares times with relative tolerance 1e-9 (the dyadic passes stay exact)",
    "frame indices are explored up to 2**32 + 2e4 and token ids up to 2**31 + 7 (int64 tensor, float64 seconds); "
    "times beyond 2**53 frames are out of scope",
    "what a FAILED write leaves in an open file is outside the property (its quantifier covers transcripts "
    "expressible in the format - an int token, a non-string id or a None time is not one - and nothing is "
    "promised about failed writes; a behaviour-preserving writer that streams its output must not be reported): "
    "the reuse-after-caught-error sequences only COUNT failed_write_left_nothing / "
    "failed_write_left_partial_output per writer; the verdict of that pass is that after failed calls which "
    "left nothing, the following accepted calls give exactly the path-form bytes (no state retained in the "
    "library); a call expected to fail but accepted is counted; for a failing write_trn call of several "
    "utterances the complete utterances before the unwritable one are not 'partial output'; a second TextGrid is "
    "never written to a handle that already holds one",
    "files are opened with the platform default encoding (UTF-8 here), as the library does",
    "degenerate spellings that the formats cannot express are excluded: blank-containing or empty ctm ids / "
    "tokens, trn tokens containing blanks or braces, ids containing parentheses",
]
BUDGET_S = {"quick": 240, "thorough": 2400}

IDSETS = [("u1", "u2", "u3"), ("b", "a 1", " c ")]
IDSET_DEGENERATE = ("", " ", "")  # empty id, blank id, a repeated id: "()" and "( )" are legal trn ids
FILL = "sil"
FILLS_ALL = (None, FILL, "", " ")  # '' is Praat's own label of an unlabelled interval
OTHER_TIER = "words"


# ---------------------------------------------------------------------------------------
class _Scratch:
    def __init__(self, tag):
        self.root = f"/dev/shm/verif-{os.getpid()}"
        self.dir = os.path.join(self.root, tag)
        os.makedirs(self.dir, exist_ok=True)

    def path(self, name):
        return os.path.join(self.dir, name)

    def close(self):
        shutil.rmtree(self.dir, ignore_errors=True)
        try:
            os.rmdir(self.root)
        except OSError:
            pass


def _read_bytes(p):
    with open(p, "rb") as f:
        return f.read()


def _err(e):
    return {"error": f"{type(e).__name__}: {str(e)[-300:]}"}


# =========================================================================================
# trn
# =========================================================================================
def _trn_restore(utts):
    """JSON form -> library form (top-level non-str elements are tuples)"""
    out = []
    for u, tr in utts:
        out.append((u, [tuple(e) if isinstance(e, list) else e for e in tr]))
    return out


def _trn_eval(ctx, sc, utts, timed, files, pool=None):
    expected = T.trn_norm(utts)
    inp = [(u, T.trn_add_times(tr, timed)) for u, tr in utts]
    has_group = any(T.trn_has_group(tr) for _, tr in utts)
    flags = {"has_group": has_group,
             "has_empty_alt": any(T.trn_has_empty_alt(tr) for _, tr in utts),
             "timed_tokens": timed != "none"}
    case = {"kind": "trn", "utts": utts, "timed": timed, "files": files, "pool": pool}
    ctx.case(1, 1 if (has_group or len(utts) > 1) else 0)
    buf = io.StringIO()
    snap = repr(inp)
    try:
        D.write_trn(inp, buf)
    except Exception as e:
        ctx.violation(dict(api="write_trn", symptom="raises", type=type(e).__name__, **flags), case, _err(e))
        return
    if repr(inp) != snap:
        ctx.violation({"api": "write_trn", "symptom": "argument-mutated"}, case, {"before": snap, "after": repr(inp)})
    text = buf.getvalue()
    try:
        got = D.read_trn(io.StringIO(text), warn=False)
    except Exception as e:
        ctx.violation(dict(api="read_trn", symptom="raises", type=type(e).__name__, **flags), case,
                      dict(_err(e), text=text))
        return
    if T.trn_norm(got) != expected:
        ctx.violation(dict(api="trn", symptom="roundtrip-differs", **flags), case,
                      {"expected": expected, "observed": T.trn_norm(got), "text": text})
        return
    ctx.outcome(text)
    if files:
        ctx.case(1, 1 if (has_group or len(utts) > 1) else 0)
        p1, p2 = sc.path("w_path.trn"), sc.path("w_file.trn")
        try:
            D.write_trn(inp, p1)
            with open(p2, "w") as f:
                D.write_trn(inp, f)
            b1, b2 = _read_bytes(p1), _read_bytes(p2)
            if b1 != b2 or b1 != text.encode():
                ctx.violation({"api": "write_trn", "symptom": "path-output-differs-from-file-output"}, case,
                              {"path": b1.decode(), "file": b2.decode(), "stringio": text})
            with warnings.catch_warnings():
                warnings.simplefilter("ignore")
                r1 = D.read_trn(p1, warn=True)
                with open(p2) as f:
                    r2 = D.read_trn(f, warn=True)
                with open(p2) as f:
                    r3 = list(D.read_trn_iter(f, warn=False))
                r4 = list(D.read_trn_iter(p1, warn=False))
            for name, r in (("path", r1), ("file", r2), ("iter", r3), ("iter-path", r4)):
                if T.trn_norm(r) != expected:
                    ctx.violation({"api": "read_trn", "symptom": "result-depends-on-entry-point", "entry": name},
                                  case, {"expected": expected, "observed": T.trn_norm(r)})
        except Exception as e:
            ctx.violation(dict(api="trn", symptom="raises", entry="path-or-file", type=type(e).__name__), case,
                          _err(e))
    if pool is not None:
        procs, cs, via = pool
        p1 = sc.path("pool.trn")
        if via == "path":
            with open(p1, "w") as f:
                f.write(text)

        used_pool = []

        def run(ch):
            # only the property is demanded (same list for every completion order); whether, how often and
            # with which function / chunking the implementation uses a pool is its own business
            with VirtualPools(ch) as vp:
                src = p1 if via == "path" else io.StringIO(text)
                res = D.read_trn(src, warn=False, processes=procs, chunk_size=cs)
                used_pool.append(bool(vp.pools))
                return res

        n = 0
        for ch, res in explore(run, max_execs=720):
            n += 1
            ctx.case(1, 1 if len(utts) > 1 else 0)
            ctx.transitions += len(ch.choices)
            if isinstance(res, Exception):
                ctx.violation({"api": "read_trn", "symptom": "raises", "pool": "virtual",
                               "type": type(res).__name__}, case, dict(_err(res), schedule=ch.choices))
                break
            if T.trn_norm(res) != expected:
                ctx.violation({"api": "read_trn", "symptom": "multi-worker-result-differs", "pool": "virtual",
                               "schedule_dependent": any(c != 0 for c in ch.choices)}, case,
                              {"expected": expected, "observed": T.trn_norm(res), "schedule": ch.choices,
                               "processes": procs, "chunk_size": cs})
                break
        if n >= 720:
            ctx.capped.append("virtual pool schedules per file capped at 720")
        ctx.count("virtual_pool_schedules", n)
        ctx.count("virtual_pool_runs_in_which_a_pool_was_created", sum(used_pool))


def _trn_items(tier):
    """(index, transcripts) over the whole trn space of the tier, canonical order"""
    if tier == "quick":
        gen = itertools.chain(T.trn_files(3, 3), ([t] for t in T.trn_trees(4)))
    else:
        gen = T.trn_files(4, 3)
    return enumerate(gen)


def _trn_shard(ctx, spec, tier, seed):
    sc = _Scratch(f"trn{spec['k']}")
    try:
        for i, trs in _trn_items(tier):
            if i % spec["K"] != spec["k"]:
                continue
            ids = IDSETS[(i // spec["K"]) % 2]
            utts = [(ids[j], tr) for j, tr in enumerate(trs)]
            files = tier == "thorough" or (i // spec["K"]) % 4 == 0
            _trn_eval(ctx, sc, utts, "none", files)
            if any(isinstance(e, str) for tr in trs for e in tr):
                _trn_eval(ctx, sc, utts, "all", False)
                if tier == "thorough" and any(len(tr) > 1 and isinstance(tr[1], str) for tr in trs):
                    _trn_eval(ctx, sc, utts, "odd", False)
            if i < 3 * spec["K"] and i % 2:
                ctx.sample({"kind": "trn", "utts": utts})
    finally:
        sc.close()


def _pool_shard(ctx, spec, tier, seed):
    sc = _Scratch(f"pool{spec['k']}")
    total = 2 if tier == "quick" else 3
    try:
        for i, trs in enumerate(T.trn_files(total, 3)):
            if i % spec["K"] != spec["k"]:
                continue
            utts = [(IDSETS[0][j], tr) for j, tr in enumerate(trs)]
            for procs, cs in ((1, 1), (2, 1), (3, 1), (2, 2)):
                _trn_eval(ctx, sc, utts, "none", False, pool=(procs, cs, "file"))
            _trn_eval(ctx, sc, utts, "none", False, pool=(2, 1, "path"))
    finally:
        sc.close()


# =========================================================================================
# ctm
# =========================================================================================
_W_DISTINCT = {"u1": ("w2", "A"), "u2": ("w1", "B")}
_W_SAME = {"u1": ("w", "B"), "u2": ("w", "A")}
CTM_MAPS = {
    "default": (None, False),
    "chanB": ("B", False),
    "dict": (_W_DISTINCT, True),
    "dict-nowc": (_W_DISTINCT, False),
    "samewav": (_W_SAME, True),
    "samewav-nowc": (_W_SAME, False),
}
CTM_STARTS = (0.0, 2.25, 10.5)
CTM_DURS = (0.0, 4.0)  # zero length; long enough to overlap the next start (start order != end order)


def _ctm_segment_types(reduced):
    if reduced:
        return [(u, None, s, 4.0) for u in ("u1", "u2") for s in CTM_STARTS]
    return [(u, t, s, d) for u in ("u1", "u2") for t in ("a", "b") for s in CTM_STARTS for d in CTM_DURS]


def _ctm_transcripts(seq):
    """sequence of (utt, tok, start, dur) -> transcripts list, utterances by first appearance"""
    order, segs = [], {}
    for pos, (u, t, s, d) in enumerate(seq):
        if t is None:
            t = "ab"[pos % 2]
        if u not in segs:
            segs[u] = []
            order.append(u)
        segs[u].append((t, s, s + d))
    return [(u, segs[u]) for u in order]


def _ctm_eval(ctx, sc, transcripts, mapname, files, tol=0.0):
    utt2wc, use_wc = CTM_MAPS[mapname]
    transcripts = [(u, [tuple(x) for x in segs]) for u, segs in transcripts]
    nseg = sum(len(s) for _, s in transcripts)
    case = {"kind": "ctm", "utts": transcripts, "map": mapname, "files": files, "tol": tol}
    eff = config.DEFT_CTM_CHANNEL if utt2wc is None else utt2wc
    wc2utt = None
    if use_wc:
        wc2utt = {v: k for k, v in utt2wc.items()}
    order, groups = T.ctm_expected(transcripts, eff, wc2utt)
    wargs = () if utt2wc is None else (utt2wc,)
    flags = {"map": mapname}
    ctx.case(1, 1 if nseg >= 2 else 0)
    buf = io.StringIO()
    snap = repr((transcripts, utt2wc, wc2utt))
    try:
        D.write_ctm(transcripts, buf, *wargs)
    except Exception as e:
        ctx.violation(dict(api="write_ctm", symptom="raises", type=type(e).__name__, **flags), case, _err(e))
        return
    text = buf.getvalue()
    if not T.ctm_file_sorted(text):
        ctx.violation(dict(api="write_ctm", symptom="file-not-in-mandated-order", **flags), case, {"text": text})
    try:
        got = D.read_ctm(io.StringIO(text), wc2utt)
    except Exception as e:
        ctx.violation(dict(api="read_ctm", symptom="raises", type=type(e).__name__, **flags), case,
                      dict(_err(e), text=text))
        return
    sym = T.ctm_compare(got, order, groups, tol)
    if repr((transcripts, utt2wc, wc2utt)) != snap:
        ctx.violation(dict(api="ctm", symptom="argument-mutated", **flags), case,
                      {"before": snap, "after": repr((transcripts, utt2wc, wc2utt))})
    if sym:
        ctx.violation(dict(api="ctm", symptom=sym, **flags), case,
                      {"expected_order": order, "expected": groups, "observed": got, "text": text})
        return
    ctx.outcome(text)
    if files:
        ctx.case(1, 1 if nseg >= 2 else 0)
        p1, p2 = sc.path("w_path.ctm"), sc.path("w_file.ctm")
        try:
            D.write_ctm(transcripts, p1, *wargs)
            with open(p2, "w") as f:
                D.write_ctm(transcripts, f, *wargs)
            b1, b2 = _read_bytes(p1), _read_bytes(p2)
            if b1 != b2 or b1 != text.encode():
                ctx.violation(dict(api="write_ctm", symptom="path-output-differs-from-file-output", **flags), case,
                              {"path": b1.decode(), "file": b2.decode(), "stringio": text})
            r1 = D.read_ctm(p1, wc2utt)
            with open(p2) as f:
                r2 = D.read_ctm(f, wc2utt)
            for name, r in (("path", r1), ("file", r2)):
                if r != got:
                    ctx.violation(dict(api="read_ctm", symptom="result-depends-on-entry-point", entry=name, **flags),
                                  case, {"stringio": got, "observed": r})
        except Exception as e:
            ctx.violation(dict(api="ctm", symptom="raises", entry="path-or-file", type=type(e).__name__, **flags),
                          case, _err(e))


def _ctm_items(tier):
    full = _ctm_segment_types(False)
    red = _ctm_segment_types(True)
    nfull = 3 if tier == "quick" else 4
    gens = [itertools.product(full, repeat=n) for n in range(1, nfull + 1)]
    gens.append(itertools.product(red, repeat=4 if tier == "quick" else 5))
    return enumerate(itertools.chain(*gens))


def _ctm_shard(ctx, spec, tier, seed):
    sc = _Scratch(f"ctm{spec['k']}")
    try:
        for i, seq in _ctm_items(tier):
            if i % spec["K"] != spec["k"]:
                continue
            tr = _ctm_transcripts(seq)
            for m, name in enumerate(CTM_MAPS):
                files = (i // spec["K"] + m) % (4 if tier == "quick" else 2) == 0
                _ctm_eval(ctx, sc, tr, name, files)
            if i in (5, 700):
                ctx.sample({"kind": "ctm", "utts": tr})
    finally:
        sc.close()


# =========================================================================================
# TextGrid
# =========================================================================================
def _tg_jitter(seed, precision):
    """seed-valued sub-grid filler: offset in [0, 0.45) print steps, a function of the grid index
    (so equal times stay equal and order is preserved); None = exact grid"""
    if seed is None:
        return lambda k: 0.0
    step = 10.0 ** -precision

    def j(k):
        return random.Random(seed * 1000003 + k).uniform(0.0, 0.45) * step

    return j


def _tg_options(n, tier):
    starts, ends, names, pts = ("none", "min", "below"), ("none", "max", "above"), (None, OTHER_TIER), (None, False, True)
    if n <= 2 or (tier == "thorough" and n == 3):
        return list(itertools.product(starts, ends, names, pts))
    out = [("none", "none", None, None)]
    out += [(s, "none", None, None) for s in starts[1:]]
    out += [("none", e, None, None) for e in ends[1:]]
    out += [("none", "none", OTHER_TIER, None)]
    out += [("none", "none", None, p) for p in pts[1:]]
    out += [("below", "above", OTHER_TIER, False), ("min", "max", OTHER_TIER, True)]
    return out


def _tg_eval(ctx, sc, precision, entries, opt, files, jitter_seed=None, fills=(None, FILL)):
    """entries: [(tok, ks, ke)] grid indices; opt = (start, end, tier_name, point_tier)"""
    jit = _tg_jitter(jitter_seed, precision)
    transcript = [(t, T.tg_time(ks, precision) + jit(ks), T.tg_time(ke, precision) + jit(ke)) for t, ks, ke in entries]
    grid = [(t, T.tg_time(ks, precision), T.tg_time(ke, precision)) for t, ks, ke in entries]
    start_o, end_o, tier_name, point_tier = opt
    kmin = min(e[1] for e in entries)
    kmax = max(e[2] for e in entries)
    kw = {}
    if start_o == "min":
        kw["start_time"] = T.tg_time(kmin, precision)
    elif start_o == "below":
        if kmin == 0:
            return  # no earlier non-negative grid time: same case as "min"
        kw["start_time"] = T.tg_time(kmin - 1 if kmin < 3 else kmin // 2, precision)
    if end_o == "max":
        if jitter_seed is not None:
            return  # a jittered last end exceeds the grid value: the documented ValueError
        kw["end_time"] = T.tg_time(kmax, precision)
    elif end_o == "above":
        kw["end_time"] = T.tg_time(kmax + 3, precision)
    if tier_name is not None:
        kw["tier_name"] = tier_name
    if point_tier is not None:
        kw["point_tier"] = point_tier
    if precision != config.DEFT_FLOAT_PRINT_PRECISION or len(entries) % 2:
        kw["precision"] = precision
    case = {"kind": "tg", "precision": precision, "entries": entries, "opt": list(opt), "files": files,
            "jitter_seed": jitter_seed, "fills": list(fills)}
    snap = repr(transcript)
    all_zero = all(ks == ke for _, ks, ke in entries)
    is_point = point_tier is True or (point_tier is None and all_zero)
    nt = 1 if len(entries) >= 2 else 0
    flags = {"precision": precision, "point": is_point}
    ctx.case(1, nt)
    # ---- write: open file vs path -------------------------------------------------------
    buf = io.StringIO()
    try:
        D.write_textgrid(transcript, buf, **kw)
    except Exception as e:
        ctx.violation(dict(api="write_textgrid", symptom="raises", type=type(e).__name__, **flags), case, _err(e))
        return
    text = buf.getvalue()
    p1 = sc.path("w_path.TextGrid")
    try:
        D.write_textgrid(transcript, p1, **kw)
        with open(p1) as f:
            ptext = f.read()
        ftexts = [("stringio", text)]
        if files:
            p2 = sc.path("w_file.TextGrid")
            with open(p2, "w") as f:
                D.write_textgrid(transcript, f, **kw)
            with open(p2) as f:
                ftexts.append(("open-file", f.read()))
        if ftexts[-1][1] != text:
            ctx.violation(dict(api="write_textgrid", symptom="open-file-output-differs-from-stringio"), case,
                          {"file": ftexts[-1][1], "stringio": text})
        if ptext != text:
            # classification: the smallest set of given options whose omission from the open-file
            # call reproduces the path output = the options the path entry point does not honour
            needed, explained = [], False
            names = [k for k in ("precision", "point_tier", "tier_name", "start_time", "end_time") if k in kw]
            for r in range(1, len(names) + 1):
                for sub in itertools.combinations(names, r):
                    b = io.StringIO()
                    try:
                        D.write_textgrid(transcript, b, **{k: v for k, v in kw.items() if k not in sub})
                    except Exception:
                        continue
                    if b.getvalue() == ptext:
                        needed, explained = list(sub), True
                        break
                if explained:
                    break
            ctx.violation({"api": "write_textgrid", "symptom": "path-output-differs-from-file-output",
                           "options_ignored_by_path": "+".join(needed) if explained and needed else "unexplained"},
                          case, {"kwargs": kw, "path": ptext, "file": text})
    except Exception as e:
        ctx.violation(dict(api="write_textgrid", symptom="raises", entry="path", type=type(e).__name__, **flags),
                      case, _err(e))
    if repr(transcript) != snap:
        ctx.violation({"api": "write_textgrid", "symptom": "argument-mutated"}, case,
                      {"before": snap, "after": repr(transcript)})
    # ---- read ----------------------------------------------------------------------------
    if point_tier is True and not all_zero:
        ctx.count("tg_lossy_by_request_bytes_only")
        return
    if is_point:
        base = [(t, s, s) for t, s, _ in grid]
    else:
        base = grid
    tol = 0.5 * 10.0 ** -precision * (1 + 1e-6) + 1e-12
    if jitter_seed is None:
        tol = 1e-9  # on-grid times are exactly representable in the printed precision
    for tier_id, fill in itertools.product((0, tier_name or config.DEFT_TEXTGRID_TIER_NAME), fills):
        if fill not in (None, FILL) and tier_id != 0:
            continue  # degenerate spellings of the fill token: once (by index) is enough
        ctx.case(1, nt)
        rcase = dict(case, tier_id=tier_id, fill=fill)
        rargs = (tier_id,) if fill is None else (tier_id, fill)
        if tier_id == 0 and fill is None and len(entries) % 2:
            rargs = ()
        try:
            got, st, en = D.read_textgrid(io.StringIO(text), *rargs)
        except Exception as e:
            ctx.violation(dict(api="read_textgrid", symptom="raises", type=type(e).__name__, **flags), rcase,
                          dict(_err(e), text=text))
            continue
        got = [tuple(x) for x in got]
        if is_point and fill is not None:
            sym = T.tg_compare([x for x in got if x[0] != fill], base, tol)
            expected = base
            ctx.count("tg_point_tier_with_fill_labelled_points_only")
        else:
            expected = T.tg_expected(base, fill)
            sym = T.tg_compare(got, expected, tol)
        if ("start_time" in kw and kw["start_time"] < base[0][1] - tol and abs(st - kw["start_time"]) > tol) or (
                "end_time" in kw and abs(en - kw["end_time"]) > tol):
            ctx.count("tg_explicit_recording_bounds_not_returned_by_reader(documented: tier values)")
        if sym is None and (abs(st - base[0][1]) > tol or abs(en - max(x[2] for x in base)) > tol):
            sym = "wrong-tier-bounds"
        if sym:
            model = T.tg_string_sorted_model(transcript, fill, precision, is_point)
            ctx.violation(dict(api="read_textgrid", symptom=sym, fill=fill is not None,
                               fill_spelling={None: "none", FILL: "word", "": "empty", " ": "blank"}[fill],
                               observed_is_lexicographic_time_order=(got == model), **flags), rcase,
                          {"expected": expected, "observed": got, "bounds": [st, en], "text": text})
        else:
            ctx.outcome([got, st, en])
        if files:
            try:
                r1 = D.read_textgrid(p1 if ptext == text else sc.path("w_file.TextGrid"), *rargs)
                with open(sc.path("w_file.TextGrid")) as f:
                    r2 = D.read_textgrid(f, *rargs)
                for name, r in (("path", r1), ("file", r2)):
                    if ([tuple(x) for x in r[0]], r[1], r[2]) != (got, st, en):
                        ctx.violation(dict(api="read_textgrid", symptom="result-depends-on-entry-point", entry=name),
                                      rcase, {"stringio": [got, st, en], "observed": r})
            except Exception as e:
                ctx.violation(dict(api="read_textgrid", symptom="raises", entry="path-or-file",
                                   type=type(e).__name__), rcase, _err(e))


def _tg_items(precision, tier):
    menu = T.tg_menu(precision)
    idx = 0
    for n in (1, 2, 3):
        for b in T.tg_boundaries(n, menu):
            for toks in itertools.product("ab", repeat=n):
                yield idx, [(toks[i], b[2 * i], b[2 * i + 1]) for i in range(n)]
                idx += 1
    if tier == "thorough":
        for b in T.tg_boundaries(4, menu):
            for toks in itertools.product("ab", repeat=4):
                yield idx, [(toks[i], b[2 * i], b[2 * i + 1]) for i in range(4)]
                idx += 1


def _tg_shard(ctx, spec, tier, seed):
    sc = _Scratch(f"tg{spec['precision']}_{spec['k']}")
    p = spec["precision"]
    try:
        for i, entries in _tg_items(p, tier):
            if i % spec["K"] != spec["k"]:
                continue
            n = len(entries)
            for oi, opt in enumerate(_tg_options(n, tier)):
                files = (i // spec["K"] + oi) % (8 if tier == "quick" else 3) == 0
                _tg_eval(ctx, sc, p, entries, opt, files, fills=FILLS_ALL if oi == 0 else (None, FILL))
            if n <= 2:
                for opt in (("none", "none", None, None), ("below", "above", None, False),
                            ("none", "above", OTHER_TIER, None)):
                    _tg_eval(ctx, sc, p, entries, opt, False, jitter_seed=seed)
            if i == 40:
                ctx.sample({"kind": "tg", "precision": p, "entries": entries})
    finally:
        sc.close()


# =========================================================================================
# transcript <-> token tensor
# =========================================================================================
V1 = {"a": 0, "b": 1}
V2 = {"a": 0, "b": 1, "<unk>": 2}
TOK_VOCABS = [  # (name, token2id, unk, in-vocabulary tokens, out-of-vocabulary token or None)
    ("ids", None, None, (3, 5), None),
    ("ids-unk-ignored", None, 9, (3, 5), None),
    ("map", V1, None, ("a", "b"), 5),
    ("map-unk-id", V1, 7, ("a", "b"), "c"),
    ("map+unk", V2, None, ("a", "b"), 5),
    ("map+unk-token", V2, "<unk>", ("a", "b"), "c"),
    ("map+unk-id", V2, 7, ("a", "b"), "c"),
]
TOK_SECONDS = (0.0, 0.005, 0.03, 0.57, 4.35, 10.0)
TOK_FRAMES = ((0, 0), (0, 1), (3, 7), (7, 7))


def _tok_shifts(tier):
    s = [None, 10, 12.5, 0.125, 0.0625, 10 / 3]
    if tier == "thorough":
        s.append(1000 / 44100)
    return s


def _tok_times(shift, reduced):
    if shift is None:
        return list(TOK_FRAMES[:3] if reduced else TOK_FRAMES)
    if reduced:
        return [(0.0, 0.0), (0.005, 0.03), (0.57, 4.35)]
    return [(s, e) for s in TOK_SECONDS for e in TOK_SECONDS if s <= e]


class _DefaultDtype:
    """global torch state: run the body under another default floating dtype, always restored"""

    def __init__(self, dtype):
        self.dtype = dtype

    def __enter__(self):
        self.saved = torch.get_default_dtype()
        torch.set_default_dtype(self.dtype)

    def __exit__(self, *exc):
        torch.set_default_dtype(self.saved)
        return False


def _vocab_by_name(name):
    return [v for v in TOK_VOCABS + TOK_VOCABS_LARGE if v[0] == name][0]


def _tok_eval(ctx, transcript, vocab, shift, skip, dtype="float32"):
    """returns (tensor as list, transcript read back) or None"""
    name, token2id, unk, _, _ = vocab
    transcript = [tuple(e) if isinstance(e, (list, tuple)) else e for e in transcript]
    case = {"kind": "tok", "transcript": transcript, "vocab": name, "frame_shift_ms": shift, "skip": skip,
            "default_dtype": dtype}
    timed = any(isinstance(e, tuple) for e in transcript)
    ctx.case(1, 1 if timed else 0)
    flags = {"vocab": name, "frame_shift": shift is not None, "skip_frame_times": skip}
    snap = repr((transcript, token2id))
    with _DefaultDtype(torch.float64 if dtype == "float64" else torch.float32):
        try:
            tok = D.transcript_to_token(transcript, token2id, shift, unk, skip)
        except Exception as e:
            ctx.violation(dict(api="transcript_to_token", symptom="raises", type=type(e).__name__, **flags), case,
                          _err(e))
            return None
        if repr((transcript, token2id)) != snap:
            ctx.violation({"api": "transcript_to_token", "symptom": "argument-mutated"}, case,
                          {"before": snap, "after": repr((transcript, token2id))})
        want_shape = (len(transcript),) if skip else (len(transcript), 3)
        if tuple(tok.shape) != want_shape or tok.dtype != torch.long:
            ctx.violation(dict(api="transcript_to_token", symptom="wrong-shape-or-dtype", **flags), case,
                          {"shape": list(tok.shape), "dtype": str(tok.dtype), "expected": list(want_shape)})
            return None
        id2token = None if token2id is None else {v: k for k, v in token2id.items()}
        snap2 = repr(id2token)
        kept = tok.clone()
        try:
            back = D.token_to_transcript(tok, id2token, shift)
        except Exception as e:
            ctx.violation(dict(api="token_to_transcript", symptom="raises", type=type(e).__name__, **flags), case,
                          _err(e))
            return None
        if not torch.equal(tok, kept) or repr(id2token) != snap2:
            ctx.violation({"api": "token_to_transcript", "symptom": "argument-mutated"}, case,
                          {"before": kept, "after": tok})
    exp = T.tok_expected(transcript, token2id, unk, shift, skip)
    sym = T.tok_compare(back, exp)
    if sym:
        big = any(isinstance(e, tuple) and shift and 1000 * e[2] / shift >= 2 ** 24 for e in transcript)
        ctx.violation(dict(api="token_roundtrip", symptom=sym, default_dtype=dtype,
                           frame_index_at_least_2p24=bool(big), **flags), case,
                      {"tensor": tok, "expected(token,(start,end,tol))": exp, "observed": back})
    else:
        ctx.outcome([tok.tolist(), name])
    return tok.tolist(), back


def _tok_both_dtypes(ctx, transcript, vocab, shift, skip):
    """global state: the same call under the float32 and the float64 default dtype - identical results"""
    r32 = _tok_eval(ctx, transcript, vocab, shift, skip, "float32")
    r64 = _tok_eval(ctx, transcript, vocab, shift, skip, "float64")
    if r32 is not None and r64 is not None and r32 != r64:
        ctx.violation({"api": "transcript_to_token", "symptom": "result-depends-on-default-dtype",
                       "vocab": vocab[0], "frame_shift": shift is not None}, 
                      {"kind": "tok", "transcript": transcript, "vocab": vocab[0], "frame_shift_ms": shift,
                       "skip": skip, "default_dtype": "both"},
                      {"float32": r32, "float64": r64})
    ctx.count("tok_cases_repeated_under_float64_default")


def _tok_shard(ctx, spec, tier, seed):
    i = 0
    for vocab in TOK_VOCABS:
        _, _, _, inv, oov = vocab
        tokens = list(inv) + ([oov] if oov is not None else [])
        for shift in _tok_shifts(tier):
            for n in (0, 1, 2, 3):
                times = _tok_times(shift, reduced=(n == 3))
                elems = [t for t in tokens] + [(t, s, e) for t in tokens for (s, e) in times]
                for tr in itertools.product(elems, repeat=n):
                    i += 1
                    if i % spec["K"] != spec["k"]:
                        continue
                    for skip in (False, True):
                        if (i // spec["K"]) % 16 == 0:
                            _tok_both_dtypes(ctx, list(tr), vocab, shift, skip)
                        else:
                            _tok_eval(ctx, list(tr), vocab, shift, skip)
                    if i == 5000 + spec["k"]:
                        ctx.sample({"kind": "tok", "transcript": list(tr), "vocab": vocab[0], "frame_shift_ms": shift})


# =========================================================================================
# larger / dtype-exact / degenerately spelled instances (one shard)
# =========================================================================================
P24, P31 = 2 ** 24, 2 ** 31
TOK_VOCABS_LARGE = [
    ("large-ids", None, None, (P24 + 1, P31 + 7), None),
    ("large-map", {"a": 0, "b": P24 + 1, "<unk>": P31 + 7}, "<unk>", ("a", "b"), "c"),
]


def _large_tok(ctx):
    """frame indices and token ids beyond 2**24 (float32 mantissa) and 2**31 (int32): sample-level frame
    shifts of long recordings, times strictly inside a frame so that floor / round are unambiguous"""
    for vocab in TOK_VOCABS_LARGE + [_vocab_by_name("map+unk-token"), _vocab_by_name("ids")]:
        _, _, _, inv, oov = vocab
        t0, t1 = inv
        t2 = oov if oov is not None else t0
        for rate, first in ((16000, 67200001), (44100, 105840001), (8000, 40000003), (100, P24 + 5),
                            (16000, P31 + 12345), (44100, 2 ** 32 + 7)):
            n = first
            tr = [(t0, 12.25, 12.5), (t1, (n + 0.3) / rate, (n + 8000 + 0.2) / rate), t2,
                  (t2, (n + 12002 + 0.3) / rate, (n + 13005 + 0.2) / rate),
                  (t0, (n + 20001 + 0.3) / rate, (n + 20001 + 0.3) / rate)]
            for skip in (False, True):
                _tok_both_dtypes(ctx, tr, vocab, 1000 / rate, skip)
                _tok_both_dtypes(ctx, tr[1:2], vocab, 1000 / rate, skip)
        # times already in frames: integers and integer-valued floats beyond 2**24 / 2**31 / 2**53 is excluded
        for frames in ([(t0, P24 + 1, P24 + 3), t1, (t2, P31 + 1, 2 ** 33 + 5)],
                       [(t0, float(P24 + 1), float(P24 + 3)), (t1, float(P31 + 1), float(2 ** 33 + 5))],
                       [(t1, P24 + 1, float(P31 + 3))]):
            for skip in (False, True):
                _tok_both_dtypes(ctx, frames, vocab, None, skip)


CTM_LARGE = [
    ("u1", [("a", 86399.123456, 86400.000001), ("b", 0.1, 0.30000000000000004),
            ("a", 123456.789012, 123456.789013), ("b", 1234.5678, 98765.4321)]),
    ("u2", [("b", 3.141592653589793, 3.141592653589793), ("a", 1e-06, 2e-06), ("a", 100000.000001, 100000.000002)]),
]


def _large_ctm(ctx, sc):
    """large times with many decimals: a writer printing a fixed number of decimals loses them (the dyadic
    menu prints exactly in two decimals).  start + (end - start) need not be `end` to the last bit: 1e-9"""
    for perm1 in itertools.permutations(CTM_LARGE[0][1]):
        for perm2 in (CTM_LARGE[1][1], CTM_LARGE[1][1][::-1]):
            for order in ((0, 1), (1, 0)):
                utts = [("u1", list(perm1)), ("u2", list(perm2))]
                utts = [utts[o] for o in order]
                for m, name in enumerate(CTM_MAPS):
                    _ctm_eval(ctx, sc, utts, name, m == 0, tol=1e-9)


def _large_tg(ctx, sc):
    """times of hours at every precision (many digits before the point), every fill spelling; tokens
    spelled '' (Praat's unlabelled interval) and with an inner blank"""
    for p in (0, 3, 5):
        u = 10 ** p
        big = [86399 * u + u // 8, 86400 * u, 100000 * u + 1, 123456 * u + (u * 789) // 1000]
        for n in (1, 2):
            for b in itertools.combinations_with_replacement(big, 2 * n):
                entries = [("ab"[i % 2], b[2 * i], b[2 * i + 1]) for i in range(n)]
                for oi, opt in enumerate(_tg_options(3, "quick")):
                    _tg_eval(ctx, sc, p, entries, opt, oi % 3 == 0, fills=FILLS_ALL)
        menu = T.tg_menu(p)
        for n in (1, 2):
            for b in T.tg_boundaries(n, menu):
                for toks in itertools.product(("", "x y"), repeat=n):
                    entries = [(toks[i], b[2 * i], b[2 * i + 1]) for i in range(n)]
                    for opt in (("none", "none", None, None), ("none", "none", OTHER_TIER, False)):
                        _tg_eval(ctx, sc, p, entries, opt, False, fills=(None, FILL))


def _degenerate_trn(ctx, sc):
    """empty / blank / repeated utterance ids"""
    for i, trs in enumerate(T.trn_files(2, 3)):
        utts = [(IDSET_DEGENERATE[j], tr) for j, tr in enumerate(trs)]
        _trn_eval(ctx, sc, utts, "none", i % 4 == 0)
        if i % 16 == 0:
            _trn_eval(ctx, sc, utts, "none", False, pool=(2, 1, "file"))


def _large_pool(ctx, sc):
    """a file that crosses the default chunk size (1000 lines) of the multi-worker reader"""
    utts = [(f"utt{i}", ["a"] * (i % 3) + [([["b"], [], ["a", "b"]], -1, -1)] * (i % 2) + ["b"]) for i in range(2500)]
    _trn_eval(ctx, sc, utts, "none", True, pool=(2, config.DEFT_CHUNK_SIZE, "file"))
    _trn_eval(ctx, sc, utts, "none", False, pool=(3, 1000, "path"))
    _trn_eval(ctx, sc, utts[:7], "none", False, pool=(2, 2, "file"))



# =========================================================================================
# secondary entry points with non-ASCII text; writers reused after a caught exception
# =========================================================================================
NONASCII_SUBS = [{"a": "ð", "b": "語"}, {"a": "é–", "b": "aðb"}]  # IPA eth, CJK; e-acute+en-dash
NONASCII_IDS = ("ü1", "語", "u–3")
NONASCII_TIER = "wörter–語"


def _trn_sub(x, sub):
    if isinstance(x, str):
        return sub.get(x, x)
    if isinstance(x, tuple):
        return (_trn_sub(x[0], sub),) + tuple(x[1:])
    return [_trn_sub(v, sub) for v in x]


def _nonascii(ctx, sc):
    """every reader / writer through its path form, its open-file form and the iterator form, with
    non-ASCII tokens, ids and tier names: identical results, exact round trip"""
    for si, sub in enumerate(NONASCII_SUBS):
        for i, trs in enumerate(T.trn_files(2, 3)):
            utts = [(NONASCII_IDS[j], _trn_sub(tr, sub)) for j, tr in enumerate(trs)]
            _trn_eval(ctx, sc, utts, "none", True)
            if i % 8 == si:
                _trn_eval(ctx, sc, utts, "all", False, pool=(2, 1, "path"))
        for n in (1, 2):
            for seq in itertools.product(_ctm_segment_types(False), repeat=n):
                if n == 2 and (seq[0][3] or seq[1][3] == 0.0):
                    continue  # reduced: first zero-length, second long
                tr = [(u, [(sub[t], s, e) for t, s, e in segs]) for u, segs in _ctm_transcripts(seq)]
                for name in CTM_MAPS:
                    _ctm_eval(ctx, sc, tr, name, True)
                ren = {"u1": NONASCII_IDS[0], "u2": NONASCII_IDS[1]}
                _ctm_eval(ctx, sc, [(ren[u], segs) for u, segs in tr], "default", True)
        for p in (0, 3, 5):
            menu = T.tg_menu(p)
            for n in (1, 2):
                for b in T.tg_boundaries(n, menu):
                    entries = [(sub["ab"[i % 2]], b[2 * i], b[2 * i + 1]) for i in range(n)]
                    for opt in (("none", "none", None, None), ("below", "above", NONASCII_TIER, False)):
                        _tg_eval(ctx, sc, p, entries, opt, True, fills=(None, FILL, "–"))


# ---- writers reused after a caught exception ------------------------------------------------
def _path_bytes(sc, fmt, payload, kw):
    """what the accepted payload gives when written to a path on its own"""
    p = sc.path("accepted." + fmt)
    if fmt == "trn":
        if not payload:
            return b""
        D.write_trn(payload, p)
    elif fmt == "ctm":
        D.write_ctm(payload, p, **kw)
    else:
        D.write_textgrid(payload, p, **kw)
    return _read_bytes(p)


def _call_writer(fmt, payload, handle, kw):
    if fmt == "trn":
        D.write_trn(payload, handle)
    elif fmt == "ctm":
        D.write_ctm(payload, handle, **kw)
    else:
        D.write_textgrid(payload, handle, **kw)


def _reuse_eval(ctx, sc, fmt, steps, handle_kind, label):
    """steps: list of dicts {payload, kw, fails: bool, bad_index: int or None}.  One writer call per step on
    ONE open handle; failing calls are caught and the handle is used again.

    What a FAILED call leaves in the file is outside the property (an int token / non-string id / None time is
    not a transcript expressible in the format, and nothing is promised about failed writes): it is only
    COUNTED per writer (failed_write_left_nothing / failed_write_left_partial_output; for a failing trn call of
    several utterances any number of the complete utterances before the unwritable one counts as nothing
    partial), and a sequence in which a failed call left partial output gets no verdict.  VERDICT: after failed
    calls that left nothing, the accepted calls must give exactly the bytes they give when written to a path on
    their own - a failed call must not corrupt later legal writes through state retained in the library."""
    writer = "write_" + ("textgrid" if fmt == "tg" else fmt)

    def _content():
        if handle_kind == "file":
            handle.flush()
            return _read_bytes(hp)
        return handle.getvalue().encode()

    case = {"kind": "reuse", "fmt": fmt, "steps": steps, "handle": handle_kind, "label": label}
    ctx.case(1, 1)
    if handle_kind == "file":
        hp = sc.path("reused." + fmt)
        handle = open(hp, "w")
    else:
        handle = io.StringIO()
    options = [b""]
    try:
        for st in steps:
            payload = _trn_restore(st["payload"]) if fmt == "trn" else st["payload"]
            if fmt != "trn":
                payload = [tuple(x) if isinstance(x, list) and fmt == "tg" else x for x in payload]
            kw = dict(st.get("kw") or {})
            if "utt2wc" in kw and isinstance(kw["utt2wc"], dict):
                kw["utt2wc"] = {k: tuple(v) for k, v in kw["utt2wc"].items()}
            if not st["fails"]:
                _call_writer(fmt, payload, handle, kw)
                add = [_path_bytes(sc, fmt, payload, kw)]
            else:
                try:
                    _call_writer(fmt, payload, handle, kw)
                except Exception:
                    pass
                else:
                    ctx.count("reuse_expected_failure_was_accepted_by_the_writer(no verdict)")
                    return
                if fmt == "trn" and st.get("bad_index"):
                    add = [_path_bytes(sc, fmt, payload[:k], kw) for k in range(st["bad_index"] + 1)]
                else:
                    add = [b""]
                now = _content()
                admissible = [o + a for o in options for a in add]
                if now not in admissible:
                    ctx.count(f"failed_write_left_partial_output:{writer}")
                    ctx.count(f"failed_write_left_partial_output:{writer}:{label.split(':')[0]}")
                    return  # bytes already in the file: outside the property, no verdict for this sequence
                ctx.count(f"failed_write_left_nothing:{writer}")
                options = [now]
                continue
            options = [o + a for o in options for a in add]
        if handle_kind == "file":
            handle.close()
            got = _read_bytes(hp)
        else:
            got = handle.getvalue().encode()
    except Exception as e:
        ctx.violation({"api": "write_" + ("textgrid" if fmt == "tg" else fmt), "symptom": "raises",
                       "entry": "reused-handle", "type": type(e).__name__}, case, _err(e))
        return
    finally:
        if handle_kind == "file" and not handle.closed:
            handle.close()
    if got not in options:
        ctx.violation({"api": writer,
                       "symptom": "legal-writes-after-a-failed-call-that-left-nothing-differ-from-path-output",
                       "unwritable": label.split(":")[0]}, case,
                      {"expected_one_of": [o.decode() for o in options], "observed": got.decode()})
    else:
        ctx.outcome([fmt, got.decode()])


def _reuse_trn_cases():
    first = ("u0", ["a"])
    nexts = [("u9", ["c", "d"]), ("u9", [([["c"], ["d"]], -1, -1)]), ("u9", [])]
    for X in (5, None):
        bads = [
            ("element:top-first", ("u1", [X, "a"])),
            ("element:top-middle", ("u1", ["a", X, "b"])),
            ("element:top-last", ("u1", ["a", "b", X])),
            ("element:only", ("u1", [X])),
            ("element:timed-token", ("u1", ["a", (X, 0.25, 0.5)])),
            ("element:alternate-first", ("u1", ["a", ([[X], ["b"]], -1, -1)])),
            ("element:alternate-second", ("u1", ["a", ([["b"], [X, "a"]], -1, -1)])),
            ("element:alternate-after-token", ("u1", [([["b", X]], -1, -1)])),
            ("element:nested-alternate", ("u1", ["b", ([["a", [["b"], [X]]]], -1, -1), "a"])),
            ("element:after-alternate", ("u1", [([["a"]], -1, -1), X])),
            ("utt_id:not-a-string", (X, ["a", "b"])),
        ]
        for label, bad in bads:
            for nx in nexts:
                yield label, [{"payload": [first], "fails": False}, {"payload": [bad], "fails": True},
                              {"payload": [nx], "fails": False}, {"payload": [("u10", ["b"])], "fails": False}]
            # the unwritable utterance in the middle / at the end / at the start of ONE call
            yield label, [{"payload": [first, ("u2", ["b", "b"]), bad, nexts[0]], "fails": True, "bad_index": 2},
                          {"payload": [nexts[1]], "fails": False}]
            yield label, [{"payload": [bad, first], "fails": True, "bad_index": 0}, {"payload": [nexts[0]], "fails": False}]


def _reuse_ctm_cases():
    good1 = [("u1", [("a", 0.0, 4.0), ("b", 2.25, 2.25)])]
    good2 = [("u2", [("b", 10.5, 14.5)]), ("u1", [("a", 2.25, 6.25)])]
    badsegs = [("negative-start", ("a", -1.0, 2.0)), ("negative-duration", ("a", 2.0, 1.0)), ("bare-token", "a"),
               ("pair", ("a", 1.0))]
    for mapname in ("default", "samewav"):
        utt2wc = CTM_MAPS[mapname][0]
        kw = {} if utt2wc is None else {"utt2wc": utt2wc}
        for label, seg in badsegs:
            for pos in (0, 1, 2):
                segs = [("a", 0.0, 0.0), ("b", 2.25, 6.25)]
                segs.insert(pos, seg)
                for bad in ([("u2", segs)], [("u1", [("b", 0.0, 4.0)]), ("u2", segs)]):
                    yield "segment:" + label, [{"payload": good1, "kw": kw, "fails": False},
                                               {"payload": bad, "kw": kw, "fails": True},
                                               {"payload": good2, "kw": kw, "fails": False}]
        yield "utterance:missing-from-utt2wc", [
            {"payload": good1, "kw": kw, "fails": False},
            {"payload": [("u1", [("a", 0.0, 4.0)]), ("zz", [("b", 1.0, 2.0)])], "kw": {"utt2wc": _W_SAME}, "fails": True},
            {"payload": good2, "kw": kw, "fails": False}]


def _reuse_tg_cases():
    good = [("a", 0.25, 0.5), ("b", 2.0, 12.5)]
    for precision in (0, 3, 5):
        kw = {"precision": precision}
        bads = [("transcript:empty", [], kw),
                ("option:start_time-after-first-start", good, dict(kw, start_time=1.0)),
                ("option:end_time-before-last-end", good, dict(kw, end_time=3.0))]
        for pos in (0, 1, 2):
            tr = list(good)
            tr.insert(pos, ("a", None, 1.0))
            bads.append(("time:none", tr, kw))
            tr = list(good)
            tr.insert(pos, ("a", 1.0, None))
            bads.append(("time:none", tr, kw))
        for label, bad, bkw in bads:
            yield label, [{"payload": bad, "kw": bkw, "fails": True},
                          {"payload": good, "kw": dict(kw, tier_name=OTHER_TIER), "fails": False}]


def _reuse_after_error(ctx, sc):
    """object lifecycle: an open handle reused after a writer raised and the caller caught it"""
    for fmt, gen in (("trn", _reuse_trn_cases), ("ctm", _reuse_ctm_cases), ("tg", _reuse_tg_cases)):
        for label, steps in gen():
            for hk in ("file", "stringio"):
                _reuse_eval(ctx, sc, fmt, steps, hk, label)


def _large_shard(ctx, spec, tier, seed):
    sc = _Scratch("large")
    try:
        _reuse_after_error(ctx, sc)
        _nonascii(ctx, sc)
        _large_tok(ctx)
        _large_ctm(ctx, sc)
        _large_tg(ctx, sc)
        _degenerate_trn(ctx, sc)
        _large_pool(ctx, sc)
    finally:
        sc.close()


# =========================================================================================
# results independent of earlier calls
# =========================================================================================
def _probe():
    """one fixed input per entry point; evaluated before and after every shard (thousands of unrelated
    calls in between): the results must be identical, and a tensor kept from the first call unchanged"""
    out = []
    b = io.StringIO()
    D.write_trn([("u1", ["a", ([[], ["b"]], -1, -1)]), ("", [])], b)
    out.append((b.getvalue(), T.trn_norm(D.read_trn(io.StringIO(b.getvalue()), warn=False))))
    b = io.StringIO()
    D.write_ctm([("u2", [("a", 2.25, 6.25), ("b", 0.0, 0.0)]), ("u1", [("a", 10.5, 10.5)])], b, _W_SAME)
    out.append((b.getvalue(), D.read_ctm(io.StringIO(b.getvalue()), {v: k for k, v in _W_SAME.items()})))
    b = io.StringIO()
    D.write_textgrid([("a", 2.0, 3.0), ("b", 10.0, 11.5)], b, 0.0, 20.0, precision=5)
    out.append((b.getvalue(), [D.read_textgrid(io.StringIO(b.getvalue()), 0, f) for f in FILLS_ALL]))
    tok = D.transcript_to_token([("a", 0.005, 0.03), "c", ("b", 4200.75, 4200.8)], V2, 0.0625, "<unk>")
    out.append((tok.tolist(), D.token_to_transcript(tok, {v: k for k, v in V2.items()}, 0.0625)))
    return repr(out), tok


# =========================================================================================
# driver
# =========================================================================================
def shards(tier, seed):
    q = tier == "quick"
    out = []
    K = 8 if q else 40
    out += [{"kind": "trn", "k": k, "K": K} for k in range(K)]
    K = 2 if q else 8
    out += [{"kind": "pool", "k": k, "K": K} for k in range(K)]
    K = 4 if q else 24
    out += [{"kind": "ctm", "k": k, "K": K} for k in range(K)]
    K = 4 if q else 16
    out += [{"kind": "tg", "precision": p, "k": k, "K": K} for p in (0, 3, 5) for k in range(K)]
    K = 4 if q else 8
    out += [{"kind": "tok", "k": k, "K": K} for k in range(K)]
    out.insert(0, {"kind": "large", "k": 0, "K": 1})
    return out


def run_shard(spec, tier, seed):
    ctx = Ctx()
    before, tok0 = _probe()
    kept = Kept(tok0)
    {"trn": _trn_shard, "pool": _pool_shard, "ctm": _ctm_shard, "tg": _tg_shard, "tok": _tok_shard,
     "large": _large_shard}[spec["kind"]](ctx, spec, tier, seed)
    after, _ = _probe()
    ctx.case(1, 1)
    if after != before:
        ctx.violation({"api": "any", "symptom": "result-depends-on-earlier-calls"}, {"kind": "probe", "spec": spec},
                      {"before": before, "after": after})
    try:
        kept.check()
    except AssertionError as e:
        ctx.violation({"api": "transcript_to_token", "symptom": "kept-result-changed-by-later-calls"},
                      {"kind": "probe", "spec": spec}, _err(e))
    if torch.get_default_dtype() != torch.float32:
        ctx.violation({"api": "harness", "symptom": "default-dtype-not-restored"}, {"kind": "probe", "spec": spec}, {})
    return ctx


REAL_POOL_CORPORA = [
    [("u1", ["a", ([["b"], ["a", [["b"], ["a"]]]], -1, -1)]), ("u2", []), ("u3", ["b"])],
    [("b", [([[], ["a"]], -1, -1), "b"]), ("a 1", ["a", "a"]), (" c ", [([[[["a"]]]], -1, -1)])],
]


def _real_pool(ctx, tier):
    """conformance of the virtual pool: the same files through the real (fork) pool; parent process"""
    sc = _Scratch("realpool")
    try:
        big = [(f"utt{i}", ["a"] * (i % 3) + [([["b"], ["a", "b"]], -1, -1)] * (i % 2) + ["b"]) for i in range(40)]
        runs = [(REAL_POOL_CORPORA[0], 2, 1, "file")]
        if tier == "thorough":
            runs += [(REAL_POOL_CORPORA[0], 3, 1, "path"), (REAL_POOL_CORPORA[1], 2, 1, "file"),
                     (REAL_POOL_CORPORA[1], 1, 2, "file"), (big, 3, 1, "file"), (big, 2, 7, "file"),
                     (big, 4, 1000, "path")]
        else:
            runs += [(big, 3, 1, "file")]
        for utts, procs, cs, via in runs:
            case = {"kind": "trn-real-pool", "utts": utts, "processes": procs, "chunk_size": cs, "via": via}
            expected = T.trn_norm(utts)
            ctx.case(1, 1)
            try:
                p = sc.path("real.trn")
                D.write_trn(utts, p)
                serial = D.read_trn(p, warn=False)
                if via == "path":
                    res = D.read_trn(p, warn=False, processes=procs, chunk_size=cs)
                else:
                    with open(p) as f:
                        res = D.read_trn(f, warn=False, processes=procs, chunk_size=cs)
                # the virtual pool on the same text
                with open(p) as f:
                    text = f.read()
                virt = []

                def run(ch):
                    with VirtualPools(ch):
                        return D.read_trn(io.StringIO(text), warn=False, processes=procs, chunk_size=cs)

                for ch, r in explore(run, max_execs=24):
                    virt.append(r)
            except Exception as e:
                ctx.violation({"api": "read_trn", "symptom": "raises", "pool": "real", "type": type(e).__name__},
                              case, _err(e))
                continue
            ctx.traces += 1
            if T.trn_norm(res) != expected or T.trn_norm(serial) != expected:
                ctx.violation({"api": "read_trn", "symptom": "multi-worker-result-differs", "pool": "real"}, case,
                              {"expected": expected, "observed": T.trn_norm(res), "serial": T.trn_norm(serial)})
            elif any(isinstance(r, Exception) or T.trn_norm(r) != T.trn_norm(res) for r in virt):
                ctx.violation({"api": "read_trn", "symptom": "virtual-pool-disagrees-with-real-pool"}, case,
                              {"real": T.trn_norm(res)})
    finally:
        sc.close()


def finalize(total, tier, seed):
    _real_pool(total, tier)


def replay(case):
    ctx = Ctx()
    sc = _Scratch("replay")
    try:
        kind = case["kind"]
        if kind == "trn":
            pool = tuple(case["pool"]) if case.get("pool") else None
            _trn_eval(ctx, sc, _trn_restore(case["utts"]), case["timed"], case["files"], pool)
        elif kind == "trn-real-pool":
            _real_pool(ctx, "thorough")
        elif kind == "ctm":
            _ctm_eval(ctx, sc, case["utts"], case["map"], case["files"], case.get("tol", 0.0))
        elif kind == "tg":
            entries = [tuple(e) for e in case["entries"]]
            _tg_eval(ctx, sc, case["precision"], entries, tuple(case["opt"]), True, case.get("jitter_seed"),
                     tuple(case.get("fills", (None, FILL))))
        elif kind == "tok":
            vocab = _vocab_by_name(case["vocab"])
            if case.get("default_dtype") == "both":
                _tok_both_dtypes(ctx, case["transcript"], vocab, case["frame_shift_ms"], case["skip"])
            else:
                _tok_eval(ctx, case["transcript"], vocab, case["frame_shift_ms"], case["skip"],
                          case.get("default_dtype", "float32"))
        elif kind == "reuse":
            _reuse_eval(ctx, sc, case["fmt"], case["steps"], case["handle"], case["label"])
        elif kind == "probe":
            ctx.merge(run_shard(case["spec"], "quick", 0))
        else:
            raise ValueError(f"unknown case kind {kind}")
    finally:
        sc.close()
    return ctx
