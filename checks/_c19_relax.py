"""C19 helper: relaxation-based estimators (value only) with the uniform noise integrated on a
fixed quadrature grid, and consistency of the relaxed distributions on a parameter x noise grid.

The library draws its noise through torch.rand / torch.rand_like; ScriptedRandom hands in the
grid points instead (callable ``uniform``), laid out along extra batch dimensions of the
proposal, so one call of the estimator evaluates every quadrature node.
"""

import itertools
import math

import torch

import pydrobert.torch.distributions as D
import pydrobert.torch.estimators as E
import pydrobert.torch.modules as M

from mc.explore import Chooser
from mc.runner import h64
from mc.seams import ScriptedRandom, MENU_FULL
from mc.oracles import estimators as O
from checks._c19_tree import close, DT, TOL


def _logit(p, eps=2.0 ** -23):
    """log-odds; probabilities 0 and 1 are clamped as torch does for float32 (the relaxed
    distributions clamp too, so P(b=1) is eps rather than 0 - far below the tolerance)"""
    p = min(max(p, eps), 1.0 - eps)
    return math.log(p) - math.log1p(-p)


# ---------------------------------------------------------------------------------------
# (a) product midpoint grids, relaxed Bernoulli, probability on a cell edge
def _grid_uniform(K, N, with_v):
    grid = torch.tensor(O.midpoints(K), dtype=torch.float64)
    per = 2 if with_v else 1
    cnt = [0]

    def uni(shape, dt, device, label, ch):
        # the unconditional noise u is the first uniform draw of an estimator call and the conditional noise v the
        # second - told apart by ORDER, never by which torch function draws them (on this product grid the two axes
        # are interchangeable, so even the order does not matter here)
        is_v = with_v and cnt[0] % 2 == 1
        cnt[0] += 1
        nb = per * N
        if tuple(shape) != (N,) + (K,) * nb:
            raise AssertionError(f"unexpected noise shape {tuple(shape)} for {label}")
        rows = []
        for n in range(N):
            axis = per * n + (1 if is_v else 0)
            view = [1] * nb
            view[axis] = K
            rows.append(grid.view(view).expand((K,) * nb))
        return torch.stack(rows).to(dt).contiguous()

    return uni


def _lb_funcs(cfg, dtype, logit0):
    t0, t1 = cfg["f"]
    is_log = cfg["is_log"]
    if is_log:
        f = lambda b: (t0 + (t1 - t0) * b).log()
    else:
        f = lambda b: t0 + (t1 - t0) * b
    cs = cfg.get("cv")
    cv = None
    if cs:
        if cs["kind"] == "ulinear":
            # c(z) = d + a * sigmoid(z - logit): linear in the uniform number behind z
            lin = lambda z: cs["d"] + cs["a"] * (z - logit0).sigmoid()
            cv = (lambda z: lin(z).log()) if is_log else lin
        elif cs["kind"] == "rebar":
            cv = M.LogisticBernoulliRebarControlVariate(f, cs["lam"], cs["eta"]).to(dtype)
        else:  # smooth bounded
            lin = lambda z: cs["d"] + cs["a"] * torch.tanh(z * cs.get("s", 1.0))
            cv = (lambda z: lin(z).log()) if is_log else lin
    return f, cv


def _grid_integral(cfg, K, j, dtype):
    N = cfg["N"]
    p = j / K
    with_v = cfg["est"] == "relax"
    nb = (2 if with_v else 1) * N
    shape = (K,) * nb
    if cfg["par"] == "probs":
        dist = D.LogisticBernoulli(probs=torch.full(shape, p, dtype=dtype))
    else:
        dist = D.LogisticBernoulli(logits=torch.full(shape, _logit(p), dtype=dtype))
    f, cv = _lb_funcs(cfg, dtype, _logit(p))
    with ScriptedRandom(Chooser(), uniform=_grid_uniform(K, N, with_v)):
        with torch.no_grad() if cfg["est"] == "st" else torch.enable_grad():
            if with_v:
                v = E.RelaxEstimator(dist, f, N, cv, is_log=cfg["is_log"])()
            else:
                v = E.StraightThroughEstimator(dist, f, N, cfg["is_log"])()
    if tuple(v.shape) != shape:
        raise ValueError(f"estimate has shape {tuple(v.shape)}, expected {shape}")
    v = v.detach().double()
    if cfg["is_log"]:
        v = v.exp()
    return v.mean().item(), v.numel()


def run_relax_grid(ctx, cfg):
    dtype = DT[cfg.get("dtype", "float32")]
    case = {"kind": "relax_grid", "cfg": cfg}
    K, j = cfg["K"], cfg["j"]
    p = j / K
    t0, t1 = cfg["f"]
    want = t0 + (t1 - t0) * p
    sig = {"api": cfg["est"], "proposal": "logistic_bernoulli", "is_log": cfg["is_log"], "grid": "midpoint-product",
           "cv": (cfg.get("cv") or {}).get("kind")}
    try:
        got, nodes = _grid_integral(cfg, K, j, dtype)
        if cfg.get("richardson"):
            # midpoint rule error is c h^2 + O(h^4) for the smooth control variate: one Richardson step
            got2, nodes2 = _grid_integral(cfg, 2 * K, 2 * j, dtype)
            got = (4.0 * got2 - got) / 3.0
            nodes += nodes2
    except Exception as ex:  # noqa: BLE001
        ctx.case(1)
        ctx.violation(dict(sig, symptom="raises", type=type(ex).__name__), case, {"error": repr(ex)[-400:]})
        return
    ctx.case(nodes)
    ctx.key(("relax_grid", h64(cfg)), nontrivial=t0 != t1 and 0 < j < K)
    ctx.count("quadratures_" + cfg["est"])
    ctx.count("quadrature_nodes", nodes)
    if not close(got, want):
        ctx.violation(dict(sig, symptom="biased-value", N=cfg["N"]), case, {"expected": want, "observed": got, "nodes": nodes})
    else:
        ctx.outcome(("rg", round(want, 4)))


# ---------------------------------------------------------------------------------------
# (b) region-mapped nodes: for every discrete outcome k the region {u: H(z(u)) = k} of the unit
# cube is the image of the whole cube under a map with constant Jacobian P(k) (documented
# conditional-sample formulas); nodes = images of a midpoint grid, weights P(k)/K^V.
def _region_nodes(cfg):
    p = cfg["p"]
    K = cfg["K"]
    mids = O.midpoints(K)
    U, Vn, W, Kk = [], [], [], []
    if cfg["dist"] == "logistic":
        for k in (0, 1):
            pk = p[0] if k else 1.0 - p[0]
            for v in mids:
                U.append([O.lb_region_u(p[0], v, k)]); Vn.append([v]); W.append(pk / K); Kk.append(k)
    else:
        V = len(p)
        tot = sum(p)
        pn = [x / tot for x in p]
        for k in range(V):
            if pn[k] == 0.0:
                continue  # a masked class (logit -inf / probability 0) owns no region of the unit cube
            for v in itertools.product(mids, repeat=V):
                U.append(O.gumbel_region_u(pn, v, k)); Vn.append(list(v)); W.append(pn[k] / K ** V); Kk.append(k)
    return U, Vn, W, Kk


def run_relax_region(ctx, cfg):
    dtype = DT[cfg.get("dtype", "float64")]
    case = {"kind": "relax_region", "cfg": cfg}
    N, is_log = cfg["N"], cfg["is_log"]
    p = cfg["p"]
    logistic = cfg["dist"] == "logistic"
    U, Vn, W, Kk = _region_nodes(cfg)
    G = len(W)
    Ut, Vt = torch.tensor(U, dtype=torch.float64), torch.tensor(Vn, dtype=torch.float64)
    Wt = torch.tensor(W, dtype=torch.float64)
    # product over the N samples: flat index g = (g_0, ..., g_{N-1}) in base G
    idx = torch.cartesian_prod(*[torch.arange(G)] * N).view(-1, N)  # (G^N, N)
    B = idx.size(0)
    wprod = torch.ones(B, dtype=torch.float64)
    for n in range(N):
        wprod = wprod * Wt[idx[:, n]]

    cnt = [0]
    two_draws = cfg["est"] == "relax"

    def uni(shape, dt, device, label, ch):
        # u = first uniform draw of the call, v = second (by order, not by the torch function used)
        src = Vt if (two_draws and cnt[0] % 2 == 1) else Ut
        cnt[0] += 1
        out = torch.stack([src[idx[:, n]] for n in range(N)])  # (N, B, V)
        if logistic:
            out = out.squeeze(-1)
        if tuple(out.shape) != tuple(shape):
            raise AssertionError(f"unexpected noise shape {tuple(shape)} for {label}")
        return out.to(dt).contiguous()

    tvals = cfg["f"]
    sig = {"api": cfg["est"], "proposal": "logistic_bernoulli" if logistic else "gumbel_one_hot",
           "is_log": is_log, "grid": "region-mapped", "cv": (cfg.get("cv") or {}).get("kind")}
    masked = (not logistic) and min(p) == 0.0
    if masked:
        sig["masked_" + cfg["par"]] = True
    par_t = None
    try:
        if logistic:
            if cfg["par"] == "probs":
                dist = D.LogisticBernoulli(probs=torch.full((B,), p[0], dtype=dtype))
            else:
                dist = D.LogisticBernoulli(logits=torch.full((B,), _logit(p[0]), dtype=dtype))
            f, cv = _lb_funcs(cfg, dtype, _logit(p[0]))
            want = tvals[0] + (tvals[1] - tvals[0]) * p[0]
        else:
            V = len(p)
            # the parameter tensor is a leaf with requires_grad, so that the estimate's gradient
            # can be inspected; masked classes: probability exactly 0 / logit exactly -inf
            if cfg["par"] == "probs":
                par_t = torch.tensor(p, dtype=dtype, requires_grad=True)
                dist = D.GumbelOneHotCategorical(probs=par_t.expand(B, V))
            else:
                par_t = torch.tensor(p, dtype=dtype).log().requires_grad_(True)
                dist = D.GumbelOneHotCategorical(logits=par_t.expand(B, V))
            t = torch.tensor(tvals, dtype=dtype)
            flin = lambda b: (b * t).sum(-1)
            f = (lambda b: flin(b).log()) if is_log else flin
            cs = cfg.get("cv")
            cv = None
            if cs and cs["kind"] == "rebar":
                cv = M.GumbelOneHotCategoricalRebarControlVariate(f, cs["lam"], cs["eta"]).to(dtype)
            elif cs:
                a = torch.tensor(cs["a"], dtype=dtype)
                clin = lambda z: cs["d"] + (a * torch.tanh(z)).sum(-1)
                cv = (lambda z: clin(z).log()) if is_log else clin
            tot = sum(p)
            want = sum(tv * x / tot for tv, x in zip(tvals, p))
        with ScriptedRandom(Chooser(), uniform=uni):
            if cfg["est"] == "relax":
                v = E.RelaxEstimator(dist, f, N, cv, is_log=is_log)()
            else:
                with torch.no_grad():
                    v = E.StraightThroughEstimator(dist, f, N, is_log)()
        if tuple(v.shape) != (B,):
            raise ValueError(f"estimate has shape {tuple(v.shape)}, expected {(B,)}")
        gbad = None
        if par_t is not None and cfg["est"] == "relax" and v.requires_grad:
            # value only is promised for the relaxation estimators, but the gradient they hand to the
            # optimiser must at least be a number in every coordinate
            g, = torch.autograd.grad(((v.exp() if is_log else v).double() * wprod).sum(), [par_t], allow_unused=True)
            if g is not None and not torch.isfinite(g).all():
                gbad = g.tolist()
        v = v.detach().double()
        if is_log:
            v = v.exp()
        got = (v * wprod).sum().item()
    except Exception as ex:  # noqa: BLE001
        ctx.case(1)
        ctx.violation(dict(sig, symptom="raises", type=type(ex).__name__), case, {"error": repr(ex)[-400:]})
        return
    ctx.case(B)
    if gbad is not None:
        ctx.violation(dict(sig, symptom="gradient-not-finite", N=N), case, {"gradient": gbad})
    ctx.key(("relax_region", h64(cfg)), nontrivial=len(set(tvals)) > 1)
    ctx.count("quadratures_" + cfg["est"])
    ctx.count("quadrature_nodes", B)
    if not close(wprod.sum().item(), 1.0, 1e-9):
        raise AssertionError("quadrature weights do not sum to one")
    if not close(got, want):
        ctx.violation(dict(sig, symptom="biased-value", N=N, nan=got != got), case,
                      {"expected": want, "observed": got, "nodes": B})
    else:
        ctx.outcome(("rr", round(want, 4)))


# ---------------------------------------------------------------------------------------
# relaxed distributions on a parameter x noise grid
def _noise_values(K, dtype):
    """midpoints plus both ends of [0,1) and their neighbours for the dtype's own generator"""
    extra = {1.0 - 2.0 ** -53, 2.0 ** -53} if dtype == torch.float64 else set()
    return sorted(set(O.midpoints(K)) | set(MENU_FULL) | extra)


def _fixed_uniform(t, t64=None):
    """t: the noise for a generator of the parameters' dtype; t64: the same grid with float64's own extremes, handed
    out when the draw asks the generator for float64 numbers although the parameters are narrower"""
    def uni(shape, dt, device, label, ch):
        if tuple(shape) != tuple(t.shape):
            raise AssertionError(f"unexpected noise shape {tuple(shape)} vs {tuple(t.shape)} for {label}")
        if t64 is not None and dt == torch.float64:
            return t64.clone()
        return t.to(dt)

    return uni


_TO64 = {1.0 - 2.0 ** -24: 1.0 - 2.0 ** -53, 2.0 ** -24: 2.0 ** -53}


def _lp_close(a, b, tol):
    """log-density comparison: absolute + relative, -inf only equal to -inf"""
    both_inf = (a == b)
    return both_inf | ((a - b).abs() <= tol * (1.0 + a.abs().clamp_max(1e30) + b.abs().clamp_max(1e30)))


def run_relaxdist(ctx, cfg):
    """threshold(csample(b)) == b for every parameter, conditioning value and noise value;
    log_prob(z) == tlog_prob(H(z)) + clog_prob(z, H(z)) for z from rsample and from csample;
    samples lie in the (thresholded) support; tlog_prob is the discrete log-probability."""
    dtype = DT[cfg["dtype"]]
    tol = 1e-5 if dtype == torch.float32 else 1e-9
    noise = _noise_values(cfg["K"], dtype)
    sig0 = {"api": cfg["dist"], "dtype": cfg["dtype"]}
    pars = cfg["params"]
    P = len(pars)
    logistic = cfg["dist"] == "logistic_bernoulli"
    if logistic:
        # batch layout (P, B=2, S): parameter x conditioning value x noise value
        S = len(noise)
        par = torch.tensor(pars, dtype=dtype).view(P, 1, 1).expand(P, 2, S)
        dist = D.LogisticBernoulli(**{cfg["par"]: par})
        b = torch.tensor([0.0, 1.0], dtype=dtype).view(1, 2, 1).expand(P, 2, S).contiguous()
        nz = torch.tensor(noise, dtype=torch.float64).view(1, 1, S).expand(P, 2, S).contiguous()
        bdesc = lambda i: {"param": pars[i[0]], "b": int(i[1]), "noise": noise[i[2]]}
        pd = [O.sigmoid(x) if cfg["par"] == "logits" else x for x in pars]
        exp_tlp = torch.tensor([[math.log(max(1.0 - q, 1e-300)), math.log(max(q, 1e-300))] for q in pd],
                               dtype=torch.float64).view(P, 2, 1).expand(P, 2, S)
        interior = torch.tensor([[1e-4 < q < 1 - 1e-4] * 2 for q in pd]).view(P, 2, 1).expand(P, 2, S)
    else:
        # None marks a masked class: logit exactly -inf (logits=) - the usual way of switching a class off
        ninf = -float("inf")
        pars = [[ninf if x is None else x for x in row] for row in pars]
        V = len(pars[0])
        nvec = list(itertools.product(noise, repeat=V))
        S = len(nvec)
        par = torch.tensor(pars, dtype=dtype).view(P, 1, 1, V).expand(P, V, S, V)
        dist = D.GumbelOneHotCategorical(**{cfg["par"]: par})
        b = torch.eye(V, dtype=dtype).view(1, V, 1, V).expand(P, V, S, V).contiguous()
        nz = torch.tensor(nvec, dtype=torch.float64).view(1, 1, S, V).expand(P, V, S, V).contiguous()
        bdesc = lambda i: {"param": pars[i[0]], "b": int(i[1]), "noise": list(nvec[i[2]])}
        if cfg["par"] == "logits":
            pd = [O.softmax(x) for x in pars]
        else:
            pd = [[y / sum(x) for y in x] for x in pars]
        exp_tlp = torch.tensor([[math.log(max(q, 1e-300)) for q in row] for row in pd],
                               dtype=torch.float64).view(P, V, 1).expand(P, V, S)
        interior = torch.tensor([[q > 1e-4 for q in row] for row in pd]).view(P, V, 1).expand(P, V, S)
    # exactly-masked classes (logit -inf): their relaxed coordinate is -inf with probability one
    if (not logistic) and cfg["par"] == "logits":
        dead_c = torch.tensor([[x == -float("inf") for x in row] for row in pars])  # (P, V)
    else:
        dead_c = torch.zeros(P, 1 if logistic else len(pars[0]), dtype=torch.bool)
    any_dead = bool(dead_c.any())
    if any_dead:
        sig0["masked_logits"] = True
    n_cases = b.shape[0] * b.shape[1] * b.shape[2]
    case = {"kind": "relaxdist", "cfg": cfg}

    def first(mask):
        i = mask.nonzero()[0].tolist()
        return bdesc(i)

    nz64 = None
    old_default = torch.get_default_dtype()
    if cfg.get("default_dtype") == "float64":
        sig0["default_dtype"] = "float64"
        nz64 = nz.clone()
        for k32, k64 in _TO64.items():
            nz64[nz == k32] = k64
        torch.set_default_dtype(torch.float64)
    try:
        try:
            with ScriptedRandom(Chooser(), uniform=_fixed_uniform(nz, nz64)):
                zc = dist.csample(b)
                zr = dist.rsample()
        finally:
            torch.set_default_dtype(old_default)
        hb = dist.threshold(zc)
        eq = (hb == b) if logistic else (hb == b).all(-1)
        ctx.case(n_cases, nontrivial=n_cases)
        if not eq.all():
            if logistic:
                tie = False
            else:  # is every failure an exact tie between the conditioning class and another one?
                zk = (zc * b).sum(-1, keepdim=True)
                tie = bool((((zc == zk) & (b == 0)).any(-1) | eq).all())
            i = (~eq).nonzero()[0].tolist()
            ctx.violation(dict(sig0, symptom="threshold(csample(b)) != b", exact_tie=tie), dict(case, at=bdesc(i)),
                          {"count": int((~eq).sum()), "of": n_cases, "zcond": zc[tuple(i)].tolist()})
        # supports
        fin = torch.isfinite(zc) & torch.isfinite(zr)
        if any_dead:  # a masked class' coordinate of an unconditional relaxed sample is -inf, never nan
            dz = dead_c.view(P, 1, 1, -1).expand_as(zr)
            fin = torch.isfinite(zc) & (torch.isfinite(zr) | (dz & (zr == -float("inf"))))
        fin = fin if logistic else fin.all(-1)
        ok_sup = dist.support.check(zc) & dist.support.check(zr) & fin
        tb = dist.threshold(zr)
        ok_tsup = dist.thresholded_support.check(tb) & dist.thresholded_support.check(hb)
        ctx.case(n_cases)
        if not (ok_sup & ok_tsup).all():
            ctx.violation(dict(sig0, symptom="sample-outside-support"), dict(case, at=first(~(ok_sup & ok_tsup))),
                          {"count": int((~(ok_sup & ok_tsup)).sum())})
        # density factorisation, for relaxed samples from both samplers
        for name, z in (("csample", zc), ("rsample", zr)):
            h = dist.threshold(z)
            lhs = dist.log_prob(z).double()
            tl = dist.tlog_prob(h).double()
            cl = dist.clog_prob(z, h).double()
            rhs = tl + cl
            okf = _lp_close(lhs, rhs, tol) & torch.isfinite(lhs)
            if any_dead and name == "csample":
                # csample gives a masked class a finite coordinate (probabilities are clamped), where the
                # relaxed density is 0: both sides must then be -inf (never nan)
                rows = dead_c.any(-1).view(P, 1, 1).expand_as(lhs)
                okf = okf | (rows & (lhs == -float("inf")) & (rhs == -float("inf")))
                # conditioning on a masked class itself (probability zero) has no conditional law
                okf = okf | dead_c.view(P, -1, 1).expand_as(lhs)
            ctx.case(n_cases, nontrivial=n_cases)
            if not okf.all():
                i = (~okf).nonzero()[0].tolist()
                ctx.violation(dict(sig0, symptom="log_prob != tlog_prob + clog_prob", sampler=name,
                                   nan=bool(torch.isnan(lhs[~okf]).all() or torch.isnan(rhs[~okf]).all())),
                              dict(case, at=bdesc(i)),
                              {"log_prob": lhs[tuple(i)].item(), "tlog_prob": tl[tuple(i)].item(),
                               "clog_prob": cl[tuple(i)].item(), "count": int((~okf).sum())})
            # a relaxed sample conditioned on the *other* value has conditional density zero
            if name == "csample":
                other = (1 - h) if logistic else h.roll(1, -1)
                cz = dist.clog_prob(z, other)
                if not (cz == -float("inf")).all():
                    ctx.violation(dict(sig0, symptom="clog_prob finite off the threshold region"),
                                  dict(case, at=first(cz != -float("inf"))), None)
        # threshold probability is the discrete probability (interior parameters; at the
        # boundary torch clamps probabilities, which the property does not speak about)
        tl = dist.tlog_prob(b).double()
        okt = ((tl - exp_tlp).abs() <= 10 * tol * (1 + exp_tlp.abs())) | ~interior
        if any_dead:
            dd = dead_c.view(P, -1, 1).expand_as(tl)
            okt = torch.where(dd, tl.exp() <= 10 * tol, okt)  # probability zero (nan fails)
        # the threshold probabilities over the enumerated discrete support sum to one
        tot = tl.exp().sum(1)
        oks = (tot - 1.0).abs() <= 10 * tol
        if not oks.all():
            i = (~oks).nonzero()[0].tolist()
            ctx.violation(dict(sig0, symptom="threshold-probabilities-do-not-sum-to-one"),
                          dict(case, at={"param": pars[i[0]]}), {"sum": tot[tuple(i)].item(),
                                                                   "tlog_prob": tl[i[0], :, i[1]].tolist()})
        ctx.case(n_cases)
        if not okt.all():
            i = (~okt).nonzero()[0].tolist()
            ctx.violation(dict(sig0, symptom="tlog_prob != log P(b)"), dict(case, at=bdesc(i)),
                          {"expected": exp_tlp[tuple(i)].item(), "observed": tl[tuple(i)].item()})
        ctx.outcome(("rd", cfg["dist"], cfg["dtype"], int(eq.sum()), n_cases))
        ctx.count("relaxed_grid_points", n_cases)
    except Exception as ex:  # noqa: BLE001
        ctx.case(1)
        ctx.violation(dict(sig0, symptom="raises", type=type(ex).__name__), case, {"error": repr(ex)[-400:]})
