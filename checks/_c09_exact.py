"""C09 - dtype-exact constants, global torch state, inputs requiring grad, scripted / traced modules.

A *unit* is (api, mode, dtype, padding value): one ragged batch holding every row configuration for T = 2
(ChunkBySlices also once with ``lens`` omitted).  Contents and padding values are chosen so that a detour
through another dtype is visible (float64: k + 0.3 with values 0.1, -1e300, 1/3, 2**24+1; int64: 2**60 + k
with 2**24+1, 2**53+1, 2**53-1; float32: k + 0.25 with 0.5, -7.5, 2**24, 0.1 -> nearest single).  Every unit
is evaluated in several *variants* - functional, module, module under torch.set_default_dtype(float64), under
torch.inference_mode(), with x.requires_grad_(True), torch.jit.script(module), torch.jit.trace(module,
example of another shape) - and every variant is compared EXACTLY (==, no tolerance) with the single-sequence
oracle, hence with each other.
"""

import contextlib
import random

import torch

import pydrobert.torch.functional as F
import pydrobert.torch.modules as M

from mc.seams import ScriptedRandom, ONE_M
from mc.oracles import padding as O

T = 2
REST = (2,)
VALUES = {
    "float64": [0.1, -1e300, 1.0 / 3.0, float(2 ** 24 + 1)],
    "int64": [float(2 ** 24 + 1), float(2 ** 53 + 1), float(2 ** 53 - 1), -3.0],
    "float32": [0.5, -7.5, float(2 ** 24), 0.1],
}
OFFSET = {"float64": 0.3, "int64": 2 ** 60, "float32": 0.25}
VARIANTS = ("functional", "module", "default-dtype-float64", "inference-mode", "requires-grad", "scripted", "traced")
DRAWS = (0.75, ONE_M, 0.25, 0.5)
API = {"pv": "pad_variable", "ch": "chunk_by_slices", "pms": "pad_masked_sequence", "rs": "RandomShift"}


def contents(seed, N, Tn, dtype, salt):
    n = N * Tn * REST[0]
    ks = list(range(1, n + 1))
    random.Random(f"{seed}/exact/{salt}/{N}/{Tn}").shuffle(ks)
    vals = [k + OFFSET[dtype] for k in ks]
    return torch.tensor(vals, dtype=getattr(torch, dtype)).view((N, Tn) + REST)


@contextlib.contextmanager
def torch_state(variant):
    if variant == "default-dtype-float64":
        old = torch.get_default_dtype()
        torch.set_default_dtype(torch.float64)
        try:
            yield
        finally:
            torch.set_default_dtype(old)
    elif variant == "inference-mode":
        with torch.inference_mode():
            yield
    else:
        yield


def exact_in_float32(value):
    return O.as_dtype(value, "float32") == value


def example(kind, dtype):
    """Example inputs of another shape (N=1) for torch.jit.trace, as in tests/test_pad.py, tests/test_img.py."""
    dt = getattr(torch, dtype)
    if kind == "pv":
        return (torch.ones(1, 2, dtype=dt), torch.full((1,), 2), torch.ones(2, 1, dtype=torch.long))
    if kind == "ch":
        return (torch.ones(1, 1, dtype=dt), torch.zeros(1, 2, dtype=torch.long), torch.full((1,), 2))
    if kind == "pms":
        return (torch.ones(1, 1, dtype=dt), torch.ones(1, 1, dtype=torch.bool))
    return (torch.zeros(1, 1, dtype=dt), torch.ones(1, dtype=torch.long))


def build(kind, variant, mode, value, dtype, batch_first=False):
    """The callable for the variant: takes the tensors of the call."""
    if variant == "functional":
        if kind == "pv":
            return lambda x, lens, pad: F.pad_variable(x, lens, pad, mode, value)
        if kind == "ch":
            return lambda x, slices, lens=None: F.chunk_by_slices(x, slices, lens, mode, value)
        if kind == "pms":
            return lambda x, mask: F.pad_masked_sequence(x, mask, batch_first, value)
        return lambda x, lens: F.random_shift(x, lens, (PROP[mode],) * 2, mode, value, True)
    if kind == "pv":
        m = M.PadVariable(mode, value)
    elif kind == "ch":
        m = M.ChunkBySlices(mode, value)
    elif kind == "pms":
        m = M.PadMaskedSequence(batch_first, value)
    else:
        m = M.RandomShift(PROP[mode], mode, value)
    if variant == "scripted":
        return torch.jit.script(m)
    if variant == "traced":
        ex = example(kind, dtype)
        return torch.jit.trace(m, ex, check_trace=kind != "rs")
    return m


PROP = {"constant": 2.0, "replicate": 1.0, "reflect": 1.0}


def scripted_draws(shape, dtype, device, label, chooser):
    n = 1
    for s in shape:
        n *= s
    return torch.tensor([DRAWS[i % len(DRAWS)] for i in range(n)], dtype=torch.float64).to(dtype).view(shape)


def first_mismatch(out, out_lens, x, exp):
    N = len(exp)
    if out.dim() != x.dim() or out.size(0) != N or tuple(out.shape[2:]) != tuple(x.shape[2:]) or out.dtype != x.dtype:
        return "wrong-shape-or-dtype", {"shape": list(out.shape), "dtype": str(out.dtype)}
    outl = out.detach().tolist()
    lensl = None if out_lens is None else out_lens.tolist()
    for n in range(N):
        e = exp[n]
        if lensl is not None and lensl[n] != len(e):
            return "wrong-length", {"row": n, "expected": len(e), "observed": lensl[n]}
        if out.size(1) < len(e):
            return "output-shorter-than-length", {"row": n, "expected": len(e), "T_out": out.size(1)}
        if outl[n][: len(e)] != e:
            return "wrong-valid-part", {"row": n, "expected": e, "observed": outl[n][: len(e)]}
    return None


def run_unit(kind, mode, dtype, value, variant, seed, no_lens=False, batch_first=False):
    """Returns (None | (symptom, detail), rows compared)."""
    from checks import c09  # loaded already (this module is imported by it); only its enumeration is used

    if variant == "requires-grad" and dtype == "int64":
        return None, 0
    item = O.full(REST, O.as_dtype(value, dtype))
    try:
        fn = build(kind, variant, mode, value, dtype, batch_first)
        with torch_state(variant):
            if kind in ("pv", "ch"):
                rows = [c for c in c09.configs(kind, mode, T) if not no_lens or c[0] == T]
                x = contents(seed, len(rows), T, dtype, f"{kind}/{mode}")
                xl = x.tolist()
                lens = torch.tensor([r[0] for r in rows], dtype=torch.long)
                if variant == "requires-grad":
                    x.requires_grad_(True)
                if kind == "pv":
                    pad = torch.tensor([[r[1] for r in rows], [r[2] for r in rows]], dtype=torch.long)
                    exp = [O.pad_seq(xl[n][: r[0]], r[1], r[2], mode, item) for n, r in enumerate(rows)]
                    out, out_lens = fn(x, lens, pad), None
                else:
                    slices = torch.tensor([[r[1], r[2]] for r in rows], dtype=torch.long)
                    exp = [O.chunk_seq(xl[n][: r[0]], r[1], r[2], mode, item) for n, r in enumerate(rows)]
                    if no_lens and variant != "traced":  # the traced example fixes the call signature
                        out, out_lens = fn(x, slices)
                    else:
                        out, out_lens = fn(x, slices, lens)
                bad = first_mismatch(out, out_lens, x, exp)
                if bad:
                    bad[1]["row_config"] = list(rows[bad[1].get("row", 0)])
                return bad, len(rows)
            if kind == "pms":
                N, Tn = 2, 3
                x = contents(seed, N, Tn, dtype, "pms")
                xl = x.tolist()
                mask = [[True, False, True], [False, False, True]]
                m = torch.tensor(mask)
                if variant == "requires-grad":
                    x.requires_grad_(True)
                xin, min_ = (x, m) if batch_first else (x.transpose(0, 1), m.t())
                out, lens = fn(xin, min_)
                outl = (out if batch_first else out.transpose(0, 1)).detach().tolist()
                for n in range(N):
                    erow, ecount = O.compact(xl[n], mask[n], item)
                    if lens[n].item() != ecount or outl[n] != erow or out.dtype != x.dtype:
                        return ("wrong-row", {"row": n, "expected": erow, "observed": outl[n],
                                              "lens": lens.tolist()}), N
                return None, N
            # RandomShift
            N, Tn = 2, 4
            lens_l = [4, 3]
            x = contents(seed, N, Tn, dtype, "rs")
            xl = x.tolist()
            lens = torch.tensor(lens_l)
            if variant == "requires-grad":
                x.requires_grad_(True)
            if variant in ("scripted", "traced"):
                # compiled code draws from torch's own generator: the draw is a don't-care (any draw must
                # satisfy the oracle), fixed by the seed
                torch.manual_seed(4242 + seed)
                out, out_lens = fn(x, lens)
            else:
                with ScriptedRandom(None, uniform=scripted_draws):
                    out, out_lens = fn(x, lens)
            if out.dtype != x.dtype or out.size(0) != N:
                return ("wrong-shape-or-dtype", {"dtype": str(out.dtype), "shape": list(out.shape)}), N
            ol = out_lens.tolist()
            outl = out.detach().tolist()
            props = (str(PROP[mode]),) * 2
            for n in range(N):
                obs = outl[n][: ol[n]]
                if ol[n] < lens_l[n] or not O.shift_explanations(xl[n][: lens_l[n]], obs, props, mode, item):
                    return ("not-a-bounded-shift-with-the-exact-constant",
                            {"row": n, "len": lens_l[n], "out_len": ol[n], "observed": obs,
                             "pad_item": item}), N
            return None, N
    except Exception as e:  # noqa: BLE001 - every unit is a legal call
        return ("raises", {"type": type(e).__name__, "error": str(e)[-300:]}), 0


def units(kind):
    modes = O.MODES if kind != "pms" else ("-",)
    for mode in modes:
        for dtype, values in VALUES.items():
            for value in values:
                extras = [{}]
                if kind == "ch":
                    extras = [{}, {"no_lens": True}]
                elif kind == "pms":
                    extras = [{"batch_first": False}, {"batch_first": True}]
                for extra in extras:
                    yield mode, dtype, value, extra


def file(ctx, kind, mode, dtype, value, variant, extra, seed, bad):
    sym, det = bad
    sig = {"api": API[kind], "symptom": "exact: " + sym, "mode": mode, "dtype": dtype, "variant": variant,
           "value_exact_in_float32": exact_in_float32(value)}
    ctx.violation(sig, {"part": "exact", "kind": kind, "mode": mode, "dtype": dtype, "value": value,
                        "variant": variant, "extra": extra, "seed": seed}, det)


def exact_pass(ctx, kind, seed):
    for mode, dtype, value, extra in units(kind):
        for variant in VARIANTS:
            bad, n = run_unit(kind, mode, dtype, value, variant, seed, **extra)
            if n == 0 and bad is None:
                continue
            ctx.case(1, 1)
            ctx.count("exact_rows_compared", n)
            ctx.count(f"exact_units_{variant}")
            if bad:
                file(ctx, kind, mode, dtype, value, variant, extra, seed, bad)
            else:
                ctx.outcome(["exact", kind, mode, dtype, value, sorted(extra.items())])
    if kind == "pv":
        ctx.sample({"api": "pad_variable", "kind": "dtype-exact unit", "dtype": "float64", "value": 0.1,
                    "variants": list(VARIANTS), "rows": "every (len, padL, padR) configuration for T=2 as one batch",
                    "compared": "== against the single-sequence oracle, pad item exactly 0.1"})


def replay(ctx, case):
    ctx.case(1, 1)
    bad, _ = run_unit(case["kind"], case["mode"], case["dtype"], case["value"], case["variant"], case["seed"],
                      **case["extra"])
    if bad:
        file(ctx, case["kind"], case["mode"], case["dtype"], case["value"], case["variant"], case["extra"],
             case["seed"], bad)
