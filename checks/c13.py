"""C13 - epoch samplers: reproducible per (seed, epoch), exact partition across ranks (E3)."""

import json
import os
import itertools
import random
import subprocess
import sys
import tempfile

import numpy as np
import torch

from pydrobert.torch.data import EpochRandomSampler, EpochSequentialSampler

from mc.runner import Ctx
from mc.seams import SimulatedGroup
from mc.oracles import samplers as O

PROP = "C13"
LEVEL = "model_checking"
RULE = (
    "every configuration (N in 0..12 / 0..24, world W in 1..5 / 1..8, on_uneven_distributed in "
    "{raise, drop, uneven, ignore}, sampler in {sequential, random with base_seed 0..3 / 0..7}) x every "
    "rank of the simulated group; per (configuration, rank) one history: a sampler created at epoch 0 is "
    "consumed for epochs 0..K (K=3 / 5) and compared, epoch by epoch, with fresh samplers created at "
    "init_epoch=k for every k (each consumed on to epoch K), with the pure accessor "
    "get_samples_for_epoch and with the same sampler rewound through its epoch attribute, the global "
    "RNGs (random, numpy, torch) being re-seeded differently before every step; len() is compared with "
    "the number yielded at every step; per (configuration, epoch) the per-rank lists go through the "
    "partition oracle. state = (configuration, rank, epoch) ; transition = one epoch consumed. "
    "Live-iterator part (N in {3,4} / {3,4,6}, sequential + seeds 0,1, W in {1,2}, every rank, modes uneven/drop): every "
    "operation sequence of length 2..4 (thorough 5; the deepest level only without a group) over {open_iter, "
    "open_cur, open_next (iterator stored, not consumed), step (oldest held iterator advances by one), "
    "drain_old, drain_new, peek_cur, len, iter} on ONE sampler object that opens an iterator before its last "
    "operation; iterators still open at the end are drained oldest first; whatever is read from an iterator "
    "opened for epoch e must be, prefix by prefix, what a fresh sampler created at epoch e yields for the rank. "
    "Distinct by construction; non-trivial = N >= 2. traces = histories also run without the seam "
    "(W=1) or inside a REAL gloo process group of 2 (thorough: 2 and 3) processes and compared."
)
ASSUMPTIONS = [
    "small scope: N <= 12/24, W <= 5/8, base seeds 0..3 / 0..7, K = 3/5 previously consumed epochs",
    "the process group is simulated at torch.distributed.is_available/is_initialized/get_rank/"
    "get_world_size (the only four queries the samplers make); a real gloo group (file store, "
    "subprocesses) is used for a conformance subset only",
    "an iterator handed out for an epoch is expected to stay valid while the sampler is used further (held, "
    "half-consumed and abandoned iterators; at most 4/5 interleaved operations, at most that many live iterators)",
    "documented behaviour assumed beyond the property text: strict mode raises ValueError; base seeds "
    "a != b must not give order(a, epoch b) == order(b, epoch a) (Warnings section of EpochRandomSampler)",
]
BUDGET_S = {"quick": 200, "thorough": 1500}


def _bounds(tier):
    if tier == "thorough":
        return dict(Nmax=24, Wmax=8, seeds=list(range(8)), K=5)
    return dict(Nmax=12, Wmax=5, seeds=list(range(4)), K=3)


def shards(tier, seed):
    b = _bounds(tier)
    kinds = [None] + b["seeds"]
    h = (len(kinds) + 1) // 2
    out = []
    for N in range(b["Nmax"] + 1):
        out.append({"N": N, "kinds": kinds[:h], "extra": True})
        out.append({"N": N, "kinds": kinds[h:], "extra": False})
    out.append({"real": [2, 3] if tier == "thorough" else [2]})
    for N in ((3, 4) if tier == "quick" else (3, 4, 6)):
        for kind in (None, 0, 1):
            out.append({"ops": True, "N": N, "seed": kind})
            out.append({"live": True, "N": N, "seed": kind})
    return out


def _api(kind):
    return "EpochSequentialSampler" if kind is None else "EpochRandomSampler"


def _mk(kind, N, epoch, mode):
    if kind is None:
        return EpochSequentialSampler(range(N), init_epoch=epoch, on_uneven_distributed=mode)
    return EpochRandomSampler(range(N), init_epoch=epoch, base_seed=kind, on_uneven_distributed=mode)


_PERT = [0]


def _perturb():
    """the order must not depend on any global generator: move all of them before every step"""
    _PERT[0] += 1
    x = (_PERT[0] * 2654435761) % (2 ** 31)
    random.seed(x)
    np.random.seed(x)
    torch.default_generator.manual_seed(x)  # torch.manual_seed would queue a traceback per call for lazy CUDA init


def _take(s):
    return [int(i) for i in s]


def _history(ctx, N, W, rank, mode, kind, K, group=True):
    """Runs the whole history of one (configuration, rank). Returns list over epochs of index lists,
    "raise" when the constructor refused as documented, or None after a violation."""
    api = _api(kind)
    case = {"N": N, "W": W, "rank": rank, "mode": mode, "seed": kind, "K": K, "group": group}
    sig = {"api": api, "mode": mode}

    def bad(symptom, detail):
        ctx.violation(dict(sig, symptom=symptom), case, detail)
        return None

    want = O.expected_len(N, W, rank, mode) if group else N
    _perturb()
    try:
        s0 = _mk(kind, N, 0, mode)
    except ValueError as e:
        if want == "raise":
            ctx.outcome(["raise"])
            return "raise"
        return bad("raises", {"type": "ValueError", "error": str(e)[-300:]})
    except Exception as e:
        return bad("raises", {"type": type(e).__name__, "error": str(e)[-300:]})
    if want == "raise":
        return bad("no-raise-on-indivisible", {"N": N, "W": W})
    hist = []
    try:
        for e in range(K + 1):
            _perturb()
            if s0.epoch != e:
                return bad("epoch-counter", {"expected": e, "observed": s0.epoch})
            L = len(s0)
            lst = _take(s0)
            ctx.transitions += 1
            ctx.state(h_state(N, W, rank, mode, kind, e))
            if L != len(lst):
                return bad("len-differs-from-yielded", {"epoch": e, "len": L, "yielded": lst})
            if want is not None and L != want:
                return bad("wrong-count-for-rank", {"epoch": e, "expected": want, "observed": L})
            if len(s0) != L:
                return bad("len-changes-after-iteration", {"epoch": e, "before": L, "after": len(s0)})
            hist.append(lst)
        # fresh samplers started at epoch k, each consumed on to epoch K
        for k in range(K + 1):
            _perturb()
            f = _mk(kind, N, k, mode)
            for e in range(k, K + 1):
                _perturb()
                L = len(f)
                lst = _take(f)
                ctx.transitions += 1
                ctx.case(1, 1 if N >= 2 else 0)
                if lst != hist[e]:
                    return bad("fresh-at-epoch-differs-from-history",
                               {"init_epoch": k, "epoch": e, "history": hist[e], "fresh": lst})
                if L != len(lst):
                    return bad("len-differs-from-yielded", {"epoch": e, "init_epoch": k, "len": L, "yielded": lst})
        # pure accessor and rewinding
        for e in range(K, -1, -1):
            _perturb()
            ctx.case(1, 1 if N >= 2 else 0)
            lst = _take(s0.get_samples_for_epoch(e))
            if lst != hist[e]:
                return bad("get_samples_for_epoch-differs-from-history", {"epoch": e, "history": hist[e], "observed": lst})
            if s0.epoch != K + 1:
                return bad("epoch-counter", {"expected": K + 1, "observed": s0.epoch, "after": "get_samples_for_epoch"})
        for e in (K, 0, 1):
            if e > K:
                continue
            _perturb()
            s0.epoch = e
            L = len(s0)
            lst = _take(s0)
            ctx.transitions += 1
            ctx.case(1, 1 if N >= 2 else 0)
            if lst != hist[e] or L != len(lst):
                return bad("rewound-epoch-differs-from-history", {"epoch": e, "history": hist[e], "observed": lst, "len": L})
    except Exception as e:
        return bad("raises", {"type": type(e).__name__, "error": str(e)[-300:], "where": "iteration"})
    return hist


def h_state(N, W, rank, mode, kind, e):
    # small exact integer code (distinct for distinct states within the bounds)
    m = O.MODES.index(mode)
    k = 0 if kind is None else kind + 1
    return ((((N * 16 + W) * 16 + rank) * 4 + m) * 64 + k) * 64 + e


def _config(ctx, N, W, mode, kind, K, base):
    """all ranks of one configuration + partition oracle. base = history without any group."""
    api = _api(kind)
    per_rank = []
    for rank in range(W):
        with SimulatedGroup(W, rank):
            per_rank.append(_history(ctx, N, W, rank, mode, kind, K))
    if any(h is None for h in per_rank):
        return
    case = {"N": N, "W": W, "mode": mode, "seed": kind, "K": K, "kind": "partition"}
    raised = [h == "raise" for h in per_rank]
    if any(raised):
        if not all(raised):
            ctx.violation({"api": api, "mode": mode, "symptom": "only-some-ranks-raise"}, case, {"raised": raised})
        return
    for e in range(K + 1):
        lists = [h[e] for h in per_rank]
        ctx.case(1, 1 if (N >= 2 and W >= 2) else 0)
        why = O.check_partition(lists, N, W, mode)
        if why:
            ctx.violation({"api": api, "mode": mode, "symptom": why}, dict(case, epoch=e), {"per_rank": lists})
            return
        ctx.outcome([sorted(len(x) for x in lists), lists[0][:3]])
    if mode == "ignore" or W == 1:
        for r, h in enumerate(per_rank):
            if h != base:
                ctx.violation(
                    {"api": api, "mode": mode,
                     "symptom": "ignore-mode-differs-from-single-process" if W > 1 else "group-of-one-differs-from-no-group"},
                    dict(case, rank=r), {"without_group": base, "observed": h})
                return
            if W == 1:
                ctx.traces += 1


def _seed_symmetry(ctx, N, seeds, K):
    """documented: (seed a, epoch b) must not repeat (seed b, epoch a)"""
    if N < 6:
        return
    for a in seeds:
        for b in seeds:
            if a < b <= K:
                ctx.case(1, 1)
                x = _take(EpochRandomSampler(range(N), base_seed=a).get_samples_for_epoch(b))
                y = _take(EpochRandomSampler(range(N), base_seed=b).get_samples_for_epoch(a))
                if x == y:
                    ctx.violation({"api": "EpochRandomSampler", "symptom": "epoch-seed-symmetry"},
                                  {"kind": "symmetry", "N": N, "a": a, "b": b}, {"order": x})


def _unset_seed(ctx, N):
    """base_seed=None draws a seed; the sampler must then behave like one built with that seed"""
    for t in range(3):
        torch.manual_seed(100 + t)
        ctx.case(1, 1 if N >= 2 else 0)
        try:
            s = EpochRandomSampler(range(N))
            a = [_take(s) for _ in range(2)]
            f = EpochRandomSampler(range(N), base_seed=s.base_seed)
            b = [_take(f) for _ in range(2)]
        except Exception as e:
            ctx.violation({"api": "EpochRandomSampler", "symptom": "raises", "mode": "raise"},
                          {"kind": "unset", "N": N}, {"error": str(e)[-300:]})
            return
        if a != b:
            ctx.violation({"api": "EpochRandomSampler", "symptom": "unset-seed-not-reproducible-from-base_seed"},
                          {"kind": "unset", "N": N}, {"a": a, "b": b})


def _real_group(ctx, worlds, tier):
    """conformance of the seam: the same histories inside a real gloo group"""
    helper = os.path.join(os.path.dirname(os.path.abspath(__file__)), "_c13_realgroup.py")
    K = 2
    cfgs = [{"N": N, "mode": m, "seed": s, "K": K}
            for N in (range(0, 9) if tier == "thorough" else (0, 1, 4, 5, 7))
            for m in O.MODES for s in (None, 0, 1)]
    root = tempfile.mkdtemp(prefix="verif-%d-c13-" % os.getpid(), dir="/dev/shm")
    try:
        for W in worlds:
            store = os.path.join(root, "store%d" % W)
            procs = [subprocess.Popen([sys.executable, helper, str(r), str(W), store, json.dumps(cfgs)],
                                      stdout=subprocess.PIPE, stderr=subprocess.PIPE, text=True)
                     for r in range(W)]
            outs = []
            ok = True
            for p in procs:
                try:
                    o, e = p.communicate(timeout=150)
                except subprocess.TimeoutExpired:
                    p.kill()
                    o, e = "", "timeout"
                if p.returncode != 0 or not o.strip():
                    ok = False
                    ctx.notes.append("real gloo group of %d unavailable: %s" % (W, (e or "")[-200:]))
                else:
                    outs.append(json.loads(o.strip().splitlines()[-1]))
            if not ok:
                ctx.capped.append("real process group W=%d could not be started" % W)
                continue
            for o in outs:
                r = o["rank"]
                for cfg, res in zip(cfgs, o["results"]):
                    sub = Ctx()
                    with SimulatedGroup(W, r):
                        h = _history(sub, cfg["N"], W, r, cfg["mode"], cfg["seed"], K)
                    ctx.merge(sub)
                    sim = {"raised": "ValueError"} if h == "raise" else {"hist": h, "lens": [len(x) for x in h or []]}
                    ctx.traces += 1
                    if h is not None and sim != res:
                        ctx.violation({"api": _api(cfg["seed"]), "symptom": "simulated-group-differs-from-real-group",
                                       "mode": cfg["mode"]},
                                      dict(cfg, kind="real", W=W, rank=r), {"real": res, "simulated": sim})
    finally:
        import shutil

        shutil.rmtree(root, ignore_errors=True)


OPS = ("iter", "peek_cur", "peek_next", "len", "set0", "set2")


def _ops_history(ctx, N, W, rank, mode, kind, ops, ref_cache):
    """One operation sequence on ONE sampler object; after every operation what it returns must be the
    function of (seed, epoch, rank) that a fresh sampler created at that epoch yields."""
    api = _api(kind)
    case = {"kind": "ops", "N": N, "W": W, "rank": rank, "mode": mode, "seed": kind, "ops": list(ops)}

    def ref(e):
        key = (W, rank, mode, e)
        if key not in ref_cache:
            with SimulatedGroup(W, rank):
                _perturb()
                ref_cache[key] = _take(_mk(kind, N, e, mode))
        return ref_cache[key]

    with SimulatedGroup(W, rank):
        s = _mk(kind, N, 0, mode)
        cur = 0
        for k, op in enumerate(ops):
            _perturb()
            ctx.transitions += 1
            if op == "iter":
                got, want = _take(s), ref(cur)
                cur += 1
                if s.epoch != cur:
                    ctx.violation({"api": api, "symptom": "epoch-not-advanced-by-iteration"}, case,
                                  {"step": k, "epoch": s.epoch, "expected": cur})
                    return
            elif op == "peek_cur":
                got, want = [int(i) for i in s.get_samples_for_epoch(s.epoch)], ref(cur)
            elif op == "peek_next":
                got, want = [int(i) for i in s.get_samples_for_epoch(s.epoch + 1)], ref(cur + 1)
            elif op == "len":
                got, want = len(s), len(ref(cur))
            else:
                cur = int(op[3:])
                s.epoch = cur
                got = want = None
            ctx.state([N, W, rank, mode, kind, cur, list(ops[: k + 1])])
            if got != want:
                ctx.violation({"api": api, "symptom": "order-depends-on-history", "op": op, "mode": mode}, case,
                              {"step": k, "epoch": cur, "expected": want, "observed": got})
                return
    ctx.outcome([ops[-1] if ops else None, cur])


def _ops_part(ctx, N, kind, tier):
    depth = 3 if tier == "quick" else 4
    ref_cache = {}
    for W in (1, 2):
        for rank in range(W):
            for mode in ("uneven", "drop"):
                for L in range(1, depth + 1):
                    for ops in itertools.product(OPS, repeat=L):
                        if ops[-1].startswith("set"):
                            continue  # a trailing assignment observes nothing
                        ctx.case(1, 1 if any(o.startswith(("set", "peek")) for o in ops[:-1]) else 0)
                        _ops_history(ctx, N, W, rank, mode, kind, ops, ref_cache)
    ctx.sample({"ops_part": {"N": N, "seed": kind, "alphabet": list(OPS), "depth": depth,
                             "example": ["peek_cur", "set2", "iter"]}})


LIVE_OPS = ("open_iter", "open_cur", "open_next", "step", "drain_old", "drain_new", "peek_cur", "len", "iter")


def _live_history(ctx, N, W, rank, mode, kind, ops, ref_cache):
    """Iterators that are OPENED now and read LATER, interleaved with other operations on the same sampler
    object.  Whatever is eventually read from an iterator opened for epoch e must be exactly what a fresh
    sampler created at epoch e yields for this rank, whatever happened in between (held iterators still
    open at the end of the sequence are drained oldest first)."""
    api = _api(kind)
    case = {"kind": "live", "N": N, "W": W, "rank": rank, "mode": mode, "seed": kind, "ops": list(ops)}

    def ref(e):
        key = (W, rank, mode, e)
        if key not in ref_cache:
            with SimulatedGroup(W, rank):
                _perturb()
                ref_cache[key] = _take(_mk(kind, N, e, mode))
        return ref_cache[key]

    def bad(symptom, k, h=None, **detail):
        if h is not None:
            detail.update(opened_by=h["by"], opened_at_step=h["at"], epoch=h["epoch"], expected=ref(h["epoch"]),
                          read=h["got"])
        ctx.violation({"api": api, "symptom": symptom, "mode": mode}, case, dict(detail, step=k))
        return False

    def read(h, k, how_many):
        """advance a held iterator; False after a violation"""
        want = ref(h["epoch"])
        while how_many != 0 and not h["done"]:
            try:
                h["got"].append(int(next(h["it"])))
            except StopIteration:
                h["done"] = True
                break
            how_many -= 1
            if h["got"] != want[: len(h["got"])]:
                return bad("held-iterator-differs-from-fresh-sampler", k, h)
        if h["done"] and h["got"] != want:
            return bad("held-iterator-differs-from-fresh-sampler", k, h)
        return True

    with SimulatedGroup(W, rank):
        s = _mk(kind, N, 0, mode)
        cur, held = 0, []
        for k, op in enumerate(tuple(ops) + ("drain_all",)):
            if op not in ("step", "len"):
                _perturb()
            ctx.transitions += 1
            live = [h for h in held if not h["done"]]
            if op == "open_iter":
                held.append({"it": iter(s), "epoch": cur, "got": [], "done": False, "by": op, "at": k})
                cur += 1
                if s.epoch != cur:
                    return bad("epoch-not-advanced-by-iteration", k, observed=s.epoch, expected=cur)
            elif op == "open_cur":
                held.append({"it": iter(s.get_samples_for_epoch(s.epoch)), "epoch": cur, "got": [], "done": False,
                             "by": op, "at": k})
            elif op == "open_next":
                held.append({"it": iter(s.get_samples_for_epoch(s.epoch + 1)), "epoch": cur + 1, "got": [],
                             "done": False, "by": op, "at": k})
            elif op == "step":
                if live and not read(live[0], k, 1):
                    return
            elif op == "drain_old":
                if live and not read(live[0], k, -1):
                    return
            elif op == "drain_new":
                if live and not read(live[-1], k, -1):
                    return
            elif op == "drain_all":
                for h in live:
                    if not read(h, k, -1):
                        return
            elif op == "peek_cur":
                got = [int(i) for i in s.get_samples_for_epoch(s.epoch)]
                if got != ref(cur):
                    return bad("order-depends-on-history", k, op=op, expected=ref(cur), observed=got)
            elif op == "len":
                if len(s) != len(ref(cur)):
                    return bad("len-differs-from-yielded", k, len=len(s), expected=len(ref(cur)))
            else:  # iter: a whole epoch drawn and consumed at once
                got = _take(s)
                if got != ref(cur):
                    return bad("order-depends-on-history", k, op=op, expected=ref(cur), observed=got)
                cur += 1
    ctx.state([N, W, rank, mode, kind, cur, "live", list(ops)])  # every proper prefix is a sequence of its own
    ctx.outcome(["live", len(held), cur, [len(h["got"]) for h in held]])


def _live_part(ctx, N, kind, tier):
    depth = 4 if tier == "quick" else 5
    ref_cache = {}
    opens = ("open_iter", "open_cur", "open_next")
    for W in (1, 2):
        for rank in range(W):
            for mode in ("uneven", "drop"):
                # the deepest level only without a group (the interleaving does not involve the rank slice)
                for L in range(2, (depth if W == 1 and mode == "uneven" else depth - 1) + 1):
                    for ops in itertools.product(LIVE_OPS, repeat=L):
                        # sequences without a held iterator that is disturbed before it is read are the ops part
                        first = next((j for j, o in enumerate(ops) if o in opens), None)
                        if first is None or first == L - 1:
                            continue
                        if ops[0] in ("step", "drain_old", "drain_new"):
                            continue  # nothing is held yet: same as the sequence without this operation
                        ctx.case(1, 1 if N >= 2 else 0)
                        _live_history(ctx, N, W, rank, mode, kind, ops, ref_cache)
    ctx.sample({"live_part": {"N": N, "seed": kind, "alphabet": list(LIVE_OPS), "depth": depth,
                              "example": ["open_cur", "open_next", "drain_old"]}})


def run_shard(spec, tier, seed):
    ctx = Ctx()
    b = _bounds(tier)
    if "live" in spec:
        _live_part(ctx, spec["N"], spec["seed"], tier)
        return ctx
    if "ops" in spec:
        _ops_part(ctx, spec["N"], spec["seed"], tier)
        return ctx
    if "real" in spec:
        _real_group(ctx, spec["real"], tier)
        return ctx
    N, K = spec["N"], b["K"]
    for kind in spec["kinds"]:
        base = {}
        for mode in O.MODES:
            sub = Ctx()
            base[mode] = _history(sub, N, 1, 0, mode, kind, K, group=False)
            ctx.merge(sub)
            ctx.traces += 1 if base[mode] is not None else 0
        if any(v is None for v in base.values()):
            continue
        if any(base[m] != base["raise"] for m in O.MODES):
            ctx.violation({"api": _api(kind), "symptom": "mode-changes-order-without-group"},
                          {"kind": "nogroup", "N": N, "seed": kind, "K": K}, base)
        if sorted(base["raise"][0]) != list(range(N)):
            ctx.violation({"api": _api(kind), "symptom": "indices-not-covered", "mode": "raise"},
                          {"kind": "nogroup", "N": N, "seed": kind, "K": K}, {"epoch0": base["raise"][0]})
        for W in range(1, b["Wmax"] + 1):
            for mode in O.MODES:
                _config(ctx, N, W, mode, kind, K, base[mode])
        if N in (5, 12) and kind in (None, 1):
            ctx.sample({"N": N, "seed": kind, "epochs_without_group": base["raise"][:2]})
    if spec["extra"]:
        _seed_symmetry(ctx, N, b["seeds"], K)
        _unset_seed(ctx, N)
    return ctx


def replay(case):
    ctx = Ctx()
    kind = case.get("kind")
    if kind == "live":
        _live_history(ctx, case["N"], case["W"], case["rank"], case["mode"], case["seed"], tuple(case["ops"]), {})
        return ctx
    if kind == "ops":
        _ops_history(ctx, case["N"], case["W"], case["rank"], case["mode"], case["seed"], tuple(case["ops"]), {})
        return ctx
    if kind == "symmetry":
        _seed_symmetry(ctx, case["N"], [case["a"], case["b"]], max(case["a"], case["b"]))
    elif kind == "unset":
        _unset_seed(ctx, case["N"])
    elif kind == "real":
        _real_group(ctx, [case["W"]], "thorough")
    elif kind == "nogroup":
        run = Ctx()
        for mode in O.MODES:
            _history(run, case["N"], 1, 0, mode, case["seed"], case["K"], group=False)
        ctx.merge(run)
        ctx.merge(run_shard({"N": case["N"], "kinds": [case["seed"]], "extra": False}, "quick", 0))
    elif kind == "partition":
        sub = Ctx()
        base = _history(sub, case["N"], 1, 0, case["mode"], case["seed"], case["K"], group=False)
        _config(ctx, case["N"], case["W"], case["mode"], case["seed"], case["K"], base)
    else:
        if case.get("group", True):
            with SimulatedGroup(case["W"], case["rank"]):
                _history(ctx, case["N"], case["W"], case["rank"], case["mode"], case["seed"], case["K"])
        else:
            _history(ctx, case["N"], 1, 0, case["mode"], case["seed"], case["K"], group=False)
    return ctx
