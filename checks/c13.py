"""C13 - epoch samplers: reproducible per (seed, epoch), exact partition across ranks (E3)."""

import json
import os
import itertools
import random
import subprocess
import sys
import tempfile

import numpy as np
import torch

from pydrobert.torch.data import EpochRandomSampler, EpochSequentialSampler

from mc.runner import Ctx
from mc.seams import SimulatedGroup
from mc.oracles import samplers as O

PROP = "C13"
LEVEL = "model_checking"
RULE = (
    "every configuration (N in 0..12 / 0..24, world W in 1..5 / 1..8, on_uneven_distributed in "
    "{raise, drop, uneven, ignore}, sampler in {sequential, random with base_seed 0..3 / 0..7}) x every "
    "rank of the simulated group; per (configuration, rank) one history: a sampler created at epoch 0 is "
    "consumed for epochs 0..K (K=3 / 5) and compared, epoch by epoch, with fresh samplers created at "
    "init_epoch=k for every k (each consumed on to epoch K), with the pure accessor "
    "get_samples_for_epoch and with the same sampler rewound through its epoch attribute, the global "
    "RNGs (random, numpy, torch) being re-seeded differently before every step; len() is compared with "
    "the number yielded at every step; per (configuration, epoch) the per-rank lists go through the "
    "partition oracle. state = (configuration, rank, epoch) ; transition = one epoch consumed. "
    "Live-iterator part (N in {3,4} / {3,4,6}, sequential + seeds 0,1, W in {1,2}, every rank, modes uneven/drop): every "
    "operation sequence of length 2..4 (thorough 5; the deepest level only without a group) over {open_iter, "
    "open_cur, open_next (iterator stored, not consumed), step (oldest held iterator advances by one), "
    "drain_old, drain_new, peek_cur, len, iter} on ONE sampler object that opens an iterator before its last "
    "operation; iterators still open at the end are drained oldest first; whatever is read from an iterator "
    "opened for epoch e must be, prefix by prefix, what a fresh sampler created at epoch e yields for the rank. "
    "Loader-flavour part (secondary entry points): the sampler inside SpectDataLoader, LangDataLoader, "
    "ContextWindowDataLoader and the deprecated ContextWindowTraining/Evaluation and SpectTraining/Evaluation loaders, "
    "on 3 tmpfs corpora (4,5,6 utterances), no group and every rank of simulated groups of 2 and 3, drop_last both, "
    "{sequential, shuffle seeds 0,1}, batch_size 1..2, on_uneven_distributed raise/uneven/ignore (Spect/Lang; also 2 "
    "length buckets): what loader.batch_sampler.sampler yields / reports for epochs 0,1 must equal a directly built "
    "sampler of the effective mode (ContextWindow*: ignore; others: drop if drop_last else the given mode), the loader "
    "(batch_size 1) must visit exactly these utterances, per-rank lists go through the partition oracle; lifecycle: "
    "deepcopy / pickle of the mid-history loader and of its sampler, and deepcopy / pickle / torch.save / used+deepcopy of "
    "bare samplers (falsy options init_epoch 0, base_seed 0), made inside the group and read outside it. "
    "Distinct by construction; non-trivial = N >= 2. traces = histories also run without the seam "
    "(W=1) or inside a REAL gloo process group of 2 (thorough: 2 and 3) processes and compared."
)
ASSUMPTIONS = [
    "small scope: N <= 12/24, W <= 5/8, base seeds 0..3 / 0..7, K = 3/5 previously consumed epochs",
    "the process group is simulated at torch.distributed.is_available/is_initialized/get_rank/"
    "get_world_size (the only four queries the samplers make); a real gloo group (file store, "
    "subprocesses) is used for a conformance subset only",
    "an iterator handed out for an epoch is expected to stay valid while the sampler is used further (held, "
    "half-consumed and abandoned iterators; at most 4/5 interleaved operations, at most that many live iterators)",
    "ContextWindow loaders are documented not to support torch.distributed (every process the same batches), hence "
    "effective mode 'ignore' whatever drop_last; Spect/Lang loaders replace the mode by 'drop' when drop_last is set "
    "(their code and docs); deprecated loaders are constructed with their default arguments",
    "documented behaviour assumed beyond the property text: strict mode raises ValueError; base seeds "
    "a != b must not give order(a, epoch b) == order(b, epoch a) (Warnings section of EpochRandomSampler)",
]
BUDGET_S = {"quick": 200, "thorough": 1500}


def _bounds(tier):
    if tier == "thorough":
        return dict(Nmax=24, Wmax=8, seeds=list(range(8)), K=5)
    return dict(Nmax=12, Wmax=5, seeds=list(range(4)), K=3)


def shards(tier, seed):
    b = _bounds(tier)
    kinds = [None] + b["seeds"]
    h = (len(kinds) + 1) // 2
    out = []
    for N in range(b["Nmax"] + 1):
        out.append({"N": N, "kinds": kinds[:h], "extra": True})
        out.append({"N": N, "kinds": kinds[h:], "extra": False})
    out.append({"real": [2, 3] if tier == "thorough" else [2]})
    for N in ((3, 4) if tier == "quick" else (3, 4, 6)):
        for kind in (None, 0, 1):
            out.append({"ops": True, "N": N, "seed": kind})
            out.append({"live": True, "N": N, "seed": kind})
    out += [{"flavours": True, "i": i, "of": 7} for i in range(7)]
    return out


def _api(kind):
    return "EpochSequentialSampler" if kind is None else "EpochRandomSampler"


def _mk(kind, N, epoch, mode):
    if kind is None:
        return EpochSequentialSampler(range(N), init_epoch=epoch, on_uneven_distributed=mode)
    return EpochRandomSampler(range(N), init_epoch=epoch, base_seed=kind, on_uneven_distributed=mode)


_PERT = [0]


def _perturb():
    """the order must not depend on any global generator: move all of them before every step"""
    _PERT[0] += 1
    x = (_PERT[0] * 2654435761) % (2 ** 31)
    random.seed(x)
    np.random.seed(x)
    torch.default_generator.manual_seed(x)  # torch.manual_seed would queue a traceback per call for lazy CUDA init


def _take(s):
    return [int(i) for i in s]


def _history(ctx, N, W, rank, mode, kind, K, group=True):
    """Runs the whole history of one (configuration, rank). Returns list over epochs of index lists,
    "raise" when the constructor refused as documented, or None after a violation."""
    api = _api(kind)
    case = {"N": N, "W": W, "rank": rank, "mode": mode, "seed": kind, "K": K, "group": group}
    sig = {"api": api, "mode": mode}

    def bad(symptom, detail):
        ctx.violation(dict(sig, symptom=symptom), case, detail)
        return None

    want = O.expected_len(N, W, rank, mode) if group else N
    _perturb()
    try:
        s0 = _mk(kind, N, 0, mode)
    except ValueError as e:
        if want == "raise":
            ctx.outcome(["raise"])
            return "raise"
        return bad("raises", {"type": "ValueError", "error": str(e)[-300:]})
    except Exception as e:
        return bad("raises", {"type": type(e).__name__, "error": str(e)[-300:]})
    if want == "raise":
        return bad("no-raise-on-indivisible", {"N": N, "W": W})
    hist = []
    try:
        for e in range(K + 1):
            _perturb()
            if s0.epoch != e:
                return bad("epoch-counter", {"expected": e, "observed": s0.epoch})
            L = len(s0)
            lst = _take(s0)
            ctx.transitions += 1
            ctx.state(h_state(N, W, rank, mode, kind, e))
            if L != len(lst):
                return bad("len-differs-from-yielded", {"epoch": e, "len": L, "yielded": lst})
            if want is not None and L != want:
                return bad("wrong-count-for-rank", {"epoch": e, "expected": want, "observed": L})
            if len(s0) != L:
                return bad("len-changes-after-iteration", {"epoch": e, "before": L, "after": len(s0)})
            hist.append(lst)
        # fresh samplers started at epoch k, each consumed on to epoch K
        for k in range(K + 1):
            _perturb()
            f = _mk(kind, N, k, mode)
            for e in range(k, K + 1):
                _perturb()
                L = len(f)
                lst = _take(f)
                ctx.transitions += 1
                ctx.case(1, 1 if N >= 2 else 0)
                if lst != hist[e]:
                    return bad("fresh-at-epoch-differs-from-history",
                               {"init_epoch": k, "epoch": e, "history": hist[e], "fresh": lst})
                if L != len(lst):
                    return bad("len-differs-from-yielded", {"epoch": e, "init_epoch": k, "len": L, "yielded": lst})
        # pure accessor and rewinding
        for e in range(K, -1, -1):
            _perturb()
            ctx.case(1, 1 if N >= 2 else 0)
            lst = _take(s0.get_samples_for_epoch(e))
            if lst != hist[e]:
                return bad("get_samples_for_epoch-differs-from-history", {"epoch": e, "history": hist[e], "observed": lst})
            if s0.epoch != K + 1:
                return bad("epoch-counter", {"expected": K + 1, "observed": s0.epoch, "after": "get_samples_for_epoch"})
        for e in (K, 0, 1):
            if e > K:
                continue
            _perturb()
            s0.epoch = e
            L = len(s0)
            lst = _take(s0)
            ctx.transitions += 1
            ctx.case(1, 1 if N >= 2 else 0)
            if lst != hist[e] or L != len(lst):
                return bad("rewound-epoch-differs-from-history", {"epoch": e, "history": hist[e], "observed": lst, "len": L})
    except Exception as e:
        return bad("raises", {"type": type(e).__name__, "error": str(e)[-300:], "where": "iteration"})
    return hist


def h_state(N, W, rank, mode, kind, e):
    # small exact integer code (distinct for distinct states within the bounds)
    m = O.MODES.index(mode)
    k = 0 if kind is None else kind + 1
    return ((((N * 16 + W) * 16 + rank) * 4 + m) * 64 + k) * 64 + e


def _config(ctx, N, W, mode, kind, K, base):
    """all ranks of one configuration + partition oracle. base = history without any group."""
    api = _api(kind)
    per_rank = []
    for rank in range(W):
        with SimulatedGroup(W, rank):
            per_rank.append(_history(ctx, N, W, rank, mode, kind, K))
    if any(h is None for h in per_rank):
        return
    case = {"N": N, "W": W, "mode": mode, "seed": kind, "K": K, "kind": "partition"}
    raised = [h == "raise" for h in per_rank]
    if any(raised):
        if not all(raised):
            ctx.violation({"api": api, "mode": mode, "symptom": "only-some-ranks-raise"}, case, {"raised": raised})
        return
    for e in range(K + 1):
        lists = [h[e] for h in per_rank]
        ctx.case(1, 1 if (N >= 2 and W >= 2) else 0)
        why = O.check_partition(lists, N, W, mode)
        if why:
            ctx.violation({"api": api, "mode": mode, "symptom": why}, dict(case, epoch=e), {"per_rank": lists})
            return
        ctx.outcome([sorted(len(x) for x in lists), lists[0][:3]])
    if mode == "ignore" or W == 1:
        for r, h in enumerate(per_rank):
            if h != base:
                ctx.violation(
                    {"api": api, "mode": mode,
                     "symptom": "ignore-mode-differs-from-single-process" if W > 1 else "group-of-one-differs-from-no-group"},
                    dict(case, rank=r), {"without_group": base, "observed": h})
                return
            if W == 1:
                ctx.traces += 1


def _seed_symmetry(ctx, N, seeds, K):
    """documented: (seed a, epoch b) must not repeat (seed b, epoch a)"""
    if N < 6:
        return
    for a in seeds:
        for b in seeds:
            if a < b <= K:
                ctx.case(1, 1)
                x = _take(EpochRandomSampler(range(N), base_seed=a).get_samples_for_epoch(b))
                y = _take(EpochRandomSampler(range(N), base_seed=b).get_samples_for_epoch(a))
                if x == y:
                    ctx.violation({"api": "EpochRandomSampler", "symptom": "epoch-seed-symmetry"},
                                  {"kind": "symmetry", "N": N, "a": a, "b": b}, {"order": x})


def _unset_seed(ctx, N):
    """base_seed=None draws a seed; the sampler must then behave like one built with that seed"""
    for t in range(3):
        torch.manual_seed(100 + t)
        ctx.case(1, 1 if N >= 2 else 0)
        try:
            s = EpochRandomSampler(range(N))
            a = [_take(s) for _ in range(2)]
            f = EpochRandomSampler(range(N), base_seed=s.base_seed)
            b = [_take(f) for _ in range(2)]
        except Exception as e:
            ctx.violation({"api": "EpochRandomSampler", "symptom": "raises", "mode": "raise"},
                          {"kind": "unset", "N": N}, {"error": str(e)[-300:]})
            return
        if a != b:
            ctx.violation({"api": "EpochRandomSampler", "symptom": "unset-seed-not-reproducible-from-base_seed"},
                          {"kind": "unset", "N": N}, {"a": a, "b": b})


def _real_group(ctx, worlds, tier):
    """conformance of the seam: the same histories inside a real gloo group"""
    helper = os.path.join(os.path.dirname(os.path.abspath(__file__)), "_c13_realgroup.py")
    K = 2
    cfgs = [{"N": N, "mode": m, "seed": s, "K": K}
            for N in (range(0, 9) if tier == "thorough" else (0, 1, 4, 5, 7))
            for m in O.MODES for s in (None, 0, 1)]
    root = tempfile.mkdtemp(prefix="verif-%d-c13-" % os.getpid(), dir="/dev/shm")
    try:
        for W in worlds:
            store = os.path.join(root, "store%d" % W)
            procs = [subprocess.Popen([sys.executable, helper, str(r), str(W), store, json.dumps(cfgs)],
                                      stdout=subprocess.PIPE, stderr=subprocess.PIPE, text=True)
                     for r in range(W)]
            outs = []
            ok = True
            for p in procs:
                try:
                    o, e = p.communicate(timeout=150)
                except subprocess.TimeoutExpired:
                    p.kill()
                    o, e = "", "timeout"
                if p.returncode != 0 or not o.strip():
                    ok = False
                    ctx.notes.append("real gloo group of %d unavailable: %s" % (W, (e or "")[-200:]))
                else:
                    outs.append(json.loads(o.strip().splitlines()[-1]))
            if not ok:
                ctx.capped.append("real process group W=%d could not be started" % W)
                continue
            for o in outs:
                r = o["rank"]
                for cfg, res in zip(cfgs, o["results"]):
                    sub = Ctx()
                    with SimulatedGroup(W, r):
                        h = _history(sub, cfg["N"], W, r, cfg["mode"], cfg["seed"], K)
                    ctx.merge(sub)
                    sim = {"raised": "ValueError"} if h == "raise" else {"hist": h, "lens": [len(x) for x in h or []]}
                    ctx.traces += 1
                    if h is not None and sim != res:
                        ctx.violation({"api": _api(cfg["seed"]), "symptom": "simulated-group-differs-from-real-group",
                                       "mode": cfg["mode"]},
                                      dict(cfg, kind="real", W=W, rank=r), {"real": res, "simulated": sim})
    finally:
        import shutil

        shutil.rmtree(root, ignore_errors=True)


OPS = ("iter", "peek_cur", "peek_next", "len", "set0", "set2")


def _ops_history(ctx, N, W, rank, mode, kind, ops, ref_cache):
    """One operation sequence on ONE sampler object; after every operation what it returns must be the
    function of (seed, epoch, rank) that a fresh sampler created at that epoch yields."""
    api = _api(kind)
    case = {"kind": "ops", "N": N, "W": W, "rank": rank, "mode": mode, "seed": kind, "ops": list(ops)}

    def ref(e):
        key = (W, rank, mode, e)
        if key not in ref_cache:
            with SimulatedGroup(W, rank):
                _perturb()
                ref_cache[key] = _take(_mk(kind, N, e, mode))
        return ref_cache[key]

    with SimulatedGroup(W, rank):
        s = _mk(kind, N, 0, mode)
        cur = 0
        for k, op in enumerate(ops):
            _perturb()
            ctx.transitions += 1
            if op == "iter":
                got, want = _take(s), ref(cur)
                cur += 1
                if s.epoch != cur:
                    ctx.violation({"api": api, "symptom": "epoch-not-advanced-by-iteration"}, case,
                                  {"step": k, "epoch": s.epoch, "expected": cur})
                    return
            elif op == "peek_cur":
                got, want = [int(i) for i in s.get_samples_for_epoch(s.epoch)], ref(cur)
            elif op == "peek_next":
                got, want = [int(i) for i in s.get_samples_for_epoch(s.epoch + 1)], ref(cur + 1)
            elif op == "len":
                got, want = len(s), len(ref(cur))
            else:
                cur = int(op[3:])
                s.epoch = cur
                got = want = None
            ctx.state([N, W, rank, mode, kind, cur, list(ops[: k + 1])])
            if got != want:
                ctx.violation({"api": api, "symptom": "order-depends-on-history", "op": op, "mode": mode}, case,
                              {"step": k, "epoch": cur, "expected": want, "observed": got})
                return
    ctx.outcome([ops[-1] if ops else None, cur])


def _ops_part(ctx, N, kind, tier):
    depth = 3 if tier == "quick" else 4
    ref_cache = {}
    for W in (1, 2):
        for rank in range(W):
            for mode in ("uneven", "drop"):
                for L in range(1, depth + 1):
                    for ops in itertools.product(OPS, repeat=L):
                        if ops[-1].startswith("set"):
                            continue  # a trailing assignment observes nothing
                        ctx.case(1, 1 if any(o.startswith(("set", "peek")) for o in ops[:-1]) else 0)
                        _ops_history(ctx, N, W, rank, mode, kind, ops, ref_cache)
    ctx.sample({"ops_part": {"N": N, "seed": kind, "alphabet": list(OPS), "depth": depth,
                             "example": ["peek_cur", "set2", "iter"]}})


LIVE_OPS = ("open_iter", "open_cur", "open_next", "step", "drain_old", "drain_new", "peek_cur", "len", "iter")


def _live_history(ctx, N, W, rank, mode, kind, ops, ref_cache):
    """Iterators that are OPENED now and read LATER, interleaved with other operations on the same sampler
    object.  Whatever is eventually read from an iterator opened for epoch e must be exactly what a fresh
    sampler created at epoch e yields for this rank, whatever happened in between (held iterators still
    open at the end of the sequence are drained oldest first)."""
    api = _api(kind)
    case = {"kind": "live", "N": N, "W": W, "rank": rank, "mode": mode, "seed": kind, "ops": list(ops)}

    def ref(e):
        key = (W, rank, mode, e)
        if key not in ref_cache:
            with SimulatedGroup(W, rank):
                _perturb()
                ref_cache[key] = _take(_mk(kind, N, e, mode))
        return ref_cache[key]

    def bad(symptom, k, h=None, **detail):
        if h is not None:
            detail.update(opened_by=h["by"], opened_at_step=h["at"], epoch=h["epoch"], expected=ref(h["epoch"]),
                          read=h["got"])
        ctx.violation({"api": api, "symptom": symptom, "mode": mode}, case, dict(detail, step=k))
        return False

    def read(h, k, how_many):
        """advance a held iterator; False after a violation"""
        want = ref(h["epoch"])
        while how_many != 0 and not h["done"]:
            try:
                h["got"].append(int(next(h["it"])))
            except StopIteration:
                h["done"] = True
                break
            how_many -= 1
            if h["got"] != want[: len(h["got"])]:
                return bad("held-iterator-differs-from-fresh-sampler", k, h)
        if h["done"] and h["got"] != want:
            return bad("held-iterator-differs-from-fresh-sampler", k, h)
        return True

    with SimulatedGroup(W, rank):
        s = _mk(kind, N, 0, mode)
        cur, held = 0, []
        for k, op in enumerate(tuple(ops) + ("drain_all",)):
            if op not in ("step", "len"):
                _perturb()
            ctx.transitions += 1
            live = [h for h in held if not h["done"]]
            if op == "open_iter":
                held.append({"it": iter(s), "epoch": cur, "got": [], "done": False, "by": op, "at": k})
                cur += 1
                if s.epoch != cur:
                    return bad("epoch-not-advanced-by-iteration", k, observed=s.epoch, expected=cur)
            elif op == "open_cur":
                held.append({"it": iter(s.get_samples_for_epoch(s.epoch)), "epoch": cur, "got": [], "done": False,
                             "by": op, "at": k})
            elif op == "open_next":
                held.append({"it": iter(s.get_samples_for_epoch(s.epoch + 1)), "epoch": cur + 1, "got": [],
                             "done": False, "by": op, "at": k})
            elif op == "step":
                if live and not read(live[0], k, 1):
                    return
            elif op == "drain_old":
                if live and not read(live[0], k, -1):
                    return
            elif op == "drain_new":
                if live and not read(live[-1], k, -1):
                    return
            elif op == "drain_all":
                for h in live:
                    if not read(h, k, -1):
                        return
            elif op == "peek_cur":
                got = [int(i) for i in s.get_samples_for_epoch(s.epoch)]
                if got != ref(cur):
                    return bad("order-depends-on-history", k, op=op, expected=ref(cur), observed=got)
            elif op == "len":
                if len(s) != len(ref(cur)):
                    return bad("len-differs-from-yielded", k, len=len(s), expected=len(ref(cur)))
            else:  # iter: a whole epoch drawn and consumed at once
                got = _take(s)
                if got != ref(cur):
                    return bad("order-depends-on-history", k, op=op, expected=ref(cur), observed=got)
                cur += 1
    ctx.state([N, W, rank, mode, kind, cur, "live", list(ops)])  # every proper prefix is a sequence of its own
    ctx.outcome(["live", len(held), cur, [len(h["got"]) for h in held]])


def _live_part(ctx, N, kind, tier):
    depth = 4 if tier == "quick" else 5
    ref_cache = {}
    opens = ("open_iter", "open_cur", "open_next")
    for W in (1, 2):
        for rank in range(W):
            for mode in ("uneven", "drop"):
                # the deepest level only without a group (the interleaving does not involve the rank slice)
                for L in range(2, (depth if W == 1 and mode == "uneven" else depth - 1) + 1):
                    for ops in itertools.product(LIVE_OPS, repeat=L):
                        # sequences without a held iterator that is disturbed before it is read are the ops part
                        first = next((j for j, o in enumerate(ops) if o in opens), None)
                        if first is None or first == L - 1:
                            continue
                        if ops[0] in ("step", "drain_old", "drain_new"):
                            continue  # nothing is held yet: same as the sequence without this operation
                        ctx.case(1, 1 if N >= 2 else 0)
                        _live_history(ctx, N, W, rank, mode, kind, ops, ref_cache)
    ctx.sample({"live_part": {"N": N, "seed": kind, "alphabet": list(LIVE_OPS), "depth": depth,
                              "example": ["open_cur", "open_next", "drain_old"]}})


# ----------------------------------------------- secondary entry points: the sampler inside every loader ----
FLAVOURS = ("SpectDataLoader", "LangDataLoader", "ContextWindowDataLoader", "ContextWindowTrainingDataLoader",
            "ContextWindowEvaluationDataLoader", "SpectTrainingDataLoader", "SpectEvaluationDataLoader")
FLAVOUR_CORPORA = [(3, 1, 2, 2), (2, 3, 1, 1, 3), (1, 3, 2, 2, 3, 1)]


def _flavour_loader(flavour, path, bs, drop, B, seed_, mode, init_epoch=0):
    """seed_ None = sequential.  Every loader is asked for utterance ids so that visits can be observed."""
    import pydrobert.torch.data as data

    shuffle = seed_ is not None
    if flavour.startswith("ContextWindow"):
        p = data.ContextWindowDataLoaderParams(batch_size=bs, drop_last=drop, context_left=1, context_right=0)
        kw = dict(suppress_uttids=False, seed=seed_, init_epoch=init_epoch, shuffle=shuffle)
        return getattr(data, flavour)(path, p, **kw)
    if flavour == "LangDataLoader":
        p = data.LangDataLoaderParams(batch_size=bs, drop_last=drop, num_length_buckets=B)
        kw = dict(shuffle=shuffle, seed=seed_, init_epoch=init_epoch, suppress_uttids=False)
        if mode is not None:
            kw["on_uneven_distributed"] = mode
        return data.LangDataLoader(os.path.join(path, "ref"), p, **kw)
    p = data.SpectDataLoaderParams(batch_size=bs, drop_last=drop, num_length_buckets=B)
    kw = dict(shuffle=shuffle, seed=seed_, init_epoch=init_epoch, suppress_uttids=False)
    if flavour == "SpectDataLoader":
        if mode is not None:
            kw["on_uneven_distributed"] = mode
        kw.update(suppress_alis=True, tokens_only=True)
    return getattr(data, flavour)(path, p, **kw)


def _visited(flavour, loader):
    out = []
    for batch in loader:
        out.extend(int(u[1:]) for u in batch[-1])
    return out


def _flavour_case(ctx, flavour, corpus, path, W, rank, bs, drop, B, seed_, mode, lifecycle=False):
    """The sampler clauses on the sampler INSIDE a loader: what the loader's sampler yields / reports for epochs
    0 and 1 must be what a directly constructed sampler of the effective mode yields for this rank, the loader
    itself (batch_size 1) must visit exactly these utterances, and copies made the way DataLoader workers make them
    (deepcopy / pickle, fresh and mid-history, read outside the process group) must go on identically."""
    import copy
    import pickle

    N = corpus.n
    if flavour.startswith("ContextWindow"):
        eff = "ignore"  # documented: no torch.distributed support, every process returns the same batches
    else:
        eff = "drop" if drop else (mode or "raise")
    case = {"kind": "flavour", "flavour": flavour, "lens": list(corpus.lens), "W": W, "rank": rank, "bs": bs,
            "drop": drop, "B": B, "seed": seed_, "mode": mode, "lifecycle": lifecycle}
    sig = {"api": flavour, "drop_last": drop, "distributed": W > 1}

    def bad(symptom, detail, **extra):
        ctx.violation(dict(sig, symptom=symptom, **extra), case, detail)
        return None

    def inside(f):
        if W > 1:
            with SimulatedGroup(W, rank):
                return f()
        return f()

    must_raise = W > 1 and eff == "raise" and N % W != 0
    try:
        loader = inside(lambda: _flavour_loader(flavour, path, bs, drop, B, seed_, mode))
    except Exception as e:
        if must_raise and isinstance(e, ValueError):
            ctx.outcome(["raise", flavour])
            return "raise"
        return bad("raises", {"error": str(e)[-300:]}, type=type(e).__name__, where="constructor")
    if must_raise:
        return bad("no-raise-on-indivisible", {"N": N, "W": W})
    try:
        smp = loader.batch_sampler.sampler
        if len(loader.dataset) != N:
            return bad("loader-sees-wrong-number-of-utterances", {"stored": N, "seen": len(loader.dataset)})
        if seed_ is not None and getattr(smp, "base_seed", None) != seed_:
            return bad("seed-not-passed-to-sampler", {"seed": seed_, "base_seed": getattr(smp, "base_seed", None)})
        ref = [inside(lambda: _take(_mk(seed_, N, e, eff))) for e in (0, 1, 2)]
        for e in (0, 1):
            got = [int(i) for i in smp.get_samples_for_epoch(e)]
            if got != ref[e]:
                return bad("loader-sampler-differs-from-direct-sampler", {"epoch": e, "effective_mode": eff,
                                                                          "direct": ref[e], "in_loader": got})
        if len(smp) != len(ref[0]):
            return bad("len-differs-from-yielded", {"len": len(smp), "expected": len(ref[0]), "effective_mode": eff})
        hist = []
        for e in (0, 1):
            seen = _visited(flavour, loader)
            hist.append(seen)
            if bs == 1 and seen != ref[e]:
                return bad("loader-visits-differ-from-sampler-order", {"epoch": e, "visited": seen, "sampler": ref[e]})
            if not set(seen) <= set(ref[e]) or len(set(seen)) != len(seen):
                return bad("loader-visits-outside-rank-share", {"epoch": e, "visited": seen, "share": ref[e]})
        if smp.epoch != 2:
            return bad("epoch-counter", {"expected": 2, "observed": smp.epoch})
        if lifecycle:
            # the loader is now mid-history (next epoch 2); copies are read OUTSIDE the group, as a worker process would
            for name, mk in (("deepcopy", lambda o: copy.deepcopy(o)), ("pickle", lambda o: pickle.loads(pickle.dumps(o)))):
                for what, obj in (("sampler", smp), ("loader", loader)):
                    ctx.case(1, 1)
                    try:
                        c = mk(obj)
                    except Exception as e:
                        ctx.count("lifecycle_copy_unsupported_%s_%s" % (name, what))
                        continue
                    cs = c if what == "sampler" else c.batch_sampler.sampler
                    L = len(cs)
                    got = _take(cs) if what == "sampler" else None
                    if what == "loader":
                        got = _visited(flavour, c)
                        if bs != 1:
                            if not set(got) <= set(ref[2]):
                                return bad("copy-differs-from-original", {"variant": name, "object": what, "visited": got,
                                                                          "share": ref[2]}, variant=name)
                            continue
                    if got != ref[2] or L != len(ref[2]):
                        return bad("copy-differs-from-original", {"variant": name, "object": what, "epoch": 2,
                                                                  "expected": ref[2], "observed": got, "len": L},
                                   variant=name)
            if smp.epoch != 2:
                return bad("copy-shares-state-with-original", {"epoch": smp.epoch})
    except Exception as e:
        return bad("raises", {"error": str(e)[-300:]}, type=type(e).__name__, where="iteration")
    ctx.outcome([flavour, eff, W, len(ref[0]), bs])
    return ref


def _flavour_part(ctx, spec, tier, seed):
    from checks import _c14_common as C14

    with C14.Scratch("c13-flavours-%d" % spec["i"]) as root:
        units = [(f, lens) for f in FLAVOURS for lens in FLAVOUR_CORPORA]
        for flavour, lens in units[spec["i"]::spec["of"]]:
            corpus = C14.Corpus(lens, seed)
            path = corpus.write(root, "A")
            N = corpus.n
            primary = flavour in ("SpectDataLoader", "LangDataLoader")
            modes = ("raise", "uneven", "ignore") if primary else (None,)
            for drop, seed_, mode, bs in itertools.product((False, True), (None, 0, 1), modes, (1, 2)):
                for B in ((1, 2) if (primary and bs == 1) else (1,)):
                    for W in (1, 2, 3):
                        per_rank = []
                        for rank in range(W):
                            ctx.case(1, 1)
                            ctx.transitions += 2
                            ctx.state(["flavour", flavour, list(lens), W, rank, drop, seed_, mode, bs, B])
                            per_rank.append(_flavour_case(ctx, flavour, corpus, path, W, rank, bs, drop, B, seed_, mode,
                                                          lifecycle=(bs == 1 and B == 1 and rank == W - 1)))
                        if any(x is None or x == "raise" for x in per_rank):
                            if any(x == "raise" for x in per_rank) and not all(x == "raise" for x in per_rank if x is not None):
                                ctx.violation({"api": flavour, "symptom": "only-some-ranks-raise"},
                                              {"kind": "flavour-partition", "flavour": flavour, "lens": list(lens)}, {})
                            continue
                        if flavour.startswith("ContextWindow"):
                            eff = "ignore"
                        else:
                            eff = "drop" if drop else mode or "raise"
                        for e in (0, 1):
                            why = O.check_partition([x[e] for x in per_rank], N, W, eff)
                            if why:
                                ctx.violation({"api": flavour, "symptom": why, "drop_last": drop, "distributed": W > 1},
                                              {"kind": "flavour", "flavour": flavour, "lens": list(lens), "W": W, "rank": 0,
                                               "bs": bs, "drop": drop, "B": B, "seed": seed_, "mode": mode,
                                               "lifecycle": False, "partition": True},
                                              {"epoch": e, "effective_mode": eff, "per_rank": [x[e] for x in per_rank]})
                                break
    ctx.sample({"flavour_part": {"flavours": list(FLAVOURS), "corpora": FLAVOUR_CORPORA,
                                 "example": {"flavour": "ContextWindowDataLoader", "W": 3, "drop_last": True,
                                             "expected": "every rank the full epoch"}}})


def _sampler_lifecycle(ctx, N, kind):
    """deepcopy / pickle / torch.save of a bare sampler, fresh and mid-history, created inside a group and read
    outside it; falsy options (init_epoch 0, base_seed 0) included through the kinds."""
    from mc.guards import lifecycle_variants

    for W, rank in ((1, 0), (2, 1), (3, 0)):
        for mode in ("uneven", "drop", "ignore"):
            with SimulatedGroup(W, rank):
                ref = [_take(_mk(kind, N, e, mode)) for e in range(3)]

                def make():
                    return _mk(kind, N, 0, mode)

                def used(o):
                    list(o)

                variants = list(lifecycle_variants(make, used, kinds=("deepcopy", "pickle", "torch.save", "used+deepcopy")))
            for name, v in variants:  # read outside the group, as in a worker process
                ctx.case(1, 1 if N >= 2 else 0)
                ctx.transitions += 1
                e = v.epoch
                want_e = 1 if name == "used+deepcopy" else 0
                L = len(v)
                got = _take(v)
                if e != want_e or got != ref[want_e] or L != len(got) or v.epoch != want_e + 1:
                    ctx.violation({"api": _api(kind), "symptom": "copy-differs-from-original", "variant": name, "mode": mode},
                                  {"kind": "sampler-lifecycle", "N": N, "seed": kind},
                                  {"W": W, "rank": rank, "epoch": e, "expected": ref[want_e], "observed": got, "len": L})
                    return


def run_shard(spec, tier, seed):
    ctx = Ctx()
    b = _bounds(tier)
    if "flavours" in spec:
        _flavour_part(ctx, spec, tier, seed)
        return ctx
    if "live" in spec:
        _live_part(ctx, spec["N"], spec["seed"], tier)
        return ctx
    if "ops" in spec:
        _ops_part(ctx, spec["N"], spec["seed"], tier)
        _sampler_lifecycle(ctx, spec["N"], spec["seed"])
        return ctx
    if "real" in spec:
        _real_group(ctx, spec["real"], tier)
        return ctx
    N, K = spec["N"], b["K"]
    for kind in spec["kinds"]:
        base = {}
        for mode in O.MODES:
            sub = Ctx()
            base[mode] = _history(sub, N, 1, 0, mode, kind, K, group=False)
            ctx.merge(sub)
            ctx.traces += 1 if base[mode] is not None else 0
        if any(v is None for v in base.values()):
            continue
        if any(base[m] != base["raise"] for m in O.MODES):
            ctx.violation({"api": _api(kind), "symptom": "mode-changes-order-without-group"},
                          {"kind": "nogroup", "N": N, "seed": kind, "K": K}, base)
        if sorted(base["raise"][0]) != list(range(N)):
            ctx.violation({"api": _api(kind), "symptom": "indices-not-covered", "mode": "raise"},
                          {"kind": "nogroup", "N": N, "seed": kind, "K": K}, {"epoch0": base["raise"][0]})
        for W in range(1, b["Wmax"] + 1):
            for mode in O.MODES:
                _config(ctx, N, W, mode, kind, K, base[mode])
        if N in (5, 12) and kind in (None, 1):
            ctx.sample({"N": N, "seed": kind, "epochs_without_group": base["raise"][:2]})
    if spec["extra"]:
        _seed_symmetry(ctx, N, b["seeds"], K)
        _unset_seed(ctx, N)
    return ctx


def replay(case):
    ctx = Ctx()
    kind = case.get("kind")
    if kind == "flavour":
        from checks import _c14_common as C14

        with C14.Scratch("c13-replay") as root:
            corpus = C14.Corpus(case["lens"], int(os.environ.get("VERIF_SEED", "0") or 0))
            path = corpus.write(root, "A")
            ranks = range(case["W"]) if case.get("partition") else [case["rank"]]
            for r in ranks:
                _flavour_case(ctx, case["flavour"], corpus, path, case["W"], r, case["bs"], case["drop"], case["B"],
                              case["seed"], case["mode"], case["lifecycle"])
        return ctx
    if kind == "sampler-lifecycle":
        _sampler_lifecycle(ctx, case["N"], case["seed"])
        return ctx
    if kind == "live":
        _live_history(ctx, case["N"], case["W"], case["rank"], case["mode"], case["seed"], tuple(case["ops"]), {})
        return ctx
    if kind == "ops":
        _ops_history(ctx, case["N"], case["W"], case["rank"], case["mode"], case["seed"], tuple(case["ops"]), {})
        return ctx
    if kind == "symmetry":
        _seed_symmetry(ctx, case["N"], [case["a"], case["b"]], max(case["a"], case["b"]))
    elif kind == "unset":
        _unset_seed(ctx, case["N"])
    elif kind == "real":
        _real_group(ctx, [case["W"]], "thorough")
    elif kind == "nogroup":
        run = Ctx()
        for mode in O.MODES:
            _history(run, case["N"], 1, 0, mode, case["seed"], case["K"], group=False)
        ctx.merge(run)
        ctx.merge(run_shard({"N": case["N"], "kinds": [case["seed"]], "extra": False}, "quick", 0))
    elif kind == "partition":
        sub = Ctx()
        base = _history(sub, case["N"], 1, 0, case["mode"], case["seed"], case["K"], group=False)
        _config(ctx, case["N"], case["W"], case["mode"], case["seed"], case["K"], base)
    else:
        if case.get("group", True):
            with SimulatedGroup(case["W"], case["rank"]):
                _history(ctx, case["N"], case["W"], case["rank"], case["mode"], case["seed"], case["K"])
        else:
            _history(ctx, case["N"], 1, 0, case["mode"], case["seed"], case["K"], group=False)
    return ctx
