"""C17 - command-line conversions invert each other; error-rate, subsetting and statistics commands
agree with a recount; every command is independent of worker count and completion order (E1 + E2)."""

import os
import shutil

from mc.runner import Ctx
from checks._c17_common import Env
from checks import _c17_conv as CV
from checks import _c17_other as OT
from checks import _c17_order as OR
from checks import _c17_global as GL
from checks import _c17_life as LF
from checks import _c17_ls as LS

PROP = "C17"
LEVEL = "model_checking"
RULE = (
    "case = (command family, generated corpus of 1-3 utterances (subsetting: 1-4) over tokens {a,b,c} / labels "
    "{0,1,2} with times on the frame grid, flag combination); corpora per family are complete small scopes "
    "(all transcripts up to length 2/3 for one utterance, all pairs up to length 1/2, a menu of triples; all "
    "segmentations with <= 2 segments on a 4-frame grid; all alignments up to 3/4 frames; all (ref,hyp) pairs) "
    "crossed with file prefix {'', 'p_'} x suffix {'.pt', '.x'}; flag groups that act on independent code paths "
    "(size mode, mapping files, replace/ignore lists, output location, link style) are enumerated group by "
    "group on the full corpora plus a reduced joint pass. Utterance ORDER: id menus in which one id is a proper "
    "prefix of another (u1/u10/u2; a/a-b/ab; x/x1/x_1/x.1) x suffix {'.pt','_x.pt','.x'} (first character sorting "
    "before and after the character following the shared prefix) x prefix {'', 'p_'} on subsetting (first/last/"
    "shortest/longest by id), error rates (per-utterance order; utterances missing on either side with and without "
    "--warn-missing), seeded --rand-* (same selection for every suffix) and token dir -> trn (same text for every "
    "suffix). State carried between calls: every case is evaluated in a process that has already run other "
    "cases with other arguments and is compared with a from-scratch oracle; subset, error-rate and chunk are "
    "additionally run after a call with different arguments and compared with the same call in a fresh "
    "interpreter. LATE TIME STAMPS: ctm and TextGrid round trips with frame shifts 0.0625 ms / 1 ms and frame "
    "indices just above 2**25, around 8e7 and above 2**31 (times to within one frame, as everywhere), token ids "
    "and alignment labels at 2**24+1 and 2**31+-1. ALIAS SPELLINGS: --file-suffix '' on cases of every family, "
    "replace/ignore lists that overlap (a replace source or target that is also ignored, a swap), batch sizes "
    "below / equal to / above the corpus size. DIFFERING ID SETS: ref/ and hyp/ with an utterance missing on either "
    "side or on both, x {total, --per-utt, --distances, both} x batch sizes x costs (and lists): every printed "
    "figure is recounted over the matched utterances only; without --warn-missing an error is required. "
    "ARBITRARY RANK: compute-mvn-stats on files of rank 1, 2 and 3 with the feature dimension at every position "
    "and --dim spelled positive, negative and by default (13 layouts x 6 length sets x --bessel x groups); "
    "subsetting by length on rank-1 and rank-3 files. FILE LIFECYCLE (family life): 18 writers (12 commands; "
    "subsetting in each of hard link / copy / symlink x --only) x {contents changed, utterance removed, added, "
    "both} x 2 namings: run, re-create the source, run again into the SAME destination; a re-run that reports "
    "success must contain, identical (and for subsetting: related to the source file in the same way), everything "
    "a run into a fresh destination writes. ONE FLAG AT A TIME (family flags): 21 base argument lists over all 16 "
    "commands x every flag of the command (174 variants): base, variant, base, variant ... in one process with "
    "--num-workers 0, every call compared with the same call made as the FIRST call of a fresh process (forked "
    "from an interpreter that has called nothing). LISTING ORDER (family ls): ~14 multi-utterance cases of every "
    "family are evaluated with os.listdir / os.scandir below the scratch root answering in each of six orders "
    "(mc.seams.ListingPolicy: every permutation of a directory with <= 3 entries; serial run and every worker "
    "schedule alike): all files, printed text and oracle verdicts must coincide. GLOBAL STATE: ~36 cases of every family (and all late-time-stamp "
    "cases) are evaluated with the stock default dtype and under torch.set_default_dtype(float64) in the "
    "parent: all observations must coincide, and under float64 the serial run must equal every worker schedule, "
    "the virtual spawn pool running its work with the default dtype reset to float32 as a fresh interpreter "
    "would (thorough: also the real spawn pool below a float64 parent). Every command with --num-workers is run serially and "
    "then with 2 workers on an in-process pool/loader for --mp-chunk-size in {1,2} under EVERY completion order "
    "of the chunks (and every interleaving of DataLoader worker fetches); each schedule must reproduce the "
    "serial files and printed text. One execution = one (command, corpus, flags, schedule); distinctness is "
    "measured by hashing that tuple; non-trivial = corpus has at least one token / one edit / a proper subset."
)
ASSUMPTIONS = [
    "small scope: <= 3 utterances (4 for subsetting), <= 3 tokens per transcript, <= 4 frames, 3 tokens",
    "worker pools are explored on a virtual in-process pool (initializer run once, imap_unordered completion "
    "order enumerated) and a virtual DataLoader (fetch interleavings enumerated, delivery in index order); the "
    "real spawn pool and real DataLoader workers are run once per command in the thorough tier only",
    "times: token boundaries are compared to within one frame (as the property states); ids exactly",
    "TextGrid files use the short text format with one tier, times below 10 s; empty tiers excluded "
    "(write_textgrid documents that it refuses them); ali -> token excludes zero-frame alignments "
    "(documented R >= 1)",
    "error rates: an overall figure over zero reference tokens and a per-utterance figure over an empty "
    "reference have no value fixed by the statement (a crash on the latter is still reported)",
    "unequal costs: the printed figure must lie between the fewest and the most edits over minimum-cost "
    "alignments (C02 oracle), equal costs: exact",
    "--rand-* subsetting: any set of the right size is accepted, and the same seed must give the same set",
    "chunk-torch-spect-data-dir: only schedule independence of its output (content belongs to C10); "
    "non-unique --format-utt (user-made write collisions) not explored; torch-spect-data-dir-to-wds has no "
    "worker flag and is not covered",
    "MVN groups with a single frame are skipped (F20 is decided by C18)",
    "re-runs into a used destination: a refused re-run (FileExistsError for links) and files of the earlier run "
    "that a fresh run would not write are undocumented; both are counted, not judged",
    "printed error-rate figures are compared with tolerance 1e-6 (they may be produced in float32)",
    "--rand-* without --seed is documented as non-deterministic and is not compared across calls",
    "utterance order: 'by id' (python string order of the ids, as the subset command documents) is also required "
    "of the per-utterance error-rate listing and of the trn written from a token directory; seeded --rand-* "
    "selections are only required to be the same for every file suffix, not to match a particular generator",
    "process-global state explored: torch's default dtype only (float32 / float64); DataLoader workers are forked "
    "on this platform and inherit it, spawn-pool workers do not",
    "the TextGrid header's end time must be within one frame of the number of frames (--feat-dir) or of the "
    "last boundary (--infer)",
    "ctm writer sorts its rows by (wave file, channel, start) itself and MVN/moment sums are order-free, so the "
    "prefix-id menus are not repeated there",
]
BUDGET_S = {"quick": 240, "thorough": 2400}

FAMILIES = {
    "trn": (CV.cases_trn, CV.eval_trn, 6),
    "ctm": (CV.cases_ctm, CV.eval_ctm, 2),
    "tg": (CV.cases_tg, CV.eval_tg, 3),
    "ali": (CV.cases_ali, CV.eval_ali, 3),
    "er": (OT.cases_er, OT.eval_er, 12),
    "sub": (OT.cases_sub, OT.eval_sub, 8),
    "stat": (OT.cases_stat, OT.eval_stat, 8),
    "ord": (OR.cases_ord, OR.eval_ord, 4),
}
FAMILIES["f64"] = GL.make(FAMILIES) + (2,)
FAMILIES["ls"] = LS.make(FAMILIES) + (3,)
FAMILIES["life"] = (LF.cases_life, LF.eval_life, 1)
FAMILIES["flags"] = (LF.cases_flags, LF.eval_flags, 4)


def shards(tier, seed):
    out = []
    for fam, (_, _, k) in FAMILIES.items():
        out += [{"fam": fam, "k": i, "of": k} for i in range(k)]
    return out


def _root():
    return "/dev/shm/verif-%d/c17" % os.getpid()


def run_shard(spec, tier, seed):
    ctx = Ctx()
    gen, ev, _ = FAMILIES[spec["fam"]]
    root = _root()
    env = Env(ctx, root, tier, seed)
    try:
        for i, case in enumerate(gen(tier, seed)):
            if i % spec["of"] != spec["k"]:
                continue
            case["_seed"] = seed
            ev(env, case)
            ctx.count("cases:" + spec["fam"])
    finally:
        shutil.rmtree(os.path.dirname(root), ignore_errors=True)
    return ctx


def replay(case):
    ctx = Ctx()
    root = _root()
    env = Env(ctx, root, "thorough" if case.get("real") else "quick", case.get("_seed", 0))
    try:
        FAMILIES[case["fam"]][1](env, case)
    finally:
        shutil.rmtree(os.path.dirname(root), ignore_errors=True)
    return ctx
