"""Stateful table language model for the C05 harness.

The next-label scores are read from ``table[code]`` where ``code`` is an integer threaded through
the state dictionary (never recomputed from ``hist`` beyond the single newly consumed token), plus a
per-batch-element bias selected by ``off`` which comes from ``initial_state`` and reaches the beam
slots only through ``extract_by_src``. If the search mis-threads the state (wrong source slot, wrong
branch of ``mix_by_mask``), the code - and with it the scores - belong to another label sequence and
the reference models disagree with the search.
"""

import torch

from pydrobert.torch.modules import MixableSequentialLanguageModel


class TableLM(MixableSequentialLanguageModel):
    def __init__(self, V, table, bias):
        super().__init__(V)
        self.table = table  # (n_codes, V)
        self.bias = bias  # (n_bias, V)
        self.garbage_reads = 0
        self.calls = 0
        self.extracts = 0
        self.mixes = 0

    def update_input(self, prev, hist):
        if "code" in prev:
            return prev
        M = hist.flatten(1).size(1)
        out = dict(prev)
        if "off" not in out:
            out["off"] = torch.zeros(M, dtype=torch.long)
        out["code"] = torch.zeros(M, dtype=torch.long)
        out["cnt"] = torch.zeros(M, dtype=torch.long)
        return out

    def calc_idx_log_probs(self, hist, prev, idx):
        self.calls += 1
        S, M = hist.shape
        V = self.vocab_size
        idx = idx.expand(M) if idx.dim() == 0 else idx
        code, cnt, off = prev["code"], prev["cnt"], prev["off"]
        consume = idx > 0
        if S:
            tok = hist.gather(0, (idx - 1).clamp(0, S - 1).unsqueeze(0)).squeeze(0)
        else:
            tok = torch.zeros(M, dtype=torch.long)
        bad = consume & ((tok < 0) | (tok >= V))
        if bool(bad.any()):
            self.garbage_reads += int(bad.sum())
        tok = tok.clamp(0, V - 1)
        new_code = torch.where(consume, code * (V + 1) + tok + 1, code) % self.table.size(0)
        logits = self.table[new_code] + self.bias[off % self.bias.size(0)]
        return logits, {"off": off, "code": new_code, "cnt": cnt + consume.long()}

    def extract_by_src(self, prev, src):
        self.extracts += 1
        return {k: v.index_select(0, src) for k, v in prev.items()}

    def mix_by_mask(self, prev_true, prev_false, mask):
        self.mixes += 1
        return {k: torch.where(mask, prev_true[k], prev_false[k]) for k in prev_true}


class RecurrentLM(MixableSequentialLanguageModel):
    """Small tanh-recurrent LM through the public interface. State {"h": (M, H)}; the initial hidden state
    is a row of ``h0`` picked by ``initial_state["off"]`` (row 0 by default). The weights are buffers, so
    they travel through state_dict / .double() / pickling like those of a trained model."""

    def __init__(self, V, E, U, Wo, bo, h0):
        super().__init__(V)
        for name, t in (("E", E), ("U", U), ("Wo", Wo), ("bo", bo), ("h0", h0)):
            self.register_buffer(name, t.clone())

    def update_input(self, prev, hist):
        if "h" in prev:
            return prev
        M = hist.flatten(1).size(1)
        off = prev.get("off", torch.zeros(M, dtype=torch.long))
        return {"h": self.h0[off % self.h0.size(0)]}

    def calc_idx_log_probs(self, hist, prev, idx):
        S, M = hist.shape
        idx = idx.expand(M) if idx.dim() == 0 else idx
        h = prev["h"]
        consume = idx > 0
        if S:
            tok = hist.gather(0, (idx - 1).clamp(0, S - 1).unsqueeze(0)).squeeze(0).clamp(0, self.vocab_size - 1)
        else:
            tok = torch.zeros(M, dtype=torch.long)
        h_new = torch.where(consume.unsqueeze(1), torch.tanh(self.E[tok] + h @ self.U), h)
        return h_new @ self.Wo + self.bo, {"h": h_new}

    def extract_by_src(self, prev, src):
        return {k: v.index_select(0, src) for k, v in prev.items()}

    def mix_by_mask(self, prev_true, prev_false, mask):
        return {k: torch.where(mask.unsqueeze(1), prev_true[k], prev_false[k]) for k in prev_true}
