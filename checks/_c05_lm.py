"""Stateful table language model for the C05 harness.

The next-label scores are read from ``table[code]`` where ``code`` is an integer threaded through
the state dictionary (never recomputed from ``hist`` beyond the single newly consumed token), plus a
per-batch-element bias selected by ``off`` which comes from ``initial_state`` and reaches the beam
slots only through ``extract_by_src``. If the search mis-threads the state (wrong source slot, wrong
branch of ``mix_by_mask``), the code - and with it the scores - belong to another label sequence and
the reference models disagree with the search.
"""

import torch

from pydrobert.torch.modules import MixableSequentialLanguageModel


class TableLM(MixableSequentialLanguageModel):
    def __init__(self, V, table, bias):
        super().__init__(V)
        self.table = table  # (n_codes, V)
        self.bias = bias  # (n_bias, V)
        self.garbage_reads = 0
        self.calls = 0
        self.extracts = 0
        self.mixes = 0

    def update_input(self, prev, hist):
        if "code" in prev:
            return prev
        M = hist.flatten(1).size(1)
        out = dict(prev)
        if "off" not in out:
            out["off"] = torch.zeros(M, dtype=torch.long)
        out["code"] = torch.zeros(M, dtype=torch.long)
        out["cnt"] = torch.zeros(M, dtype=torch.long)
        return out

    def calc_idx_log_probs(self, hist, prev, idx):
        self.calls += 1
        S, M = hist.shape
        V = self.vocab_size
        idx = idx.expand(M) if idx.dim() == 0 else idx
        code, cnt, off = prev["code"], prev["cnt"], prev["off"]
        consume = idx > 0
        if S:
            tok = hist.gather(0, (idx - 1).clamp(0, S - 1).unsqueeze(0)).squeeze(0)
        else:
            tok = torch.zeros(M, dtype=torch.long)
        bad = consume & ((tok < 0) | (tok >= V))
        if bool(bad.any()):
            self.garbage_reads += int(bad.sum())
        tok = tok.clamp(0, V - 1)
        new_code = torch.where(consume, code * (V + 1) + tok + 1, code) % self.table.size(0)
        logits = self.table[new_code] + self.bias[off % self.bias.size(0)]
        return logits, {"off": off, "code": new_code, "cnt": cnt + consume.long()}

    def extract_by_src(self, prev, src):
        self.extracts += 1
        return {k: v.index_select(0, src) for k, v in prev.items()}

    def mix_by_mask(self, prev_true, prev_false, mask):
        self.mixes += 1
        return {k: torch.where(mask, prev_true[k], prev_false[k]) for k in prev_true}
