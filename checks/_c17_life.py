"""C17: lifecycle of files and of the process.

family "life"  - every command that writes a directory (or a file) is run, the SOURCE is changed (new contents under
                 the same ids / an utterance removed / an utterance added; files are re-created, so they are new
                 inodes), and the command is run again into the SAME destination.  If the second run reports success,
                 everything a run into a fresh destination writes must be found, identical, in the re-used destination
                 (for subsetting: including how the file relates to its source file).  Left-overs of the first run that
                 a fresh run would not write are counted, not judged (undocumented), and so is a refused re-run.
family "flags" - every command is called with a base argument list and then with ONE flag changed at a time (every
                 flag of the command), alternating base / variant in one process with --num-workers 0; every call
                 must give exactly what the same call gives as the first call of a fresh process."""

import itertools
import os

import torch

from mc.oracles import cli as O
from checks._c17_common import io_flags, save, wipe
from checks._c17_seams import observe_call, fresh_calls, snap_file, write, jd

SP = [("", ".pt"), ("p_", ".x")]


# =========================================================================================
# sources
def _toks(i, k):
    return [O.TOKENS[(i + k + j) % 3] for j in range(1 + (i + k) % 3)]


def _ali(i, k):
    return [(i + k + t // (1 + (i + k) % 2)) % 3 for t in range(2 + (i + 2 * k) % 3)]


def _segs(i, k):
    out, cur = [], 0
    for j, t in enumerate(_toks(i, k)):
        out.append([t, cur, cur + 1 + (j + k) % 2])
        cur = out[-1][2]
    return out


def make_source(kind, root, spec, prefix, suffix):
    """spec: {utt: k}.  Everything is deleted and written again: changed files are new files."""
    wipe(root)
    os.makedirs(root)
    t2i = {"a": 0, "b": 1, "c": 2}
    write(os.path.join(root, "tok.map"), O.token2id_text(t2i, False))
    items = [(i, u, k) for i, (u, k) in enumerate(sorted(spec.items()))]
    if kind == "trn":
        write(os.path.join(root, "in.trn"), O.trn_text([(u, _toks(i, k)) for i, u, k in items]))
    elif kind == "ctm":
        write(os.path.join(root, "in.ctm"), O.ctm_text([(u, "A", s, e, t) for i, u, k in items for t, s, e in _segs(i, k)], 10))
    elif kind == "tg":
        for i, u, k in items:
            segs = _segs(i, k)
            write(os.path.join(root, "tg", prefix + u + ".TextGrid"), O.textgrid_text(segs, False, 10, segs[-1][2]))
    elif kind == "spect":
        for i, u, k in items:
            a = _ali(i, k)
            name = prefix + u + suffix
            save(torch.tensor([[float(i), float(k + t)] for t in range(len(a))]), os.path.join(root, "feat", name))
            save(torch.tensor(a), os.path.join(root, "ali", name))
            save(torch.tensor([list(r) for r in O.runs(a)]), os.path.join(root, "ref", name))
    else:
        raise ValueError(kind)


DRIVERS = {
    # name: (source kind, function name, args(src, dest, prefix, suffix), destination is a file)
    "trn-to-dir": ("trn", "trn_to_torch_token_data_dir", lambda s, d, p, x: [s + "/in.trn", s + "/tok.map", d] + io_flags(p, x), False),
    "ctm-to-dir": ("ctm", "ctm_to_torch_token_data_dir", lambda s, d, p, x: [s + "/in.ctm", s + "/tok.map", d] + io_flags(p, x), False),
    "tg-to-dir": ("tg", "textgrids_to_torch_token_data_dir", lambda s, d, p, x: [s + "/tg", s + "/tok.map", d] + io_flags(p, x), False),
    "dir-to-tg": ("spect", "torch_token_data_dir_to_textgrids",
                  lambda s, d, p, x: [s + "/ref", s + "/tok.map", "--swap", d, "--feat-dir", s + "/feat"] + io_flags(p, x), False),
    "dir-to-trn": ("spect", "torch_token_data_dir_to_trn", lambda s, d, p, x: [s + "/ref", s + "/tok.map", "--swap", d] + io_flags(p, x), True),
    "dir-to-ctm": ("spect", "torch_token_data_dir_to_ctm", lambda s, d, p, x: [s + "/ref", s + "/tok.map", "--swap", d] + io_flags(p, x), True),
    "ali-to-tok": ("spect", "torch_ali_data_dir_to_torch_token_data_dir", lambda s, d, p, x: [s + "/ali", d] + io_flags(p, x), False),
    "tok-to-ali": ("spect", "torch_token_data_dir_to_torch_ali_data_dir", lambda s, d, p, x: [s + "/ref", d] + io_flags(p, x), False),
    "chunk": ("spect", "chunk_torch_spect_data_dir", lambda s, d, p, x: [s, d, "--quiet"] + io_flags(p, x), False),
    "mvn": ("spect", "compute_mvn_stats_for_torch_feat_data_dir", lambda s, d, p, x: [s + "/feat", d] + io_flags(p, x), True),
    "info": ("spect", "get_torch_spect_data_dir_info", lambda s, d, p, x: [s, d] + io_flags(p, x), True),
    "er": ("spect", "compute_torch_token_data_dir_error_rates", lambda s, d, p, x: [s + "/ref", s + "/ref", d, "--per-utt"] + io_flags(p, x), True),
}
for _style, _only in itertools.product(("link", "copy", "symlink"), (False, True)):
    DRIVERS["subset-%s%s" % (_style, "-only" if _only else "")] = (
        "spect", "subset_torch_spect_data_dir",
        (lambda st, on: lambda s, d, p, x: [s + "/feat" if on else s, d, "--first-n", 9] + io_flags(p, x)
         + ([] if st == "link" else ["--" + st]) + (["--only"] if on else []))(_style, _only), False)

CHANGES = {"contents": lambda: {"u1": 1, "u2": 2, "u3": 0}, "removed": lambda: {"u1": 0, "u3": 2},
           "added": lambda: {"u1": 0, "u2": 1, "u3": 2, "u4": 1}, "contents+removed": lambda: {"u1": 2, "u3": 1}}


def cases_life(tier, seed):
    for name, change, (prefix, suffix) in itertools.product(DRIVERS, CHANGES, SP):
        yield dict(fam="life", driver=name, change=change, prefix=prefix, suffix=suffix)


def _subset_relation(dest, src_root):
    """for every file below dest: is it a link to / the same inode as / a byte-identical copy of the source file"""
    rel = {}
    for dp, _, fns in os.walk(dest):
        for fn in fns:
            p = os.path.join(dp, fn)
            key = os.path.relpath(p, dest)
            src = os.path.join(src_root, key)
            info = {"symlink": os.path.islink(p)}
            try:
                info["same_file"] = os.path.samefile(p, src)
                with open(p, "rb") as f, open(src, "rb") as g:
                    info["same_bytes"] = f.read() == g.read()
            except OSError:
                info["same_file"] = info["same_bytes"] = None
            rel[key] = info
    return rel


def eval_life(env, case):
    env.begin(case)
    kind, func, mkargs, is_file = DRIVERS[case["driver"]]
    prefix, suffix = case["prefix"], case["suffix"]
    src = env.p("src")
    api = func.replace("_", "-")
    flags = {"driver": case["driver"], "change": case["change"]}

    def call(dest):
        a = mkargs(src, dest, prefix, suffix)
        if "--num-workers" in _FLAGS_OF.get(func, ()):
            a = a + ["--num-workers", 0]
        obs = observe_call(func, a, dest)
        if is_file:
            obs["files"] = {"(file)": snap_file(dest)}
        if case["driver"].startswith("subset") and os.path.isdir(dest):
            srcroot = src + "/feat" if case["driver"].endswith("only") else src
            obs["relation_to_source"] = _subset_relation(dest, srcroot)
        return obs

    used = env.p("used", "dest.pt" if case["driver"] == "mvn" else "dest")  # same depth: relative links compare equal
    fresh = env.p("fresh", "dest.pt" if case["driver"] == "mvn" else "dest")
    os.makedirs(os.path.dirname(used))
    os.makedirs(os.path.dirname(fresh))
    make_source(kind, src, {"u1": 0, "u2": 1, "u3": 2}, prefix, suffix)
    first = call(used)
    env.ev(api, "first-run")
    if first["exc"] or first["rc"]:
        env.ctx.count("life:first run fails (judged by the other families)")
        return
    make_source(kind, src, CHANGES[case["change"]](), prefix, suffix)
    again = call(used)
    env.ev(api, "re-run-into-used-destination")
    want = call(fresh)
    env.ev(api, "fresh-destination")
    if want["exc"] or want["rc"]:
        env.ctx.count("life:fresh run fails (judged by the other families)")
        return
    if again["exc"] or again["rc"]:
        env.ctx.count("life:re-run into a used destination refused with %s (undocumented, not judged)" % (again["exc"] or "exit status"))
        return
    stale, extra = [], []
    for key in ("files", "relation_to_source"):
        w, g = want.get(key) or {}, again.get(key) or {}
        stale += [[key, k, w[k], g.get(k)] for k in sorted(w) if jd(g.get(k)) != jd(w[k])]
        extra += [k for k in g if k not in w]
    if again["out"] != want["out"]:
        stale.append(["printed", "", want["out"], again["out"]])
    if extra:
        env.ctx.count("life:left-overs of the earlier run kept in a re-used destination (undocumented, not judged)", len(extra))
    if stale:
        env.viol(dict({"api": api, "symptom": "stale-output-after-rerun-into-used-destination"}, **flags),
                 {"differences[what, path, fresh destination, re-used destination]": stale[:4]})
    else:
        env.ctx.outcome([case["driver"], case["change"], want.get("files")])


# =========================================================================================
# one flag at a time
_FLAGS_OF = {f: ("--num-workers",) for f in (
    "trn_to_torch_token_data_dir", "torch_token_data_dir_to_trn", "ctm_to_torch_token_data_dir",
    "textgrids_to_torch_token_data_dir", "compute_mvn_stats_for_torch_feat_data_dir",
    "torch_token_data_dir_to_torch_ali_data_dir", "torch_ali_data_dir_to_torch_token_data_dir",
    "torch_token_data_dir_to_textgrids", "chunk_torch_spect_data_dir", "subset_torch_spect_data_dir",
    "print_torch_ali_data_dir_length_moments", "print_torch_ref_data_dir_length_moments")}


def build_world(w):
    """one directory with every kind of input, under two file namings and two sets of subdirectories"""
    t2i = {"a": 0, "b": 1, "c": 2}
    write(w + "/tok.map", O.token2id_text(t2i, False))
    write(w + "/id.map", O.token2id_text(t2i, True))
    write(w + "/in.trn", "{ a / c } b (u1)\nzz c (u2)\n(u3)\nb b a (u4)\n")
    rows = [("u1", "A", 0, 2, "a"), ("u1", "A", 2, 3, "zz"), ("u1", "B", 1, 4, "c"), ("u2", "A", 1, 2, "b")]
    write(w + "/in.ctm", O.ctm_text(rows, 10))
    write(w + "/wc2utt", "u1 A x1\nu1 B x2\nu2 A x3\n")
    write(w + "/utt2wc", "y1 u1 A\ny2 u1 B\ny3 u2 A\n")
    write(w + "/utt2wc_full", "".join(f"{p}u{i} w{i} A\n" for p in ("", "p_") for i in range(1, 5)))
    write(w + "/wc2utt_full", "".join(f"w{i} B {p}u{i}\n" for p in ("", "p_") for i in range(1, 5)))
    for name, k in (("u1.TextGrid", 0), ("p_u1.TextGrid", 2), ("u1.tg", 1), ("u3.tg", 2)):
        segs = _segs(1, k)
        segs = [segs[0]] + [[t, s + 1, e + 1] for t, s, e in segs[1:]]  # a gap after the first interval
        write(w + "/tg/" + name, O.textgrid_text(segs, False, 10, segs[-1][2] + 1, "transcript"))
    write(w + "/tg/u2.TextGrid", O.textgrid_text([["a", 1, 1], ["zz", 3, 3]], True, 10, 6, "words"))
    for (prefix, suffix), subs in itertools.product((("", ".pt"), ("p_", ".pt"), ("", ".x")), (("feat", "ali", "ref"), ("feat2", "ali2", "ref2"))):
        shift = (1 if prefix else 0) + (2 if suffix == ".x" else 0) + (1 if subs[0] == "feat2" else 0)
        for i in range(1, 5):
            a = _ali(i, shift)
            if i == 4:
                a = a + [a[-1] + 1] * 3
            name = prefix + "u%d" % i + suffix
            save(torch.tensor([[float(i), float(shift + t), -1.0] for t in range(len(a))]), os.path.join(w, "spect", subs[0], name))
            save(torch.tensor(a), os.path.join(w, "spect", subs[1], name))
            save(torch.tensor([list(r) for r in O.runs(a)]), os.path.join(w, "spect", subs[2], name))
            save(torch.tensor([(x + shift + i) % 3 for x in a[: 1 + i % 3]]), os.path.join(w, "hyp", name))
            save(torch.tensor([t for t in a if t != 1] or [0]), os.path.join(w, "refseq", name))
    os.remove(os.path.join(w, "hyp", "u3.pt"))
    save(torch.tensor([[1.0, 2.0, 3.0]] * 2).view(2, 1, 3).expand(2, 2, 3).contiguous(), os.path.join(w, "spect", "feat3d", "u1.pt"))
    save(torch.arange(18.0).view(3, 2, 3), os.path.join(w, "spect", "feat3d", "u2.pt"))
    write(w + "/replace", "1 0\n")
    write(w + "/replace_tok", "b a\n")
    write(w + "/ignore", "2 1\n")
    write(w + "/ignore_tok", "c\n")
    write(w + "/id2gid", "".join(f"{p}u{i} g{i % 2}\n" for p in ("", "p_") for i in range(1, 5)))
    write(w + "/utts.txt", "u3\nnope\nu1\n")


def _without(base, flag, n=1):
    i = base.index(flag)
    return base[:i] + base[i + 1 + n:]


def _sub(base, flag, *vals):
    i = base.index(flag)
    return base[: i + 1] + list(vals) + base[i + 1 + len(vals):]


def specs(w):
    """-> {name: (function, base argument list, [(flag label, argument list differing in that one flag)])};
    {OUT} is replaced by the output root of the call"""
    S = {}
    io = [("--file-prefix", ["--file-prefix", "p_"]), ("--file-suffix", ["--file-suffix", ".x"])]
    sp = w + "/spect"

    def add(name, func, base, variants):
        S[name] = (func, base, variants + [(lab, base + extra) for lab, extra in io])

    b = [w + "/in.trn", w + "/tok.map", "{OUT}/d", "--alt-handler", "first", "--unk-symbol", "c", "--num-workers", 0]
    add("trn-to-dir", "trn_to_torch_token_data_dir", b, [
        ("--alt-handler", _without(b, "--alt-handler")), ("--unk-symbol", _without(b, "--unk-symbol")),
        ("--unk-symbol=b", _sub(b, "--unk-symbol", "b")), ("--swap", b + ["--swap"]),
        ("--skip-frame-times", b + ["--skip-frame-times"]), ("--feat-sizing", b + ["--feat-sizing"]),
        ("--mp-chunk-size", b + ["--mp-chunk-size", 1])])
    b = [w + "/refseq", w + "/id.map", "{OUT}/o.trn", "--num-workers", 0]
    add("dir-to-trn", "torch_token_data_dir_to_trn", b, [("--swap", b + ["--swap"])])
    b = [w + "/in.ctm", w + "/tok.map", "{OUT}/d", "--unk-symbol", "c", "--num-workers", 0]
    add("ctm-to-dir", "ctm_to_torch_token_data_dir", b, [
        ("--unk-symbol", _without(b, "--unk-symbol")), ("--swap", b + ["--swap"]),
        ("--skip-frame-times", b + ["--skip-frame-times"]), ("--feat-sizing", b + ["--feat-sizing"]),
        ("--frame-shift-ms", b + ["--frame-shift-ms", 5]), ("--frame-shift-ms=20", b + ["--frame-shift-ms", 20]),
        ("--wc2utt", b + ["--wc2utt", w + "/wc2utt"]), ("--utt2wc", b + ["--utt2wc", w + "/utt2wc"]),
        ("--mp-chunk-size", b + ["--mp-chunk-size", 1])])
    b = [w + "/tg", w + "/tok.map", "{OUT}/d", "--unk-symbol", "c", "--num-workers", 0]
    add("tg-to-dir", "textgrids_to_torch_token_data_dir", b, [
        ("--unk-symbol", _without(b, "--unk-symbol")), ("--swap", b + ["--swap"]),
        ("--skip-frame-times", b + ["--skip-frame-times"]), ("--feat-sizing", b + ["--feat-sizing"]),
        ("--frame-shift-ms", b + ["--frame-shift-ms", 5]), ("--textgrid-suffix", b + ["--textgrid-suffix", ".tg"]),
        ("--fill-symbol", b + ["--fill-symbol", "b"]), ("--tier-name", b + ["--tier-name", "words"]),
        ("--tier-idx", b + ["--tier-idx", 0]), ("--mp-chunk-size", b + ["--mp-chunk-size", 1])])
    b = [sp + "/ref", w + "/id.map", "{OUT}/o.ctm"]
    add("dir-to-ctm", "torch_token_data_dir_to_ctm", b, [
        ("--swap", b + ["--swap"]), ("--frame-shift-ms", b + ["--frame-shift-ms", 5]), ("--channel", b + ["--channel", "Q"]),
        ("--utt2wc", b + ["--utt2wc", w + "/utt2wc_full"]), ("--wc2utt", b + ["--wc2utt", w + "/wc2utt_full"])])
    b = [w + "/refseq", w + "/hyp", "{OUT}/er.txt", "--warn-missing", "--quiet"]
    add("error-rates", "compute_torch_token_data_dir_error_rates", b, [
        ("--warn-missing", _without(b, "--warn-missing", 0)), ("--quiet", _without(b, "--quiet", 0)),
        ("--per-utt", b + ["--per-utt"]), ("--distances", b + ["--distances"]), ("--batch-size", b + ["--batch-size", 1]),
        ("--batch-size=2", b + ["--batch-size", 2]), ("--nist-costs", b + ["--nist-costs"]), ("--costs", b + ["--costs", 1, 2, 3]),
        ("--costs=0", b + ["--costs", 0, 1, 1]), ("--replace", b + ["--replace", w + "/replace"]), ("--ignore", b + ["--ignore", w + "/ignore"]),
        ("--id2token", b + ["--id2token", w + "/id.map"]), ("--swap", b + ["--swap"])])
    b2 = b + ["--id2token", w + "/id.map", "--replace", w + "/replace_tok", "--per-utt"]
    S["error-rates/tokens"] = ("compute_torch_token_data_dir_error_rates", b2, [
        ("--ignore", b2 + ["--ignore", w + "/ignore_tok"]), ("--replace", _without(b2, "--replace")), ("--distances", b2 + ["--distances"])])
    b = [sp + "/feat", "{OUT}/stats.pt", "--num-workers", 0]
    add("mvn", "compute_mvn_stats_for_torch_feat_data_dir", b, [
        ("--bessel", b + ["--bessel"]), ("--dim", b + ["--dim", 0]), ("--dim=-2", b + ["--dim", -2]), ("--dim=1", b + ["--dim", 1]),
        ("--id2gid", b + ["--id2gid", w + "/id2gid"])])
    b3 = [sp + "/feat3d", "{OUT}/stats.pt", "--num-workers", 0]
    S["mvn/rank3"] = ("compute_mvn_stats_for_torch_feat_data_dir", b3, [("--dim", b3 + ["--dim", 1]), ("--dim=-1", b3 + ["--dim", -1]),
                                                                       ("--bessel", b3 + ["--bessel"])])
    b = [sp + "/ref", "{OUT}/d", "--num-workers", 0]
    add("tok-to-ali", "torch_token_data_dir_to_torch_ali_data_dir", b, [
        ("--feat-dir", b + ["--feat-dir", sp + "/feat"]), ("--feat-dir=other", b + ["--feat-dir", sp + "/feat2"]),
        ("--mp-chunk-size", b + ["--mp-chunk-size", 1])])
    b = [sp + "/ali", "{OUT}/d", "--num-workers", 0]
    add("ali-to-tok", "torch_ali_data_dir_to_torch_token_data_dir", b, [("--mp-chunk-size", b + ["--mp-chunk-size", 1])])
    b = [sp + "/ref", w + "/id.map", "{OUT}/d", "--infer", "--num-workers", 0]
    add("dir-to-tg", "torch_token_data_dir_to_textgrids", b, [
        ("--feat-dir", _without(b, "--infer", 0) + ["--feat-dir", sp + "/feat"]), ("--swap", b + ["--swap"]),
        ("--frame-shift-ms", b + ["--frame-shift-ms", 0.5]), ("--textgrid-suffix", b + ["--textgrid-suffix", ".tg"]),
        ("--tier-name", b + ["--tier-name", "words"]), ("--precision", b + ["--precision", 5]), ("--precision=0", b + ["--precision", 0]),
        ("--quiet", b + ["--quiet"]), ("--force-method=1", b + ["--force-method", 1]), ("--force-method=2", b + ["--force-method", 2]),
        ("--force-method=3", b + ["--force-method", 3]), ("--mp-chunk-size", b + ["--mp-chunk-size", 1])])
    b = [sp, "{OUT}/d", "--quiet", "--num-workers", 0]
    subd = [("--feat-subdir", ["--feat-subdir", "feat2"]), ("--ali-subdir", ["--ali-subdir", "ali2"]), ("--ref-subdir", ["--ref-subdir", "ref2"])]
    add("chunk", "chunk_torch_spect_data_dir", b, [(lab, b + x) for lab, x in subd] + [
        ("--policy=ali", b + ["--policy", "ali"]), ("--policy=ref", b + ["--policy", "ref"]), ("--lobe-size", b + ["--lobe-size", 1]),
        ("--window-type", b + ["--window-type", "causal"]), ("--pad-mode", b + ["--pad-mode", "constant"]),
        ("--quiet", _without(b, "--quiet", 0)), ("--format-utt", b + ["--format-utt", "{utt_id}-{idx}"]),
        ("--partial-tokens", b + ["--partial-tokens"]), ("--retain-token-boundaries", b + ["--retain-token-boundaries"]),
        ("--mp-chunk-size", b + ["--mp-chunk-size", 1])])
    bp = b + ["--lobe-size", 2, "--pad-mode", "constant", "--pad-constant", 0]
    S["chunk/padded"] = ("chunk_torch_spect_data_dir", bp, [
        ("--pad-constant", _sub(bp, "--pad-constant", 5)), ("--pad-constant=-3", _sub(bp, "--pad-constant", -3)),
        ("--pad-mode=replicate", _sub(bp, "--pad-mode", "replicate")), ("--pad-mode=reflect", _sub(bp, "--pad-mode", "reflect")),
        ("--lobe-size", _sub(bp, "--lobe-size", 1)), ("--window-type=future", bp + ["--window-type", "future"]),
        ("--window-type=causal", bp + ["--window-type", "causal"]), ("--partial-tokens", bp + ["--partial-tokens"]),
        ("--retain-token-boundaries", bp + ["--retain-token-boundaries"]), ("--policy=ali", bp + ["--policy", "ali"]),
        ("--policy=ref", bp + ["--policy", "ref"])])
    b = [sp, "{OUT}/d", "--first-n", 2, "--num-workers", 0]
    crits = [("--" + k + "-" + u, ["--" + k + "-" + u, v]) for k in ("first", "last", "shortest", "longest")  # rand: see subset/rand
             for u, v in (("n", 3), ("ratio", 0.5))]
    add("subset", "subset_torch_spect_data_dir", b, [(lab, b + x) for lab, x in subd] + [
        (lab, _without(b, "--first-n") + x) for lab, x in crits if lab != "--first-n"] + [
        ("--first-n=3", _sub(b, "--first-n", 3)), ("--utt-list", _without(b, "--first-n") + ["--utt-list", "u3", "nope", "u1"]),
        ("--utt-list-file", _without(b, "--first-n") + ["--utt-list-file", w + "/utts.txt"]),
        ("--copy", b + ["--copy"]), ("--symlink", b + ["--symlink"]), ("--mp-chunk-size", b + ["--mp-chunk-size", 1])])
    br = [sp, "{OUT}/d", "--rand-n", 2, "--seed", 1, "--num-workers", 0]
    S["subset/rand"] = ("subset_torch_spect_data_dir", br, [("--seed", _sub(br, "--seed", 2)), ("--rand-n", _sub(br, "--rand-n", 3)),
                                                              ("--copy", br + ["--copy"])])
    bo = [sp + "/feat", "{OUT}/d", "--only", "--shortest-n", 2, "--num-workers", 0]
    S["subset/only"] = ("subset_torch_spect_data_dir", bo, [("--only", [sp] + _without(bo, "--only", 0)[1:]), ("--symlink", bo + ["--symlink"]),
                                                              ("--longest-n", _without(bo, "--shortest-n") + ["--longest-n", 2])])
    for kind, func in (("ali", "print_torch_ali_data_dir_length_moments"), ("ref", "print_torch_ref_data_dir_length_moments")):
        b = [sp + "/" + kind, "{OUT}/m.txt", "--num-workers", 0]
        add(kind + "-moments", func, b, [
            ("--precision", b + ["--precision", 1]), ("--bessel", b + ["--bessel"]), ("--std", b + ["--std"]),
            ("--exclude-ids", b + ["--exclude-ids", 1]), ("--exclude-ids=0,2", b + ["--exclude-ids", 0, 2]),
            ("--mp-chunk-size", b + ["--mp-chunk-size", 1])] + ([("--strict", b + ["--strict"]), ("--quiet", b + ["--quiet"])] if kind == "ref" else []))
    b = [sp, "{OUT}/info.txt"]
    add("info", "get_torch_spect_data_dir_info", b, [(lab, b + x) for lab, x in subd] + [("--strict", b + ["--strict"]),
                                                                                       ("--fix", b + ["--fix"]), ("--fix=2", b + ["--fix", 2])])
    b = [sp, "{OUT}/data.tar"]
    add("wds", "torch_spect_data_dir_to_wds", b, [(lab, b + x) for lab, x in subd] + [
        ("--shard", b + ["--shard", "--max-samples-per-shard", 2])])
    return S


GROUPS = 4


def cases_flags(tier, seed):
    names = list(specs("/w"))
    for g in range(GROUPS):  # one fresh-process runner (one interpreter start) per group of commands
        yield dict(fam="flags", commands=names[g::GROUPS])


def eval_flags(env, case):
    env.begin(case)
    w = env.p("w")
    build_world(w)
    allspecs = specs(w)

    def fill(args, out):
        return [str(a).replace("{OUT}", out) for a in args]

    jobs, index = [], {}
    for name in case["commands"]:
        func, base, variants = allspecs[name]
        for k, (label, args) in enumerate([("(base)", base)] + variants):
            out = env.p("f", name.replace("/", "_"), str(k))
            os.makedirs(out)
            index[name, k] = len(jobs)
            jobs.append(dict(func=func, args=fill(args, out), out=out))
    fresh = fresh_calls(jobs, env.dir)
    env.ctx.traces += len(jobs)
    env.ctx.count("flags:fresh-process calls", len(jobs))
    for name in case["commands"]:
        func, base, variants = allspecs[name]
        api = func.replace("_", "-")
        calls = [("(base)", base)] + variants
        seq = []
        for k in range(1, len(calls)):  # base, variant 1, base, variant 2, ...
            seq += [0, k]
        seq.append(0)
        for pos, k in enumerate(seq):
            label, args = calls[k]
            out = env.p("o", name.replace("/", "_"), str(pos))
            os.makedirs(out)
            obs = jd(observe_call(func, fill(args, out), out))
            env.ev(api, ["flags", name, pos])
            want = fresh[index[name, k]]
            if obs != want:
                other = calls[seq[pos - 1]][0] if pos else None
                env.viol({"api": api, "symptom": "differs-from-fresh-process", "command": name,
                          "flag": label if k else other, "call": "variant-after-base" if k else "base-after-variant"},
                         {"this_call": fill(args, "{OUT}"), "previous_call_differs_in": other, "fresh_process": want[:1500],
                          "in_process": obs[:1500]})
        env.ctx.outcome([name, [fresh[index[name, k]] for k in range(len(calls))]])
        env.ctx.count("flags:one-flag variants", len(variants))
