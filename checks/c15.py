"""C15 - training control rules and restart equivalence (E3 over real controller histories)."""

import csv
import io
import itertools

from mc.runner import Ctx
from mc.oracles.training import RefController
from checks import _train_common as T

PROP = "C15"
LEVEL = "model_checking"
RULE = (
    "histories of the real TrainingStateController: every validation-metric sequence over {1,2,3} "
    "(thorough {1,1.5,2,3}) of length 5 (thorough 6) x parameter grids (early stopping: patience 1-3 x "
    "burn-in 0-2 x threshold {0,.5,1} x num_epochs {None,3,5}; lr reduction: patience 1-3 x burn-in 0-1 x "
    "cool-down 0-2 x threshold {0,.5,1} x factor {.5,.25,.1} x epsilon {default, negligible}; a reduced joint "
    "grid; log10_learning_rate {None,-1}) compared after every epoch with a reference state machine that "
    "carries reference values instead of epoch indices (decision, learning rate in the history and in the "
    "optimizer, recorded metrics); restart part: for every subset of epochs (2^4 quick, 2^5 thorough) the "
    "controller, model and optimizer are discarded and rebuilt from the csv + state directory at those "
    "points and decisions, rates and the final csv must equal the uninterrupted run; user entries "
    "(str incl. commas/quotes/empty, int, float) must come back with their types. A history is non-trivial "
    "when it contains a stop or a rate reduction; states are distinct (csv text, directory listing, cache) "
    "triples, transitions are updates and restarts. VALUE REGIMES: every metric sequence of length 4 over {0,.5,1}, "
    "{-1,-.5,0,.5}, {1,2,3}x1e6, {1,2,3}x1e-6 and the Python ints {0,1,2} (thresholds scaled alike) x 17 rule "
    "configurations against the same reference, and every length-3 sequence x every restart subset for one joint "
    "configuration per alphabet; the training metric always differs from the validation metric."
)
ASSUMPTIONS = [
    "metrics and reachable learning rates are exactly representable in the csv's 5 significant digits "
    "(factor 0.1 only to depth 1 in restart runs) - the property's own restriction",
    "exploration of a history ends at the first stop decision",
    "countdown fields are compared between interrupted and uninterrupted runs, not against the reference "
    "model (they are implementation vocabulary)",
    "single process (no process group)",
]
BUDGET_S = {"quick": 900, "thorough": 3000}
NSHARDS = 48


def es_grid(tier):
    for pat, burn, thr, ne in itertools.product((1, 2, 3), (0, 1, 2), (0.0, 0.5, 1.0), (None, 3, 5)):
        yield {"early_stopping_patience": pat, "early_stopping_burnin": burn,
               "early_stopping_threshold": thr, "num_epochs": ne}


def rlr_grid(tier):
    for pat, burn, cool, thr, fac in itertools.product((1, 2, 3), (0, 1), (0, 1, 2), (0.5, 1.0),
                                                      (0.5, 0.25, 0.1)):
        yield {"reduce_lr_patience": pat, "reduce_lr_burnin": burn, "reduce_lr_cooldown": cool,
               "reduce_lr_threshold": thr, "reduce_lr_factor": fac}
    yield {"reduce_lr_threshold": 0.0, "reduce_lr_patience": 1}
    for pat, fac in itertools.product((1, 2), (0.5, 0.1)):
        yield {"reduce_lr_patience": pat, "reduce_lr_threshold": 1.0, "reduce_lr_factor": fac,
               "reduce_lr_log10_epsilon": 0.0}  # every change is negligible
        yield {"reduce_lr_patience": pat, "reduce_lr_threshold": 1.0, "reduce_lr_factor": fac,
               "log10_learning_rate": -1.0}


def joint_grid(tier):
    es = [{"early_stopping_patience": 2, "early_stopping_burnin": 1, "early_stopping_threshold": 1.0},
          {"early_stopping_patience": 1, "early_stopping_burnin": 0, "early_stopping_threshold": 0.5},
          {"early_stopping_patience": 3, "early_stopping_burnin": 0, "early_stopping_threshold": 1.0}]
    for e in es:
        for pat, cool, ne in itertools.product((1, 2), (0, 1), (None, 3, 5)):
            yield dict(e, reduce_lr_patience=pat, reduce_lr_cooldown=cool, reduce_lr_threshold=1.0,
                       reduce_lr_factor=0.5, num_epochs=ne)


def restart_grid(tier):
    base = [
        {},
        {"early_stopping_patience": 2, "early_stopping_threshold": 1.0, "reduce_lr_patience": 1,
         "reduce_lr_threshold": 1.0, "reduce_lr_factor": 0.5},
        {"early_stopping_patience": 3, "early_stopping_burnin": 1, "early_stopping_threshold": 0.5,
         "reduce_lr_patience": 2, "reduce_lr_cooldown": 1, "reduce_lr_threshold": 1.0,
         "reduce_lr_factor": 0.25},
        {"reduce_lr_patience": 2, "reduce_lr_burnin": 1, "reduce_lr_threshold": 0.5, "reduce_lr_factor": 0.5,
         "log10_learning_rate": -1.0, "num_epochs": 5},
        {"reduce_lr_patience": 3, "reduce_lr_cooldown": 2, "reduce_lr_threshold": 1.0, "reduce_lr_factor": 0.5,
         "early_stopping_patience": 3, "early_stopping_threshold": 1.0, "early_stopping_burnin": 2},
        {"reduce_lr_patience": 1, "reduce_lr_threshold": 1.0, "reduce_lr_factor": 0.5,
         "keep_last_and_best_only": False},
    ]
    for b in base:
        yield dict(b, user_entries=())
    yield dict(base[1], user_entries=("note", "cnt", "flt"))
    yield {"reduce_lr_patience": 1, "reduce_lr_threshold": 1.0, "reduce_lr_factor": 0.7, "log10_learning_rate": -1.0,
           "user_entries": ()}  # 0.1 * 0.7^k does not round-trip through the csv's 5 digits
    yield dict(base[2], user_entries=("cnt",), keep_last_and_best_only=False)
    if tier == "thorough":
        for pat, cool, fac in itertools.product((1, 2, 3), (0, 1, 2), (0.5, 0.25)):
            yield {"reduce_lr_patience": pat, "reduce_lr_cooldown": cool, "reduce_lr_threshold": 1.0,
                   "reduce_lr_factor": fac, "early_stopping_patience": pat, "early_stopping_threshold": 1.0,
                   "user_entries": ()}


def shards(tier, seed):
    return [{"part": i} for i in range(NSHARDS)]


def metric_seqs(tier, L):
    vals = (1.0, 2.0, 3.0) if tier == "quick" else (1.0, 1.5, 2.0, 3.0)
    return itertools.product(vals, repeat=L)


def train_metric(v, e):
    return 4.0 - v  # a different ordering from the validation metric


# VALUE REGIMES (round 6): metric alphabets the rules are stated for but the {1,2,3} menu never reaches - an exact zero,
# negative metrics (log-likelihood style losses), magnitudes far from 1 - and Python ints for the metrics; every value prints
# exactly in the csv's 5 significant digits.  The training metric stays different from the validation metric (4 - v).
REGIME_VALS = {"zero": (0.0, 0.5, 1.0), "negative": (-1.0, -0.5, 0.0, 0.5), "large": (1e6, 2e6, 3e6),
               "small": (1e-6, 2e-6, 3e-6), "ints": (0, 1, 2)}
REGIME_SCALE = {"zero": 1.0, "negative": 1.0, "large": 1e6, "small": 1e-6, "ints": 1}


def regime_grid(scale):
    for pat, burn, thr in itertools.product((1, 2), (0, 1), (0.5, 1.0)):
        yield {"early_stopping_patience": pat, "early_stopping_burnin": burn, "early_stopping_threshold": thr * scale}
        yield {"reduce_lr_patience": pat, "reduce_lr_burnin": burn, "reduce_lr_cooldown": burn,
               "reduce_lr_threshold": thr * scale, "reduce_lr_factor": 0.5}
    yield {"early_stopping_patience": 2, "early_stopping_threshold": 0.5 * scale, "reduce_lr_patience": 1,
           "reduce_lr_threshold": 0.5 * scale, "reduce_lr_factor": 0.5, "num_epochs": 3}


def run_history(ctx, cfg, metrics, restarts, with_state, root_name="c15", memory_only=False, poke=False):
    """Runs one history on the real controller, checks it against the reference model, returns a summary.
    memory_only: no history file and no state directory at all (the history lives in the controller's cache only).
    poke: the documented refresh entry point update_cache() is called before every update from the second on."""
    root = T.fresh_dir(root_name)
    case = {"cfg": cfg, "metrics": list(metrics), "restarts": sorted(restarts), "with_state": with_state,
            "memory_only": memory_only, "poke": poke}

    def build():
        if memory_only:
            c = _ctrl_nostate(cfg, root, csv=False)
        else:
            c = T.new_controller(cfg, root) if with_state else _ctrl_nostate(cfg, root)
        m, o = T.new_model_optim(cfg)
        c.load_model_and_optimizer_for_epoch(m, o, c.get_last_epoch())
        return c, m, o

    ref = RefController(cfg)
    ctrl, model, optim = build()
    decisions, lrs, infos = [], [], []
    for e, v in enumerate(metrics, 1):
        if (e - 1) in restarts and e > 1:
            del ctrl, model, optim
            ctrl, model, optim = build()
            ctx.transitions += 1
            if ctrl.get_last_epoch() != e - 1:
                ctx.violation({"api": "restart", "symptom": "wrong-last-epoch"}, case,
                              {"expected": e - 1, "observed": ctrl.get_last_epoch()})
                return None
            if not ctrl.continue_training():
                ctx.violation({"api": "continue_training", "symptom": "stop-after-restart"}, case, {"epoch": e - 1})
                return None
            w, mb = T.read_stamp(model, optim)
            if w != float(e - 1) or mb != 100.0 + (e - 1):
                ctx.violation({"api": "restart", "symptom": "wrong-parameters-loaded"}, case,
                              {"epoch": e - 1, "weight": w, "momentum": mb})
                return None
        T.stamp(model, optim, e)
        if poke and e > 1:
            try:
                ctrl.update_cache()
            except Exception as ex:  # noqa: BLE001
                ctx.violation({"api": "update_cache", "symptom": "raises", "type": type(ex).__name__}, case,
                              {"epoch": e, "error": str(ex)[-300:]})
                return None
            if ctrl.get_last_epoch() != e - 1:
                ctx.violation({"api": "update_cache", "symptom": "history-lost-after-refresh",
                               "memory_only": memory_only}, dict(case, epoch=e),
                              {"expected_last_epoch": e - 1, "observed": ctrl.get_last_epoch()})
                return None
        try:
            cont = ctrl.update_for_epoch(model, optim, train_metric(v, e), v, **T.user_kwargs(cfg, e))
        except Exception as ex:  # noqa: BLE001
            ctx.violation({"api": "update_for_epoch", "symptom": "raises", "type": type(ex).__name__}, case,
                          {"epoch": e, "error": str(ex)[-300:]})
            return None
        ctx.transitions += 1
        info = dict(ctrl.get_info(e))
        olr = [g["lr"] for g in optim.param_groups]
        rcont, rlr, red = ref.update(v)
        if red:
            ctx.count("rate_reductions")
        bad = None
        if bool(cont) != rcont:
            bad = ("wrong-stop-decision", {"expected": rcont, "observed": bool(cont)})
        elif abs(info["lr"] - rlr) > (5e-5 if (restarts or (poke and not memory_only)) else 1e-9) * rlr:
            bad = ("wrong-learning-rate-in-history", {"expected": rlr, "observed": info["lr"]})
        elif any(abs(x - rlr) > (5e-5 if (restarts or (poke and not memory_only)) else 1e-9) * rlr for x in olr):
            bad = ("optimizer-rate-not-updated", {"expected": rlr, "observed": olr})
        elif info["val_met"] != v or info["train_met"] != train_metric(v, e) or info["epoch"] != e:
            bad = ("wrong-recorded-metrics", {"info": info})
        if bad:
            sig = {"api": "update_for_epoch", "symptom": bad[0], "restarted": bool(restarts)}
            if memory_only or poke:
                sig.update(memory_only=memory_only, refreshed_with_update_cache=poke)
            ctx.violation(sig, dict(case, epoch=e), bad[1])
            return None
        decisions.append(bool(cont))
        lrs.append(info["lr"])
        infos.append({k: info[k] for k in sorted(info)})
        ctx.state([T.csv_text(root), T.listing(root), T.cache_canon(ctrl)])
        if not cont:
            ctx.count("stops")
            break
    if memory_only:
        return {"decisions": decisions, "lrs": lrs, "csv": None, "infos": infos}
    # what a fresh controller reads back
    text = T.csv_text(root)
    try:
        fresh = T.new_controller(cfg, root) if with_state else _ctrl_nostate(cfg, root)
    except Exception as ex:  # noqa: BLE001
        ctx.violation({"api": "history", "symptom": "history-unreadable-after-reload", "type": type(ex).__name__,
                       "user_entries": bool(cfg.get("user_entries"))}, case, {"error": str(ex)[-300:], "csv": text})
        return None
    for i, info in enumerate(infos, 1):
        got = fresh.get_info(i, None)
        if got is None:
            ctx.violation({"api": "history", "symptom": "epoch-missing-after-reload"}, case, {"epoch": i})
            return None
        for k, val in info.items():
            g = got.get(k)
            # type identity is demanded of USER entries only (the property's clause); a built-in metric handed in as a
            # Python int may legitimately be read back as the float the csv holds
            same = (type(g) is type(val) or (k not in T.USER_TYPES and isinstance(g, (int, float))
                                             and isinstance(val, (int, float)))) and (g == val or (isinstance(val, float) and k not in T.USER_TYPES
                                                          and abs(g - val) <= 5e-5 * abs(val)))  # csv keeps 5 digits
            if not same:
                ctx.violation({"api": "history", "symptom": "entry-changed-after-reload", "field":
                               k if k in T.USER_TYPES else "builtin", "user_entry": k in T.USER_TYPES}, case,
                              {"epoch": i, "field": k, "written": val, "read": g,
                               "types": [type(val).__name__, type(g).__name__]})
                return None
    rows = list(csv.DictReader(io.StringIO(text))) if text else []
    if len(rows) != len(infos) or any(int(r["epoch"]) != i for i, r in enumerate(rows, 1)):
        ctx.violation({"api": "history", "symptom": "csv-rows-do-not-match-epochs"}, case, {"csv": text})
        return None
    return {"decisions": decisions, "lrs": lrs, "csv": text, "infos": infos}


def _ctrl_nostate(cfg, root, csv=True):
    import os

    from pydrobert.torch.training import TrainingStateController

    c = TrainingStateController(T.make_params(cfg), os.path.join(root, "hist.csv") if csv else None, None, warn=False)
    for name in cfg.get("user_entries", ()):
        t, f = T.USER_TYPES[name]
        c.add_entry(name, t, f)
    return c


def _rules_case(ctx, cfg, metrics):
    ctx.evaluations += 1
    before = (ctx.counters["stops"], ctx.counters["rate_reductions"])
    res = run_history(ctx, cfg, metrics, set(), with_state=False)
    if res is not None:
        if (ctx.counters["stops"], ctx.counters["rate_reductions"]) != before:
            ctx.nontrivial += 1
        ctx.outcome([res["decisions"], res["lrs"]])
    # secondary entry points: the same history on a controller that keeps its history in memory only, refreshed
    # through update_cache() before every update; and (every 4th case) csv-backed with the same refreshes
    ctx._rules_n = getattr(ctx, "_rules_n", 0) + 1
    for mem in ((True, False) if ctx._rules_n % 4 == 0 else (True,)):
        ctx.evaluations += 1
        ctx.count("histories_refreshed_with_update_cache")
        alt = run_history(ctx, cfg, metrics, set(), with_state=False, memory_only=mem, poke=True)
        if alt is not None and res is not None:
            tol = 1e-9 if mem else 5e-5
            same = alt["decisions"] == res["decisions"] and len(alt["lrs"]) == len(res["lrs"]) and all(
                abs(a - b) <= tol * abs(b) for a, b in zip(alt["lrs"], res["lrs"]))
            if not same:
                ctx.violation({"api": "update_cache", "symptom": "refreshed-run-differs-from-plain-run",
                               "memory_only": mem}, {"cfg": cfg, "metrics": list(metrics), "restarts": [],
                                                     "with_state": False, "memory_only": mem, "poke": True},
                              {"plain": [res["decisions"], res["lrs"]], "refreshed": [alt["decisions"], alt["lrs"]]})


def _restart_case(ctx, cfg, metrics):
    base = run_history(ctx, cfg, metrics, set(), with_state=True)
    ctx.evaluations += 1
    if base is None:
        return
    E = len(base["decisions"])
    inexact = any(float("%.4e" % x) != x for x in base["lrs"])
    if inexact:
        # a restart legitimately re-reads a rate rounded to the csv's 5 digits: rates are then compared at that
        # precision (not skipped - a stale optimizer rate after a restart differs by far more)
        ctx.count("restart_histories_with_rate_rounded_by_csv")
    pts = list(range(1, E))  # a restart after epoch k needs k >= 1 and training still going
    for r in range(1, len(pts) + 1):
        for sub in itertools.combinations(pts, r):
            ctx.evaluations += 1
            ctx.nontrivial += 1
            res = run_history(ctx, cfg, metrics, set(sub), with_state=True)
            if res is None:
                continue
            ctx.traces += 1
            for key, sym in (("decisions", "decisions-differ-after-restart"),
                             ("lrs", "learning-rates-differ-after-restart"),
                             ("csv", "history-differs-after-restart")):
                a, b = res[key], base[key]
                if key == "lrs":
                    tol = 5e-5 if inexact else 1e-9
                    same = len(a) == len(b) and all(abs(x - y) <= tol * abs(y) for x, y in zip(a, b))
                else:
                    same = a == b
                if not same:
                    ctx.violation({"api": "restart", "symptom": sym},
                                  {"cfg": cfg, "metrics": list(metrics), "restarts": sorted(sub),
                                   "with_state": True}, {"uninterrupted": b, "restarted": a})
                    break
            ctx.outcome([res["decisions"], res["lrs"]])


def run_shard(spec, tier, seed):
    ctx = Ctx()
    part = spec["part"]
    L = 5 if tier == "quick" else 6
    LR = 4 if tier == "quick" else 5
    i = 0
    try:
        for grid in (es_grid, rlr_grid, joint_grid):
            for cfg in grid(tier):
                for metrics in metric_seqs(tier, L):
                    i += 1
                    if i % NSHARDS != part:
                        continue
                    _rules_case(ctx, cfg, metrics)
        for name, vals in REGIME_VALS.items():
            for cfg in regime_grid(REGIME_SCALE[name]):
                for metrics in itertools.product(vals, repeat=4):
                    i += 1
                    if i % NSHARDS != part:
                        continue
                    ctx.count("value_regime_histories:" + name)
                    _rules_case(ctx, cfg, metrics)
            for metrics in itertools.product(vals, repeat=3):
                i += 1
                if i % NSHARDS != part:
                    continue
                _restart_case(ctx, dict(list(regime_grid(REGIME_SCALE[name]))[-1], num_epochs=None, user_entries=()),
                              metrics)
        for cfg in restart_grid(tier):
            for metrics in metric_seqs(tier, LR):
                i += 1
                if i % NSHARDS != part:
                    continue
                _restart_case(ctx, cfg, metrics)
        if part == 0:
            ctx.sample({"cfg": cfg, "metrics": list(metrics), "restart_subsets": "all subsets of epochs 1..E-1"})
    finally:
        T.cleanup()
    return ctx


def replay(case):
    ctx = Ctx()
    try:
        run_history(ctx, case["cfg"], case["metrics"], set(case["restarts"]), case["with_state"],
                    memory_only=case.get("memory_only", False), poke=case.get("poke", False))
        if case["restarts"]:
            _restart_case(ctx, case["cfg"], case["metrics"])
    finally:
        T.cleanup()
    return ctx
