"""C09 - variable-length padding / chunking / mask compaction / random shift (E1 + E2).

Every library call is compared, row by row, with the plain-Python model of ``mc/oracles/padding.py``
applied to that row's sequence alone.
"""

import itertools
import random

import torch

import pydrobert.torch.functional as F
import pydrobert.torch.modules as M

from mc.runner import Ctx
from mc.explore import explore, Chooser
from mc.seams import ScriptedRandom, MENU_QUICK, MENU_FULL
from mc.oracles import padding as O
from checks import _c09_hist as H
from checks import _c09_exact as X
from checks import _c09_life as L

PROP = "C09"
LEVEL = "exploration"
RULE = (
    "pad_variable: row configuration = (len, left pad, right pad), len in 0..T (>=1 replicate/reflect), pads "
    "in 0..9 (any for constant/replicate, < len for reflect), T=4, trailing feature dimension of 2. "
    "chunk_by_slices: row configuration = (len, start, end), (start,end) in [-6,11]^2 (reflect: pads < len; "
    "empty/inverted slices always admitted). Both: thorough = EVERY ordered pair of row configurations as one "
    "N=2 call per mode, for T=4 and T=1; quick = every configuration before and after each member of a partner "
    "set (one configuration per pad class {0, 1..T, >T}^2 x slice class, for the shortest and the longest len); "
    "plus, in both tiers, every configuration alone (N=1; lens=None too), all configurations as one ragged "
    "batch (canonical and reversed order), and singles+batches again for T in 0..3 and 6, trailing shapes "
    "()/(2,2) and an integer dtype. pad_masked_sequence: every boolean "
    "mask with T in 0..4, N in 1..2 (thorough 3) x layout x trailing shape x dtype x padding value. "
    "RandomShift (E2): every assignment of the uniform menu to the 2N draws of rand_like for N=2, T=4, every "
    "lens pair (quick: second len shortest/longest/equal), 6 proportions, 3 modes, module and functional; eval mode. Tensor contents are distinct "
    "seed-shuffled integers (never equal to the pad value), so any leak or shift is visible. Cases are "
    "distinct by construction (duplicate-free products); non-trivial = some row needs padding / is an empty "
    "slice / mask neither empty nor full / some draw non-zero. Object histories (checks/_c09_hist.py): on ONE "
    "PadVariable / ChunkBySlices / PadMaskedSequence / RandomShift object, every sequence of 2 steps (thorough: "
    "and of 3; quick: 3 steps over a reduced alphabet) from the alphabet N in {1,2} x T in {2,3,5} (RandomShift "
    "{2,4}) x lens given/omitted (ChunkBySlices) x {no change, mode reassigned, value/padding_value reassigned, "
    "batch_first toggled, train/eval switched}, for every initial mode/layout; each call's rows reach the first "
    "and last frame and beyond and must equal the single-sequence oracle (RandomShift also the functional fed "
    "the same scripted draws); results kept from earlier steps must stay unchanged and no argument may be modified; "
    "a step that reassigns mode / value / padding_value / batch_first (all listed in the modules' __constants__) is "
    "executed and only COUNTED (constants_reassigned_honoured / _ignored) and ends its history - verdicts come from "
    "changes of N, T, lens given/omitted and train/eval. Object lifecycle (checks/_c09_life.py): each of the four "
    "modules in 4-6 configurations (defaults, falsy-but-legal: value 0.0, proportion 0 / 0.0 / (0.0,1.0), "
    "batch_first False) x {fresh; guards.lifecycle_variants: deepcopy, pickle, torch.save, used+deepcopy, "
    "eval+deepcopy, state_dict, state_dict-after-use, double-float; and for training AND evaluation mode a "
    "deepcopy / pickle / torch.save+load of the module alone, inside a torch.nn.Sequential, and as an attribute "
    "of a model, mode set on the outermost object} - the (copied child) object is called on two batches and must "
    "equal the oracle (RandomShift: functional under the same scripted draws in training mode, the input itself "
    "in evaluation mode). "
    "Exact units (checks/_c09_exact.py): per api x mode x dtype {float64, int64, float32} x 4 padding values chosen "
    "so that a detour through another dtype shows (0.1, -1e300, 1/3, 2**24+1; 2**24+1, 2**53+1, 2**53-1 on int64; "
    "0.5, -7.5, 2**24, 0.1 on float32) with contents k+0.3 / 2**60+k / k+0.25: every row configuration for T=2 as "
    "one batch (ChunkBySlices also without lens; both layouts of pad_masked_sequence; RandomShift N=2,T=4 with "
    "prop 2.0 constant / 1.0 otherwise), each evaluated as functional, module, module under "
    "torch.set_default_dtype(float64), under torch.inference_mode(), with x.requires_grad_(True), as "
    "torch.jit.script(module) and as torch.jit.trace(module, example of shape N=1) - all compared with == (no "
    "tolerance) against the single-sequence oracle holding the exact constant, hence bit for bit with each other."
)
ASSUMPTIONS = [
    "small scope: N<=2 per call for pair interactions (plus one ragged batch of all configurations), T=4 (0..3, 6 "
    "in reduced passes), pads 0..9, slice bounds -6..11",
    "the part of an output row beyond its valid length is unconstrained for pad_variable/chunk_by_slices "
    "(undocumented); for pad_masked_sequence it must be the padding value (documented)",
    "reflect: lens >= 1 and pads < len (documented NotImplementedError otherwise); replicate: lens >= 1 "
    "(documented RuntimeError); an empty or inverted slice needs no padding and is admitted in every mode",
    "RandomShift bound: 0 <= pad < prop*len as the docstring says ('exclusive'), pad = 0 when prop*len = 0; "
    "a pad equal to prop*len is reported under its own symptom since the property text only says 'not exceeding'",
    "RandomShift rows are accepted if SOME (left,right) within the bounds explains the output (replicate/"
    "reflect padding can be ambiguous for short sequences)",
    "uniform draws only from the menu {0, 1/4, 3/4, 1-2^-24} (quick) / {0, 2^-24, 1e-6, 1/4, 1/2, 3/4, 1-2^-24}",
    "exact comparison (contents are small integers; float32 and int64, float64 in the exact units); CUDA not "
    "explored; TorchScript only in the exact units",
    "object histories: at most 3 calls per object; reassigning an attribute listed in __constants__ on a live "
    "module is not a supported reconfiguration and decides nothing (counted only); RandomShift histories use "
    "prop=1.0 and one fixed "
    "draw pattern per step; device changes and TorchScript-compiled modules are not part of the histories",
    "lifecycle variants are called on two small batches each, not on the whole enumeration; a copy is judged by "
    "what it computes; in addition guards.lifecycle_variants reports a deepcopy of an eval-mode module that says it "
    "is back in training mode",
    "exact units: the constant a tensor holds for a Python float value is the value itself (float64), the nearest "
    "single (float32), int(value) (int64); scripted / traced modules are built once per unit and run on the unit's "
    "batch only (not on the whole enumeration); a scripted or traced RandomShift draws from torch's own generator, "
    "so there the draw is fixed by torch.manual_seed and judged by the any-bounded-shift oracle (not enumerated)",
]
BUDGET_S = {"quick": 240, "thorough": 2400}

T_MAIN = 4
MAXPAD = 9
SLO, SHI = -6, 11
VALUE = -7.5  # non-default, non-integer: can never collide with a content value
REST_MAIN = (2,)
MODES = O.MODES
API = {"pv": "pad_variable", "ch": "chunk_by_slices"}
RS_PROPS = ["0.0", "0.5", "1.0", ("0.3", "0.75"), "2.0", ("1.5", "0.0")]


# ---- enumeration ---------------------------------------------------------------------------------
def configs(part, mode, T):
    out = []
    for L in range(0 if mode == "constant" else 1, T + 1):
        if part == "pv":
            for a in range(MAXPAD + 1):
                for b in range(MAXPAD + 1):
                    if O.pad_legal(L, a, b, mode):
                        out.append((L, a, b))
        else:
            for s in range(SLO, SHI + 1):
                for e in range(SLO, SHI + 1):
                    if O.chunk_legal(L, s, e, mode):
                        out.append((L, s, e))
    return out


def row_pads(part, cfg):
    return (cfg[1], cfg[2]) if part == "pv" else O.chunk_pads(*cfg)


def pad_class(part, cfg, T):
    """(left, right) pad classes of a row: 0 = none, 1 = 1..T, 2 = beyond T; slices add their class."""
    a, b = row_pads(part, cfg)
    k = (min(a, 1) + (a > T), min(b, 1) + (b > T))
    return k if part == "pv" else k + (O.slice_class(*cfg),)


def partners(part, mode, T):
    """Second rows for the reduced pair pass: for the shortest len the first, for the longest len the
    last configuration (canonical order) of every pad/slice class."""
    cfgs = configs(part, mode, T)
    lens = sorted({c[0] for c in cfgs})
    out = []
    for L, pick in ((lens[0], 0), (lens[-1], 1)):
        seen = {}
        for c in cfgs:
            if c[0] == L:
                seen.setdefault(pad_class(part, c, T), [c, c])[1] = c
        for pair in seen.values():
            if pair[pick] not in out:
                out.append(pair[pick])
    return out


def make_x(seed, N, T, rest, dtype, salt=""):
    n = N * T
    for r in rest:
        n *= r
    vals = list(range(1, n + 1))
    random.Random(f"{seed}/{salt}/{N}/{T}/{rest}").shuffle(vals)
    return torch.tensor(vals, dtype=getattr(torch, dtype)).view((N, T) + tuple(rest))


def value_for(dtype, default=False):
    if default:
        return 0.0
    return VALUE if dtype.startswith("float") else -3.0


# ---- one library call, compared row by row ------------------------------------------------------
class ArgumentMutated(Exception):
    """The call changed one of the tensors handed to it (the caller's data)."""


def call_lib(part, mode, value, x, rows, via, no_lens=False):
    lens = torch.tensor([r[0] for r in rows], dtype=torch.long)
    x0, lens0 = x.clone(), lens.clone()
    if part == "pv":
        pad = torch.tensor([[r[1] for r in rows], [r[2] for r in rows]], dtype=torch.long)
        pad0 = pad.clone()
        if via == "module":
            res = M.PadVariable(mode, value)(x, lens, pad), None
        else:
            res = F.pad_variable(x, lens, pad, mode, value), None
        args = (("x", x, x0), ("lens", lens, lens0), ("pad", pad, pad0))
    else:
        if (len(rows) + rows[0][1]) % 2:
            slices = torch.tensor([[r[1], r[2]] for r in rows], dtype=torch.long)
        else:  # the same bounds laid out column-major, as torch.stack([starts, ends]).T gives them
            slices = torch.stack([torch.tensor([r[1] for r in rows], dtype=torch.long),
                                  torch.tensor([r[2] for r in rows], dtype=torch.long)]).T
        slices0 = slices.clone()
        lens_arg = None if no_lens else lens
        if via == "module":
            res = M.ChunkBySlices(mode, value)(x, slices, lens_arg)
        else:
            res = F.chunk_by_slices(x, slices, lens_arg, mode, value)
        args = (("x", x, x0), ("lens", lens, lens0), ("slices", slices, slices0))
    for name, now, before in args:
        if not torch.equal(now, before):
            raise ArgumentMutated(f"{name} changed from {before.tolist()} to {now.tolist()}")
    return res


def expected_row(part, mode, value, xrow, rest, cfg):
    seq = xrow[: cfg[0]]
    item = O.full(rest, value)
    if part == "pv":
        return O.pad_seq(seq, cfg[1], cfg[2], mode, item)
    return O.chunk_seq(seq, cfg[1], cfg[2], mode, item)


def crosscheck_oracle(ctx, part, mode, value, x, n, cfg, exp):
    """The plain-Python rule must agree with torch.nn.functional.pad on the single sequence."""
    L = cfg[0]
    if part == "pv":
        ref = O.pad_seq_torch(x[n, :L], cfg[1], cfg[2], mode, value).tolist()
    else:
        a, b = O.chunk_pads(*cfg)
        ref = O.pad_seq_torch(x[n, :L], a, b, mode, value)[max(cfg[1] + a, 0): max(cfg[2] + a, 0)].tolist() \
            if cfg[2] > cfg[1] else []
    if ref != exp:
        raise AssertionError(f"oracle disagreement {part} {mode} {cfg}: {exp} vs torch {ref}")
    ctx.count("oracle_rows_crosschecked_with_torch_pad")


def make_case(part, mode, value, x, rows, via, seed, salt, no_lens=False, row=None):
    case = {"part": part, "mode": mode, "value": value, "rows": [list(r) for r in rows], "via": via,
            "T": x.size(1), "rest": list(x.shape[2:]), "dtype": str(x.dtype).replace("torch.", ""),
            "no_lens": no_lens}
    if x.size(0) <= 4:
        case["x"] = x.tolist()
    else:
        case["x_gen"] = {"seed": seed, "salt": salt, "N": x.size(0)}
    if row is not None:
        case["row"] = row
    return case


def sig_flags(part, T, rows):
    return {"pad_exceeds_T": any(max(row_pads(part, r)) > T for r in rows)}


def evaluate(ctx, part, mode, value, x, rows, exp, via, seed, salt, no_lens=False, record=True):
    """Calls the library once; returns None if it raised, else the list of mismatching rows
    [(n, symptom, detail)].  With record=True violations are filed here."""
    T = x.size(1)
    rest = tuple(x.shape[2:])
    N = len(rows)
    try:
        out, out_lens = call_lib(part, mode, value, x, rows, via, no_lens)
    except Exception as e:  # every enumerated input is legal: raising is a violation
        if record:
            ctx.violation(
                dict({"api": API[part], "symptom": "argument-modified-in-place" if isinstance(e, ArgumentMutated)
                      else "raises", "mode": mode, "type": type(e).__name__}, **sig_flags(part, T, rows)),
                make_case(part, mode, value, x, rows, via, seed, salt, no_lens),
                {"error": str(e)[-300:]},
            )
        return None
    bad = []
    if out.dim() != x.dim() or out.size(0) != N or tuple(out.shape[2:]) != rest or out.dtype != x.dtype:
        bad.append((0, "wrong-shape-or-dtype", {"shape": list(out.shape), "dtype": str(out.dtype)}))
    else:
        outl = out.tolist()
        lensl = None if out_lens is None else out_lens.tolist()
        if lensl is not None and (len(lensl) != N or out_lens.dtype != torch.long):
            bad.append((0, "wrong-shape-or-dtype", {"lens": lensl}))
            lensl = None
        for n in range(N):
            e = exp[n]
            if lensl is not None and lensl[n] != len(e):
                bad.append((n, "wrong-length", {"expected": len(e), "observed": lensl[n]}))
            elif out.size(1) < len(e):
                bad.append((n, "output-shorter-than-length", {"expected": len(e), "T_out": out.size(1)}))
            elif outl[n][: len(e)] != e:
                bad.append((n, "wrong-valid-part", {"expected": e, "observed": outl[n][: len(e)]}))
    if record:
        for n, sym, det in bad:
            file_mismatch(ctx, part, mode, value, x, rows, via, seed, salt, no_lens, n, sym, det)
    return bad


def file_mismatch(ctx, part, mode, value, x, rows, via, seed, salt, no_lens, n, sym, det):
    T = x.size(1)
    sig = {"api": API[part], "symptom": sym, "mode": mode}
    if T == 0:  # one class of its own: the batch has no time steps at all
        sig["zero_T"] = True
    else:
        sig["pad_exceeds_T"] = max(row_pads(part, rows[n])) > T
        if part == "ch":
            sig["slice_class"] = O.slice_class(*rows[n])
    ctx.violation(sig, make_case(part, mode, value, x, rows, via, seed, salt, no_lens, row=n),
                  dict(det, row=n, row_config=list(rows[n])))


def nontrivial(part, rows):
    return any(max(row_pads(part, r)) > 0 or (part == "ch" and r[2] <= r[1]) for r in rows)


# ---- passes ------------------------------------------------------------------------------------------
def pairs_pass(ctx, part, mode, tier, seed, i, of, T=T_MAIN):
    rest, dtype = REST_MAIN, "float32"
    value = VALUE
    cfgs = configs(part, mode, T)
    x = make_x(seed, 2, T, rest, dtype, "pairs")
    xl = x.tolist()
    exp = [{c: expected_row(part, mode, value, xl[n], rest, c) for c in cfgs} for n in (0, 1)]
    if i == 0:
        for n in (0, 1):
            for c in cfgs:
                crosscheck_oracle(ctx, part, mode, value, x, n, c, exp[n][c])
    full = tier == "thorough"
    if full:
        seconds = cfgs
    else:
        seconds = partners(part, mode, T)
        pset = set(seconds)
    k = 0
    for a in cfgs[i::of]:
        for b in seconds:
            orders = [(a, b)] if full or a in pset else [(a, b), (b, a)]
            for rows in orders:
                k += 1
                via = "module" if k % 7 == 0 else "functional"
                ctx.case(1, 1 if nontrivial(part, rows) else 0)
                bad = evaluate(ctx, part, mode, value, x, rows, [exp[0][rows[0]], exp[1][rows[1]]], via,
                               seed, "pairs")
                if bad is None:
                    ctx.count(f"{part}_{mode}_calls_raised")
                else:
                    ctx.count(f"{part}_rows_compared", 2)
                    if not bad and k % 997 == 0:
                        ctx.outcome([part, mode, rows, exp[0][rows[0]], exp[1][rows[1]]])
    if i == 0 and T == T_MAIN:
        a, b = cfgs[len(cfgs) // 2], cfgs[-1]
        ctx.sample({"api": API[part], "mode": mode, "x": xl,
                    "rows": "(len, padL, padR)" if part == "pv" else "(len, start, end)", "row_configs": [a, b],
                    "expected_valid_parts": [exp[0][a], exp[1][b]]})


def singles_and_batches(ctx, part, mode, seed, T, rest, dtype, default_value=False):
    """Every configuration alone (N=1; lens=None too where len == T), and all of them as one ragged
    batch in canonical and in reversed order.  In replicate mode the configurations are split into
    pads <= T and pads > T so that one class raising cannot hide the other."""
    value = value_for(dtype, default_value)
    cfgs = configs(part, mode, T)
    if not cfgs:
        return
    groups = [cfgs]
    if mode == "replicate":
        small = [c for c in cfgs if max(row_pads(part, c)) <= T]
        groups = [g for g in (small, [c for c in cfgs if c not in set(small)]) if g]
    for gi, g in enumerate(groups):
        for order in ("canonical", "reversed"):
            rows = g if order == "canonical" else g[::-1]
            N = len(rows)
            salt = f"batch/{part}/{mode}/{gi}/{order}"
            x = make_x(seed, N, T, rest, dtype, salt)
            xl = x.tolist()
            exp = [expected_row(part, mode, value, xl[n], rest, rows[n]) for n in range(N)]
            if order == "canonical" and rest == REST_MAIN:
                for n in range(N):
                    crosscheck_oracle(ctx, part, mode, value, x, n, rows[n], exp[n])
            ctx.case(1, 1)
            bad = evaluate(ctx, part, mode, value, x, rows, exp, "functional", seed, salt, record=False)
            if bad is not None:
                ctx.count(f"{part}_rows_compared", N)
            suspects = range(N) if bad is None else sorted({n for n, _, _ in bad})
            culprit = False
            # singles: always in canonical order (this IS the N=1 pass), else only to minimise a failure
            for n in (range(N) if order == "canonical" else suspects):
                variants = [False, True] if part == "ch" and rows[n][0] == T else [False]
                for no_lens in variants:
                    via = "module" if n % 3 == 0 else "functional"
                    ctx.case(1, 1 if nontrivial(part, [rows[n]]) else 0)
                    b1 = evaluate(ctx, part, mode, value, x[n: n + 1], [rows[n]], [exp[n]], via, seed, salt,
                                  no_lens=no_lens)
                    if b1 is None or b1:
                        culprit = culprit or n in suspects
                    else:
                        ctx.count(f"{part}_rows_compared")
                        if n % 13 == 0:
                            ctx.outcome([part, mode, rows[n], exp[n]])
            if bad is None and not culprit:
                # raised only as a batch: file the batch itself
                evaluate(ctx, part, mode, value, x, rows, exp, "functional", seed, salt)
            elif bad:
                for n, sym, det in bad:
                    b1 = evaluate(ctx, part, mode, value, x[n: n + 1], [rows[n]], [exp[n]], "functional", seed,
                                  salt, record=False)
                    if b1 is not None and not b1:  # right alone, wrong in the batch
                        file_mismatch(ctx, part, mode, value, x, rows, "functional", seed, salt, False, n,
                                      sym + "-in-batch", det)


def variants_pass(ctx, part, mode, seed):
    for T in (0, 1, 2, 3, 6):
        singles_and_batches(ctx, part, mode, seed, T, REST_MAIN, "float32")
    singles_and_batches(ctx, part, mode, seed, T_MAIN, REST_MAIN, "float32")
    singles_and_batches(ctx, part, mode, seed, T_MAIN, (), "float32", default_value=True)
    singles_and_batches(ctx, part, mode, seed, T_MAIN, (2, 2), "int64")
    singles_and_batches(ctx, part, mode, seed, 3, (), "int64", default_value=True)


# ---- pad_masked_sequence ---------------------------------------------------------------------------
def pms_eval(ctx, x, mask, batch_first, padding, via, seed):
    """x: (N, T, *rest) batch-major master copy; mask: list of N lists of T bools."""
    N, T = x.size(0), x.size(1)
    rest = tuple(x.shape[2:])
    m = torch.tensor(mask, dtype=torch.bool).view(N, T)
    xin, min_ = (x, m) if batch_first else (x.transpose(0, 1), m.t())
    case = {"part": "pms", "x": x.tolist(), "mask": mask, "batch_first": batch_first, "padding": padding,
            "via": via, "dtype": str(x.dtype).replace("torch.", ""), "rest": list(rest), "N": N, "T": T}
    sig = {"api": "pad_masked_sequence", "batch_first": batch_first}
    nsel = sum(sum(r) for r in mask)
    ctx.case(1, 1 if 0 < nsel < N * T else 0)
    try:
        if via == "module":
            out, lens = M.PadMaskedSequence(batch_first, padding)(xin, min_)
        else:
            out, lens = F.pad_masked_sequence(xin, min_, batch_first, padding)
    except Exception as e:
        ctx.violation(dict(sig, symptom="raises", type=type(e).__name__, zero_T=T == 0), case,
                      {"error": str(e)[-300:]})
        return
    if tuple(out.shape) != tuple(xin.shape) or out.dtype != x.dtype or tuple(lens.shape) != (N,):
        ctx.violation(dict(sig, symptom="wrong-shape-or-dtype"), case,
                      {"out": list(out.shape), "lens": list(lens.shape), "dtype": str(out.dtype)})
        return
    outl = (out if batch_first else out.transpose(0, 1)).tolist()
    xl = x.tolist()
    item = O.full(rest, padding)
    for n in range(N):
        erow, ecount = O.compact(xl[n], mask[n], item)
        if lens[n].item() != ecount:
            ctx.violation(dict(sig, symptom="wrong-length"), dict(case, row=n),
                          {"expected": ecount, "observed": lens[n].item()})
        elif outl[n][:ecount] != erow[:ecount]:
            ctx.violation(dict(sig, symptom="wrong-selected-part"), dict(case, row=n),
                          {"expected": erow, "observed": outl[n]})
        elif outl[n] != erow:
            ctx.violation(dict(sig, symptom="remainder-not-padding-value"), dict(case, row=n),
                          {"expected": erow, "observed": outl[n]})
        else:
            ctx.count("pms_rows_compared")
            if rest == () and batch_first:
                ctx.outcome(["pms", mask[n], erow])


def pms_pass(ctx, N, T, seed):
    k = 0
    for rest, dtype in (((), "float32"), ((2,), "float32"), ((2, 3), "int64"), ((), "int64")):
        x = make_x(seed, N, T, rest, dtype, "pms")
        for bits in itertools.product((False, True), repeat=N * T):
            mask = [list(bits[n * T: (n + 1) * T]) for n in range(N)]
            for batch_first in (False, True):
                for padding in (0.0, -1.5 if dtype == "float32" else -1.0):
                    k += 1
                    pms_eval(ctx, x, mask, batch_first, padding, "module" if k % 3 == 0 else "functional", seed)
    if N == 2 and T == 3:
        x = make_x(seed, N, T, (), "int64", "pms")
        mask = [[True, False, True], [False, False, True]]
        ctx.sample({"api": "pad_masked_sequence", "x": x.tolist(), "mask": mask, "padding": -1,
                    "expected": [O.compact(x.tolist()[n], mask[n], -1) for n in range(N)]})


# ---- RandomShift (E2) ---------------------------------------------------------------------------------
def _props(p):
    return (p, p) if isinstance(p, str) else tuple(p)


def rs_layer(mode, props, value):
    """The layer as a user would build it (a single float when both sides agree, else the pair)."""
    fprops = (float(props[0]), float(props[1]))
    return M.RandomShift(fprops[0] if props[0] == props[1] else fprops, mode, value)


def rs_runner(mode, props, value, x, lens, menu, via, training=True):
    fprops = (float(props[0]), float(props[1]))
    lens_t = torch.tensor(lens, dtype=torch.long)

    def run(ch):
        with ScriptedRandom(ch, uniform=menu):
            if via == "module":
                layer = rs_layer(mode, props, value)
                layer.train(training)
                return layer(x, lens_t)
            return F.random_shift(x, lens_t, fprops, mode, value, training)

    return run


def rs_judge(ctx, mode, props, value, x, lens, menu, via, choices, res, training=True):
    T = x.size(1)
    rest = tuple(x.shape[2:])
    N = len(lens)
    case = {"part": "rs", "mode": mode, "props": list(props), "value": value, "x": x.tolist(), "lens": list(lens),
            "menu": list(menu), "via": via, "choices": list(choices), "training": training,
            "dtype": str(x.dtype).replace("torch.", "")}
    draws = [menu[c] for c in choices]
    sig = {"api": "RandomShift", "mode": mode}
    ctx.key(["rs", mode, props, lens, via, training, choices], nontrivial=training and any(d > 0 for d in draws))
    if isinstance(res, Exception):
        # classification only: the pads the draws stand for (float32 arithmetic as in the layer)
        pads = []
        if len(draws) == 2 * N:
            for side in (0, 1):
                for n in range(N):
                    b = torch.tensor(float(props[side]), dtype=torch.float32) * float(lens[n])
                    pads.append(int((b * torch.tensor(draws[side * N + n], dtype=torch.float32)).item()))
        ctx.violation(dict(sig, symptom="raises", type=type(res).__name__, pad_exceeds_T=any(p > T for p in pads)),
                      case, {"error": str(res)[-300:], "pads_from_draws": pads})
        return
    out, out_lens = res
    if not training:
        if choices:  # not forbidden by the property (identity of the output), only noted
            ctx.count("rs_eval_mode_executions_that_drew_random_numbers")
        if not (torch.equal(out, x) and out_lens.tolist() == list(lens) and out.dtype == x.dtype):
            ctx.violation(dict(sig, symptom="eval-mode-not-identity"), case,
                          {"out": out.tolist(), "out_lens": out_lens.tolist()})
        else:
            ctx.outcome(["rs-eval", mode, lens])
        return
    if (out.dim() != x.dim() or out.size(0) != N or tuple(out.shape[2:]) != rest or out.dtype != x.dtype
            or tuple(out_lens.shape) != (N,) or out_lens.dtype != torch.long):
        ctx.violation(dict(sig, symptom="wrong-shape-or-dtype"), case,
                      {"out": list(out.shape), "dtype": str(out.dtype), "out_lens": out_lens.tolist()})
        return
    xl, outl, ol = x.tolist(), out.tolist(), out_lens.tolist()
    item = O.full(rest, value)
    expl_all = []
    for n in range(N):
        seq = xl[n][: lens[n]]
        det = {"row": n, "len": lens[n], "out_len": ol[n], "draws": draws}
        if ol[n] < lens[n]:
            ctx.violation(dict(sig, symptom="length-shrinks"), dict(case, row=n), det)
            return
        if ol[n] > out.size(1):
            ctx.violation(dict(sig, symptom="output-shorter-than-length"), dict(case, row=n), det)
            return
        obs = outl[n][: ol[n]]
        det["observed"] = obs
        expl = O.shift_explanations(seq, obs, props, mode, item, exclusive=True)
        if not expl:
            if O.shift_explanations(seq, obs, props, mode, item, exclusive=False):
                sym = "pad-reaches-documented-exclusive-bound"
            elif O.shift_explanations(seq, obs, ("1000", "1000"), mode, item):
                sym = "pad-exceeds-proportion"
            elif O.embeddings(seq, obs):
                sym = "padding-content-wrong"
            else:
                sym = "original-not-embedded"
            det["allowed"] = [O.shift_allowed(props[0], lens[n]), O.shift_allowed(props[1], lens[n])]
            ctx.violation(dict(sig, symptom=sym), dict(case, row=n), det)
            return
        expl_all.append(expl)
    ctx.count("rs_rows_explained", N)
    ctx.outcome(["rs", mode, lens, expl_all])


def rs_pass(ctx, mode, props, tier, seed):
    props = _props(props)
    menu = MENU_QUICK if tier == "quick" else MENU_FULL
    T = T_MAIN
    value = VALUE
    x = make_x(seed, 2, T, REST_MAIN, "float32", "rs")
    lo = 0 if mode == "constant" else 1
    if mode == "reflect" and max(float(p) for p in props) > 1.0:
        return  # the constructor documents NotImplementedError for this
    # the documented ways of configuring the layer must be accepted; if the constructor refuses one,
    # that is filed once and the functional form (same code path behind the layer) is explored instead
    have_module = True
    ctx.case(1, 1)
    try:
        rs_layer(mode, props, value)
    except Exception as e:
        have_module = False
        ctx.violation({"api": "RandomShift", "symptom": "constructor-raises", "type": type(e).__name__,
                       "prop_is_pair": props[0] != props[1]},
                      {"part": "rs-ctor", "mode": mode, "props": list(props), "value": value},
                      {"error": str(e)[-300:]})
    k = 0
    for lens in itertools.product(range(lo, T + 1), repeat=2):
        if tier == "quick" and not (lens[1] in (lo, T) or lens[0] == lens[1]):
            continue  # quick: every len beside the shortest, the longest and itself; thorough: all pairs
        k += 1
        via = "module" if k % 2 and have_module else "functional"
        run = rs_runner(mode, props, value, x, lens, menu, via)
        for ch, res in explore(run):
            rs_judge(ctx, mode, props, value, x, lens, menu, via, ch.choices, res)
        via = "module" if have_module else "functional"
        run = rs_runner(mode, props, value, x, lens, menu, via, training=False)
        for ch, res in explore(run):
            rs_judge(ctx, mode, props, value, x, lens, menu, via, ch.choices, res, training=False)
    if mode == "reflect" and props == ("1.0", "1.0"):
        # default mode of the layer, single-float prop, trailing shape () and the default pad value
        x1 = make_x(seed, 2, T, (), "float32", "rs1")
        for lens in ((4, 1), (2, 3)):
            def run(ch, lens=lens):
                with ScriptedRandom(ch, uniform=menu):
                    return M.RandomShift(1.0)(x1, torch.tensor(lens))
            for ch, res in explore(run):
                rs_judge(ctx, "reflect", props, 0.0, x1, lens, menu, "module-defaults", ch.choices, res)
        ctx.sample({"api": "RandomShift", "mode": "reflect", "prop": 1.0, "menu": list(menu),
                    "note": "every assignment of menu values to the 4 draws (2 sides x 2 rows) is executed"})


# ---- runner interface ---------------------------------------------------------------------------------
def shards(tier, seed):
    out = []
    if tier == "thorough":
        stripes = {"pv": {"constant": 12, "replicate": 8, "reflect": 1},
                   "ch": {"constant": 64, "replicate": 40, "reflect": 16}}
        t1 = {"pv": {"constant": 3, "replicate": 1, "reflect": 1}, "ch": {"constant": 8, "replicate": 2, "reflect": 1}}
    else:
        stripes = {"pv": {"constant": 2, "replicate": 2, "reflect": 1},
                   "ch": {"constant": 6, "replicate": 6, "reflect": 2}}
        t1 = {"pv": {"constant": 1, "replicate": 1, "reflect": 1}, "ch": {"constant": 2, "replicate": 1, "reflect": 1}}
    # cheap parts first, so that a wall budget that runs out can never drop a whole API
    for kind in L.KINDS:
        out.append({"pass": "life", "kind": kind})
    for kind in ("pv", "ch", "pms", "rs"):
        out.append({"pass": "exact", "kind": kind})
    for kind in H.KINDS:
        of = {"ChunkBySlices": 8, "PadVariable": 2, "PadMaskedSequence": 2, "RandomShift": 2}[kind] \
            if tier == "thorough" else 1
        for init in H.inits(kind):
            for i in range(of):
                out.append({"pass": "hist", "kind": kind, "init": init, "i": i, "of": of})
    for N in (1, 2, 3) if tier == "thorough" else (1, 2):
        for T in range(0, 5):
            out.append({"pass": "pms", "N": N, "T": T})
    for mode in MODES:
        for p in RS_PROPS:
            out.append({"pass": "rs", "mode": mode, "props": p})
    for part in ("ch", "pv"):
        for mode in MODES:
            out.append({"pass": "variants", "part": part, "mode": mode})
    # pairs; T = 1 as well: a time dimension of size one broadcasts silently
    for T, table in ((T_MAIN, stripes), (1, t1)):
        for part in ("ch", "pv"):
            for mode in MODES:
                for i in range(table[part][mode]):
                    out.append({"pass": "pairs", "part": part, "mode": mode, "i": i, "of": table[part][mode], "T": T})
    return out


def run_shard(spec, tier, seed):
    ctx = Ctx()
    if spec["pass"] == "pairs":
        pairs_pass(ctx, spec["part"], spec["mode"], tier, seed, spec["i"], spec["of"], spec.get("T", T_MAIN))
    elif spec["pass"] == "variants":
        variants_pass(ctx, spec["part"], spec["mode"], seed)
    elif spec["pass"] == "rs":
        rs_pass(ctx, spec["mode"], spec["props"], tier, seed)
    elif spec["pass"] == "pms":
        pms_pass(ctx, spec["N"], spec["T"], seed)
    elif spec["pass"] == "exact":
        X.exact_pass(ctx, spec["kind"], seed)
    elif spec["pass"] == "life":
        L.life_pass(ctx, spec["kind"], seed)
    elif spec["pass"] == "hist":
        H.hist_pass(ctx, spec["kind"], spec["init"], tier, seed, spec["i"], spec["of"])
    else:
        raise ValueError(spec)
    return ctx


def replay(case):
    ctx = Ctx()
    part = case["part"]
    dtype = case.get("dtype", "float32")
    if part in ("pv", "ch"):
        rows = [tuple(r) for r in case["rows"]]
        rest = tuple(case["rest"])
        if "x" in case:
            x = torch.tensor(case["x"], dtype=getattr(torch, dtype)).view((len(rows), case["T"]) + rest)
        else:
            g = case["x_gen"]
            x = make_x(g["seed"], g["N"], case["T"], rest, dtype, g["salt"])
        xl = x.tolist()
        exp = [expected_row(part, case["mode"], case["value"], xl[n], rest, rows[n]) for n in range(len(rows))]
        ctx.case(1, 1)
        evaluate(ctx, part, case["mode"], case["value"], x, rows, exp, case["via"], 0, "replay",
                 no_lens=case.get("no_lens", False))
    elif part == "pms":
        x = torch.tensor(case["x"], dtype=getattr(torch, dtype)).view((case["N"], case["T"]) + tuple(case["rest"]))
        pms_eval(ctx, x, case["mask"], case["batch_first"], case["padding"], case["via"], 0)
    elif part == "rs":
        x = torch.tensor(case["x"], dtype=getattr(torch, dtype))
        props, lens, menu = tuple(case["props"]), tuple(case["lens"]), tuple(case["menu"])
        if case["via"] == "module-defaults":
            def run(ch):
                with ScriptedRandom(ch, uniform=menu):
                    return M.RandomShift(1.0)(x, torch.tensor(lens))
        else:
            run = rs_runner(case["mode"], props, case["value"], x, lens, menu, case["via"], case["training"])
        ch = Chooser(case["choices"])
        try:
            res = run(ch)
        except Exception as e:  # noqa: BLE001
            res = e
        rs_judge(ctx, case["mode"], props, case["value"], x, lens, menu, case["via"], ch.choices, res,
                 case["training"])
    elif part == "hist":
        H.replay(ctx, case)
    elif part == "exact":
        X.replay(ctx, case)
    elif part == "life":
        L.replay(ctx, case)
    elif part == "rs-ctor":
        ctx.case(1, 1)
        try:
            rs_layer(case["mode"], tuple(case["props"]), case["value"])
        except Exception as e:
            props = case["props"]
            ctx.violation({"api": "RandomShift", "symptom": "constructor-raises", "type": type(e).__name__,
                           "prop_is_pair": props[0] != props[1]}, case, {"error": str(e)[-300:]})
    else:
        raise ValueError(part)
    return ctx
