"""C16 - crash safety of the epoch update: every file-system event of every update is a crash point (E4)."""

import itertools
import os
import shutil

import torch

from mc.crashfs import Crash, CrashFS
from mc.runner import Ctx
from checks import _train_common as T

PROP = "C16"
LEVEL = "fault_enumeration"
RULE = (
    "metric histories over {1,2,3} of length 3 (quick) / 4 (thorough) - every relation between last, best and "
    "previous-best epoch - x keep_last_and_best_only both x checkpoint name formats with and without the {epoch} "
    "field x best_is_train both; the real update_for_epoch runs on tmpfs under a file-system shim in which every "
    "mutating call (mkdir, temp-file creation, temp-file content, rename, csv creation, csv append, delete) is an "
    "event; for every update and every event index the process is killed before that event (dead mode discards "
    "everything issued while unwinding), then a new controller, model and optimizer are built on the surviving files "
    "and must (a) read a row-prefix of the uninterrupted history, (b) load model+optimizer of the last recorded "
    "epoch and the model of the best epoch with exactly those epochs' parameters, (c) finish training with a "
    "byte-identical history; a second crash at every event of the continuation's first update (crash bound 2) - "
    "thorough: after every first crash; quick: after first crashes that fall between the model and optimizer renames. "
    "After EVERY completed update - in crash-free runs and in the continuation after a crash - a fresh controller "
    "on the same files must report that epoch as the last one and load last, best (and, when everything is kept, every "
    "recorded epoch) with the parameters stamped for them, for all name formats; in crash-free runs the directory must "
    "also hold exactly the documented files. Every crash-free history is run again with the controller, model and "
    "optimizer rebuilt from the files before every non-empty subset of its updates (a restart without a crash): same "
    "csv bytes and listings after every update as the uninterrupted run. A case = (config, metrics, update, event); "
    "distinct by construction; non-trivial = the crash lands after the first and before the last event of the update."
)
ASSUMPTIONS = [
    "crash model: the process dies between two file-system calls; a single call (rename, one buffered append) is "
    "atomic; no torn writes, no reordering of unsynced writes (the property's stated model)",
    "the shim patches os/builtins/tempfile entry points for paths under the scratch root; conformance: the same "
    "crash-free history run without the shim must leave byte-identical csv and the same directory listing",
    "stranded temp files / old checkpoints after a crash are reported, not treated as violations (the 'exactly those "
    "two' clause speaks of completed updates)",
    "formats without {epoch} combined with keep-everything overwrite the single checkpoint each epoch (documented by a "
    "constructor warning), so the best-epoch clause is not evaluated for that combination",
]
BUDGET_S = {"quick": 900, "thorough": 3000}

FORMATS = {
    "epoch": ("model_{epoch:03d}.pt", "optim_{epoch:03d}.pt"),
    "fixed": ("model.pt", "optim.pt"),
}


def configs(tier):
    for keep, fmt, bit in itertools.product((True, False), ("epoch", "fixed"), (False, True)):
        yield {"keep_last_and_best_only": keep, "fmt": fmt, "best_is_train": bit}


def to_cfg(c):
    return {"keep_last_and_best_only": c["keep_last_and_best_only"], "saved_model_fmt": FORMATS[c["fmt"]][0],
            "saved_optimizer_fmt": FORMATS[c["fmt"]][1]}


def shards(tier, seed):
    L = 3 if tier == "quick" else 4
    out = []
    for c in configs(tier):
        for first in (1.0, 2.0, 3.0):
            out.append({"c": c, "first": first, "L": L})
    return out


def train_metric(v):
    return 4.0 - v


def build(cfg, root):
    ctrl = T.new_controller(cfg, root)
    m, o = T.new_model_optim(cfg)
    ctrl.load_model_and_optimizer_for_epoch(m, o, ctrl.get_last_epoch())
    return ctrl, m, o


def do_update(ctrl, m, o, e, v, bit):
    T.stamp(m, o, e)
    return ctrl.update_for_epoch(m, o, train_metric(v), v, best_is_train=bit)


def snapshot(root, dst):
    shutil.rmtree(dst, ignore_errors=True)
    shutil.copytree(root, dst)


def restore(src, root):
    shutil.rmtree(root, ignore_errors=True)
    shutil.copytree(src, root)


def check_completed(ctx, c, root, e, sig, case, listing_exact):
    """After a COMPLETED update of epoch e: a fresh controller on the same files finds epoch e as the last one, can
    load it and the best epoch with the parameters stamped for them (every recorded epoch when everything is kept), and -
    when no crash came before (listing_exact) - the state directory holds exactly the documented files."""
    cfg = to_cfg(c)
    bit, keep, fixed = c["best_is_train"], c["keep_last_and_best_only"], c["fmt"] == "fixed"
    try:
        ctrl = T.new_controller(cfg, root)
        last = ctrl.get_last_epoch()
        best = ctrl.get_best_epoch(bit)
    except Exception as ex:  # noqa: BLE001
        ctx.violation(dict(sig, api="restart", symptom="history-unreadable-after-update", type=type(ex).__name__),
                      dict(case, epoch=e), {"error": str(ex)[-300:]})
        return False
    if last != e:
        ctx.violation(dict(sig, api="restart", symptom="last-epoch-not-the-completed-update"), dict(case, epoch=e),
                      {"last_epoch": last})
        return False
    if fixed and not keep:
        wanted = [("last", e)]  # documented (constructor warning): only the last epoch's state persists
    elif keep:
        wanted = [("last", e), ("best", best)]
    else:
        wanted = [("last", e), ("best", best)] + [("recorded", x) for x in range(1, e)]
    for which, x in wanted:
        m2, o2 = T.new_model_optim(cfg)
        try:
            ctrl.load_model_and_optimizer_for_epoch(m2, o2, x)
            got = T.read_stamp(m2, o2)
        except Exception as ex:  # noqa: BLE001
            ctx.violation(dict(sig, api="load", symptom="checkpoint-missing-after-completed-update", which=which,
                               type=type(ex).__name__), dict(case, epoch=e),
                          {"load_epoch": x, "error": str(ex)[-200:], "dir": T.listing(root)})
            return False
        if got != (float(x), 100.0 + x):
            ctx.violation(dict(sig, api="load", symptom="wrong-parameters-after-completed-update", which=which),
                          dict(case, epoch=e), {"load_epoch": x, "got": got, "dir": T.listing(root)})
            return False
    if listing_exact:
        if fixed:
            want = ["model.pt", "optim.pt"]
        elif keep:
            want = sorted({f"model_{x:03d}.pt" for x in (e, best)} | {f"optim_{x:03d}.pt" for x in (e, best)})
        else:
            want = sorted([f"model_{x:03d}.pt" for x in range(1, e + 1)] + [f"optim_{x:03d}.pt" for x in range(1, e + 1)])
        if T.listing(root) != want:
            ctx.violation(dict(sig, api="update_for_epoch", symptom="state-dir-not-exactly-the-documented-files"),
                          dict(case, epoch=e), {"expected": want, "observed": T.listing(root)})
            return False
    return True


def crash_free(ctx, c, metrics, root, use_shim=True, restarts=()):
    """Uninterrupted run.  Returns per-update event counts, csv after each update, listing after each update,
    or None if the configuration legitimately refuses (documented ValueError about overwriting the best)."""
    cfg = to_cfg(c)
    shutil.rmtree(root, ignore_errors=True)
    os.makedirs(root)
    counts, csvs, lists, snaps = [], [], [], []
    case = {"c": c, "metrics": list(metrics), "kind": "crash-free"}
    fs = CrashFS(root) if use_shim else None
    if fs:
        fs.__enter__()
    try:
        ctrl, m, o = build(cfg, root)
        sig = {"fmt": c["fmt"], "keep": c["keep_last_and_best_only"], "crash": False,
               "controller_restarted": bool(restarts)}
        for e, v in enumerate(metrics, 1):
            if e in restarts:
                # a new process: new controller, model and optimizer objects, everything reloaded from the files
                del ctrl, m, o
                ctrl, m, o = build(cfg, root)
            n0 = len(fs.events) if fs else 0
            try:
                do_update(ctrl, m, o, e, v, c["best_is_train"])
            except ValueError as ex:
                if "would overwrite" in str(ex) and c["fmt"] == "fixed" and c["keep_last_and_best_only"]:
                    return {"refused_at": e, "counts": counts, "csvs": csvs, "lists": lists, "events":
                            list(fs.events) if fs else []}
                raise
            counts.append((len(fs.events) - n0) if fs else 0)
            csvs.append(T.csv_text(root))
            lists.append(T.listing(root))
            if not check_completed(ctx, c, root, e, sig, dict(case, restarts=sorted(restarts)), True):
                break  # reported; whatever follows would only repeat it
        return {"counts": counts, "csvs": csvs, "lists": lists, "events": list(fs.events) if fs else []}
    finally:
        if fs:
            fs.__exit__(None, None, None)


def window_of(events):
    """Where in the update the crash fell, from the crashed run's own event log."""
    wrote_hist = any(ev[0] == "write" and ev[1] == "hist.csv" for ev in events)
    renames = sum(1 for ev in events if ev[0] == "replace")
    if wrote_hist and renames < 2:
        return "history-appended-checkpoint-incomplete"
    if renames == 1:
        return "between-model-and-optimizer-rename"
    if not wrote_hist and renames == 2:
        return "checkpoint-complete-history-not-appended"
    return "other"


def recover_and_finish(ctx, c, metrics, root, full, case, second=None, window="other", sigx=None):
    """After a crash: restart on the surviving files, check what is loadable, finish training.
    ``second`` = (update offset, event index) of a second crash during the continuation (thorough)."""
    cfg = to_cfg(c)
    bit = c["best_is_train"]
    sig0 = {"fmt": c["fmt"], "keep": c["keep_last_and_best_only"], "crash": True, "window": window}
    sig0.update(sigx or {})
    text = T.csv_text(root)
    # surviving csv: absent, created-but-empty (no rows yet), or exactly the text after some completed update
    if text not in [None, ""] + full["csvs"]:
        ctx.violation(dict(sig0, api="history", symptom="history-not-a-prefix"), case, {"csv": text})
        return False
    try:
        ctrl, m, o = build(cfg, root)
    except Exception as ex:  # noqa: BLE001
        ctx.violation(dict(sig0, api="restart", symptom="cannot-load-last-epoch", type=type(ex).__name__,
                           csv_empty=(text == "")), case, {"error": str(ex)[-300:], "csv": text, "dir": T.listing(root)})
        return False
    last = ctrl.get_last_epoch()
    if text in (None, ""):
        exp_last = 0
    else:
        exp_last = full["csvs"].index(text) + 1
    if last != exp_last:
        ctx.violation(dict(sig0, api="restart", symptom="history-not-a-prefix"), case,
                      {"last_epoch": last, "expected": exp_last, "csv": text})
        return False
    if last:
        got = T.read_stamp(m, o)
        if got != (float(last), 100.0 + last):
            ctx.violation(dict(sig0, api="load", symptom="wrong-parameters-loaded", which="last"), case,
                          {"epoch": last, "got": got, "dir": T.listing(root)})
            return False
        best = ctrl.get_best_epoch(bit)
        m2, _ = T.new_model_optim(cfg)
        if c["fmt"] == "fixed" and not c["keep_last_and_best_only"]:
            best = last  # documented (constructor warning): only the last epoch's state persists
        try:
            ctrl.load_model_for_epoch(m2, best)
            w = float(m2.weight.item())
        except Exception as ex:  # noqa: BLE001
            ctx.violation(dict(sig0, api="load", symptom="cannot-load-best-epoch", type=type(ex).__name__), case,
                          {"epoch": best, "error": str(ex)[-300:], "dir": T.listing(root)})
            return False
        if w != float(best):
            ctx.violation(dict(sig0, api="load", symptom="wrong-parameters-loaded", which="best"), case,
                          {"epoch": best, "got": w, "dir": T.listing(root)})
            return False
    # ---- continue training to the end ------------------------------------------------------------
    upd = 0
    for e in range(last + 1, len(metrics) + 1):
        if "refused_at" in full and e == full["refused_at"]:
            break
        if second is not None and upd == second[0]:
            had_ckpt = os.path.exists(ctrl.get_model_path_with_info(dict(ctrl.get_info(e - 1), epoch=e)))
            with CrashFS(root, kill_before=second[1]) as fs:
                try:
                    do_update(ctrl, m, o, e, metrics[e - 1], bit)
                    crashed = False
                except Crash:
                    crashed = True
                except ValueError as ex:
                    if "would overwrite" in str(ex):
                        return None  # documented refusal: no update to crash in
                    raise
            if crashed:
                ctx.transitions += 1
                return recover_and_finish(ctx, c, metrics, root, full, dict(case, second=list(second)), None,
                                          window_of(fs.events), {"ckpt_existed_before": had_ckpt})
            return None  # event index beyond this update: nothing to explore
        try:
            do_update(ctrl, m, o, e, metrics[e - 1], bit)
        except ValueError as ex:
            if "would overwrite" in str(ex) and c["fmt"] == "fixed" and c["keep_last_and_best_only"]:
                break
            ctx.violation(dict(sig0, api="update_for_epoch", symptom="raises-after-recovery", type="ValueError"),
                          case, {"epoch": e, "error": str(ex)[-300:]})
            return False
        except Exception as ex:  # noqa: BLE001
            ctx.violation(dict(sig0, api="update_for_epoch", symptom="raises-after-recovery",
                               type=type(ex).__name__), case, {"epoch": e, "error": str(ex)[-300:]})
            return False
        upd += 1
        if not check_completed(ctx, c, root, e, dict(sig0, after_recovery=True), case, False):
            return False
    if second is not None:
        return None  # the continuation had no update in which the second crash could fall
    final = T.csv_text(root)
    want = full["csvs"][-1] if full["csvs"] else None
    if final != want:
        ctx.violation(dict(sig0, api="history", symptom="final-history-differs"), case,
                      {"expected": want, "observed": final})
        return False
    # after recovery and completion: last and best loadable again; with keep-everything every recorded epoch
    nrec = len(full["csvs"])
    if full["lists"] and c["keep_last_and_best_only"]:
        extra = sorted(set(T.listing(root)) - set(full["lists"][-1]))
        if extra:  # reported, not judged: the 'exactly those two' clause speaks of uninterrupted updates
            ctx.count("recovered_runs_with_stranded_files")
            ctx.count("stranded:" + ("temp" if all("tmp" in f for f in extra) else "old-checkpoint"))
    if nrec and not (c["fmt"] == "fixed"):
        want_epochs = range(1, nrec + 1) if not c["keep_last_and_best_only"] else sorted(
            {ctrl.get_last_epoch(), ctrl.get_best_epoch(bit)})
        for x in want_epochs:
            m3, o3 = T.new_model_optim(cfg)
            try:
                ctrl.load_model_and_optimizer_for_epoch(m3, o3, x)
                got = T.read_stamp(m3, o3)
            except Exception as ex:  # noqa: BLE001
                got = f"{type(ex).__name__}: {str(ex)[-120:]}"
            if got != (float(x), 100.0 + x):
                ctx.violation(dict(sig0, api="load", symptom="recorded-epoch-not-loadable-after-recovery"), case,
                              {"epoch": x, "got": got, "dir": T.listing(root)})
                return False
    return True


def explore_history(ctx, c, metrics, tier):
    root = os.path.join(T.SCRATCH, "c16")
    snapdir = os.path.join(T.SCRATCH, "c16-snaps")
    full = crash_free(ctx, c, metrics, root)
    ctx.evaluations += 1
    # conformance of the shim: same history without it
    plain = crash_free(Ctx(), c, metrics, os.path.join(T.SCRATCH, "c16-plain"), use_shim=False)
    norm = lambda ls: [[f for f in l] for l in ls]  # noqa: E731
    if plain["csvs"] != full["csvs"] or norm(plain["lists"]) != norm(full["lists"]):
        raise RuntimeError(f"HARNESS: shim changes behaviour for {c} {metrics}")
    ctx.traces += 1
    ctx.state([full["csvs"][-1] if full["csvs"] else None, full["lists"][-1] if full["lists"] else None])
    # object histories: the same run with the controller rebuilt from the files before every subset of the updates
    # (a restart without a crash) must leave the same history and the same directory after every update
    ups = list(range(2, len(metrics) + 1))
    for r in range(1, len(ups) + 1):
        for sub in itertools.combinations(ups, r):
            alt = crash_free(ctx, c, metrics, os.path.join(T.SCRATCH, "c16-plain"), use_shim=False, restarts=sub)
            ctx.case(1, 1)
            ctx.count("crash_free_runs_with_controller_restarts")
            if (alt["csvs"], alt["lists"], alt.get("refused_at")) != (full["csvs"], full["lists"], full.get("refused_at")):
                k = next((i for i, (a, b) in enumerate(zip(alt["csvs"] + [None], full["csvs"] + [None])) if a != b),
                         min(len(alt["csvs"]), len(full["csvs"])))
                ctx.violation({"api": "update_for_epoch", "symptom": "restart-without-crash-changes-the-run",
                               "fmt": c["fmt"], "keep": c["keep_last_and_best_only"]},
                              {"kind": "crash-free", "c": c, "metrics": list(metrics), "restarts": list(sub)},
                              {"first_differing_update": k + 1, "restarted": [alt["csvs"][-1:], alt["lists"][-1:]],
                               "uninterrupted": [full["csvs"][-1:], full["lists"][-1:]]})
    nupd = len(full["counts"])
    cfg = to_cfg(c)
    # snapshots of the directory before each update (crash-free prefix), so a crash run starts there
    shutil.rmtree(root, ignore_errors=True)
    os.makedirs(root)
    ctrl, m, o = build(cfg, root)
    for u in range(1, nupd + 1):
        snapshot(root, os.path.join(snapdir, f"before{u}"))
        do_update(ctrl, m, o, u, metrics[u - 1], c["best_is_train"])
    del ctrl, m, o
    for u in range(1, nupd + 1):
        nev = full["counts"][u - 1]
        for k in range(nev):
            restore(os.path.join(snapdir, f"before{u}"), root)
            ctrl, m, o = build(cfg, root)
            had_ckpt = os.path.exists(ctrl.get_model_path_with_info(dict(ctrl.get_info(u - 1), epoch=u)))
            sigx = {"ckpt_existed_before": had_ckpt}
            case = {"kind": "crash", "c": c, "metrics": list(metrics), "update": u, "event": k}
            with CrashFS(root, kill_before=k) as fs:
                try:
                    do_update(ctrl, m, o, u, metrics[u - 1], c["best_is_train"])
                    crashed = False
                except Crash:
                    crashed = True
            if not crashed:
                raise RuntimeError(f"HARNESS: replay divergence, event {k} of update {u} not reached: {case}")
            case["crashed_before"] = list(fs.crashed_at)
            del ctrl, m, o
            ctx.case(1, 1 if 0 < k < nev - 1 else 0)
            ctx.transitions += 1
            ctx.state([T.csv_text(root), T.listing(root)])
            win = window_of(fs.events)
            ctx.count("window:" + win)
            ok = recover_and_finish(ctx, c, metrics, root, full, case, None, win, sigx)
            ctx.outcome([ok, fs.crashed_at[0], T.listing(root)])
            # crash bound 2: everywhere in the thorough tier; in the quick tier after first crashes that leave
            # a half-renamed checkpoint behind (the window in which a leftover file can mislead the redo)
            if ok and (tier == "thorough" or win == "between-model-and-optimizer-rename"):
                # crash bound 2: second crash at every event of the first update of the continuation
                j = 0
                while True:
                    restore(os.path.join(snapdir, f"before{u}"), root)
                    ctrl, m, o = build(cfg, root)
                    with CrashFS(root, kill_before=k):
                        try:
                            do_update(ctrl, m, o, u, metrics[u - 1], c["best_is_train"])
                        except Crash:
                            pass
                    del ctrl, m, o
                    r = recover_and_finish(ctx, c, metrics, root, full, case, second=(0, j), window=win, sigx=sigx)
                    if r is None:
                        break
                    ctx.case(1, 1)
                    j += 1
                    if j > 40:
                        ctx.capped.append("second-crash event index > 40")
                        break
    return full


def run_shard(spec, tier, seed):
    ctx = Ctx()
    c, first, L = spec["c"], spec["first"], spec["L"]
    try:
        # 2.000004 prints as 2.0000e+00: a near-tie inside the history's precision (the earlier epoch stays best)
        for rest in itertools.product((1.0, 2.0, 2.000004, 3.0), repeat=L - 1):
            metrics = (first,) + rest
            try:
                full = explore_history(ctx, c, metrics, tier)
            except RuntimeError as ex:
                if str(ex).startswith("HARNESS"):
                    ctx.notes.append(str(ex))
                    ctx.capped.append("harness-error")
                    continue
                raise
        ctx.sample({"config": c, "metrics": list(metrics), "events_per_update": full["counts"],
                    "events_of_run": full["events"][:12]})
    finally:
        T.cleanup()
    return ctx


def replay(case):
    ctx = Ctx()
    try:
        c, metrics = case["c"], tuple(case["metrics"])
        if case["kind"] == "crash-free":
            crash_free(ctx, c, metrics, os.path.join(T.SCRATCH, "c16"), restarts=tuple(case.get("restarts", ())))
        else:
            explore_history(ctx, c, metrics, "thorough" if "second" in case else "quick")
    finally:
        T.cleanup()
    return ctx
