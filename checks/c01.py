"""C01 - edit distance == weighted Levenshtein, per pair and per prefix (E1)."""

import itertools

import torch

import pydrobert.torch.functional as F
import pydrobert.torch.modules as M
from pydrobert.torch import config

from mc.runner import Ctx
from mc.oracles import strings as O
from checks import _strings_common as S

PROP = "C01"
LEVEL = "exploration"
RULE = (
    "every (ref, hyp) pair of stored sequences over the alphabet {0,1,2} with tensor sizes "
    "R,H in 0..3 (quick) / 0..4 (thorough), pushed through the implementation as one ragged "
    "batch per (R,H) and again in reversed batch order and (thorough: also one pair at a time); "
    "x cost triples (the shared menu and (1e-4,1,1e-4), (1,1e-4,1): costs four orders of magnitude apart) x eos in {None,2} x include_eos x norm x batch_first x "
    "{edit_distance, prefix_edit_distances(exclude_last both, three padding values, one of which (2) collides with legitimate distances)} x "
    "{functional, module}. Cases are distinct by construction (cartesian product of "
    "duplicate-free generators); a case is non-trivial when ref and hyp (as counted) differ "
    "and are both non-empty. Plus deliberately larger instances (R,H,N) = (127,120,100) and (255,250,17) "
    "(thorough: also (511,500,9), (63,70,300)) of edit-laden strings with eos in a third of the rows, two cost "
    "triples, compared with an integer two-row DP: they cross size-dependent code paths a small scope cannot reach."
)
ASSUMPTIONS = [
    "small-scope: alphabet of 3 symbols and lengths <= 3/4; costs from a fixed menu of 4/8 triples",
    "norm with an empty counted reference is excluded (the statement fixes no convention for distances)",
    "float32 comparison tolerance 1e-5 relative",
    "TorchScript-compiled and CUDA variants not explored",
]
BUDGET_S = {"quick": 900, "thorough": 3000}
PAD2 = -7
PAD3 = 2


# costs four orders of magnitude apart (round 6): representable inputs and results, but an intermediate such as
# v[j] - j * del_cost swallows the small costs in float32
EXTREME_COSTS = [(1e-4, 1.0, 1e-4), (1.0, 1e-4, 1.0)]
LARGE = [(127, 120, 100), (255, 250, 17)]  # (R, H, N): long sequences x many pairs, beyond the small scope


def shards(tier, seed):
    L = S.max_len(tier)
    LIFE = [{"lifecycle": [n]} for n in ['EditDistance', 'PrefixEditDistances']]
    out = [{"R": R, "H": H} for R in range(L + 1) for H in range(L + 1)]
    out += [{"large": list(x), "cost": c} for x in LARGE for c in ((1.0, 1.0, 1.0), (1.0, 0.5, 2.0))]
    out += [{"large": list(LARGE[0]), "cost": c} for c in EXTREME_COSTS]
    # the same kind of instance with token ids >= 2^24, and through scripted / traced modules
    out += [{"large": [31, 30, 40], "cost": (1.0, 2.0, 3.0), "id_offset": S.BIG_ID},
            {"large": [31, 30, 40], "cost": (0.5, 0.5, 0.5), "id_offset": S.BIG_ID},
            {"large": [31, 30, 40], "cost": (1.0, 0.5, 2.0), "jit": True},
            {"large": [15, 17, 9], "cost": (2.0, 2.0, 2.0), "jit": True}]
    if tier == "thorough":
        out += [{"large": [511, 500, 9], "cost": (0.5, 1.0, 1.0)}, {"large": [63, 70, 300], "cost": (1.0, 2.0, 3.0)}]
    return LIFE + out


def _large(ctx, R, H, N, cost, seed, id_offset=0, jit=False):
    """One deliberately larger instance: crosses size-dependent code paths (chunking, dtype limits) that a
    small scope cannot reach.  Strings come from a fixed linear congruential sequence (VERIF_SEED only shifts it);
    tensors are offset, non-contiguous views; id_offset moves the alphabet to ids >= 2^24."""
    eos = 3 + id_offset
    refs, hyps, ref, hyp = S.large_batch(R, H, N, seed, 3, id_offset)
    scale = 2 if all(c * 2 == round(c * 2) for c in cost) else 10000  # exact integer costs for the reference DP
    ci, cd, cs = (int(round(c * scale)) for c in cost)
    for include_eos in (False, True):
        exp = []
        for n in range(N):
            er, eh = O.effective(refs[n], eos, include_eos), O.effective(hyps[n], eos, include_eos)
            exp.append(O.lev_int(er, eh, ci, cd, cs) / float(scale))
        for batch_first in (False, True):
            r_in, h_in = (ref.t(), hyp.t()) if batch_first else (ref, hyp)
            kw = dict(eos=eos, include_eos=include_eos, batch_first=batch_first, ins_cost=cost[0],
                      del_cost=cost[1], sub_cost=cost[2])
            case = {"kind": "large", "R": R, "H": H, "N": N, "cost": cost, "seed": seed, "id_offset": id_offset,
                    "jit": jit}
            fkw = {k: (float(v) if k.endswith("_cost") else v) for k, v in kw.items()}
            variants = [("edit_distance", lambda r, h: F.edit_distance(r, h, warn=False, **kw)),
                        ("prefix_edit_distances", lambda r, h: F.prefix_edit_distances(r, h, warn=False, **kw))]
            if jit:
                ex = (torch.full((1, 1), eos, dtype=torch.long),) * 2
                for nm, v in S.jit_variants(lambda: M.EditDistance(warn=False, **fkw), ex):
                    variants.append(("edit_distance/" + nm, v))
                for nm, v in S.jit_variants(lambda: M.PrefixEditDistances(warn=False, **fkw), ex):
                    variants.append(("prefix_edit_distances/" + nm, v))
            for fn, call in variants:
                ctx.case(N, N)
                try:
                    if isinstance(call, Exception):
                        raise call
                    if fn.startswith("edit_distance"):
                        out = call(r_in, h_in).tolist()
                        alone = call(r_in[:, N - 1:] if not batch_first else r_in[N - 1:],
                                     h_in[:, N - 1:] if not batch_first else h_in[N - 1:]).tolist()
                    else:
                        o = call(r_in, h_in)
                        o = o.t() if not batch_first else o
                        out = []
                        for n in range(N):
                            eh = O.effective(hyps[n], eos, include_eos)
                            out.append(o[n, len(eh)].item())
                        alone = [out[-1]]
                except Exception as e:
                    ctx.violation({"api": fn, "symptom": "raises", "type": type(e).__name__, "large": True}, case,
                                  {"error": str(e)[-300:]})
                    continue
                bad = [n for n in range(N) if not S.close(out[n], exp[n])]
                if bad or not S.close(alone[0], exp[-1]):
                    ctx.violation({"api": fn, "symptom": "wrong-distance", "large": True, "big_ids": bool(id_offset),
                                   "only_in_batch": bool(bad) and S.close(alone[0], exp[-1])},
                                  dict(case, include_eos=include_eos, batch_first=batch_first),
                                  {"first_bad_pair": bad[:3], "expected": [exp[n] for n in bad[:3]],
                                   "observed": [out[n] for n in bad[:3]]})
                else:
                    ctx.outcome(round(sum(exp)))
    ctx.sample({"large_instance": {"R": R, "H": H, "N": N, "cost": cost, "id_offset": id_offset, "jit": jit}})


def _check_batch(ctx, pairs, ref, hyp, eos, include_eos, cost, tier, tag, modules, single=False):
    N = len(pairs)
    effs = [S.eff_pair(p, eos, include_eos) for p in pairs]
    orc = [O.distance(er, eh, cost)[0] for er, eh in effs]
    H = hyp.size(0)
    for norm, batch_first in itertools.product((False, True), (False, True)):
        r_in, h_in = (ref.t(), hyp.t()) if batch_first else (ref, hyp)
        kw = dict(
            eos=eos, include_eos=include_eos, norm=norm, batch_first=batch_first,
            ins_cost=cost[0], del_cost=cost[1], sub_cost=cost[2],
        )
        base_case = {"kind": "pair", "eos": eos, "include_eos": include_eos, "norm": norm,
                     "batch_first": batch_first, "cost": cost, "batching": tag}
        # ---- full distance --------------------------------------------------------
        for api in (("functional", "module") if modules else ("functional",)):
            try:
                r0, h0 = r_in.clone(), h_in.clone()
                if api == "functional":
                    out = F.edit_distance(r_in, h_in, warn=False, **kw)
                else:
                    mod = M.EditDistance(warn=False, **kw)
                    mod(h_in.flip(0), r_in.flip(0))  # one module object, an unrelated call first: no state may carry over
                    out = mod(r_in, h_in)
                if not (torch.equal(r0, r_in) and torch.equal(h0, h_in)):
                    raise AssertionError("argument modified in place")
                kept = out.clone()
                F.edit_distance(h_in.flip(0), r_in.flip(0), warn=False, **kw)  # a later, unrelated call
                if not torch.equal(kept, out):
                    raise AssertionError("result of an earlier call changed after a later call (aliased buffer)")
                out = out.tolist()
                err = None
            except Exception as e:  # a legal input must not raise
                err = e
            for n in range(N):
                er, eh = effs[n]
                if norm and len(er) == 0:
                    ctx.case(1)
                    continue
                ctx.case(1, 1 if (er != eh and er and eh) else 0)
                exp = orc[n][-1] / (len(er) if norm else 1)
                if err is not None:
                    ctx.violation(
                        {"api": "edit_distance", "symptom": "raises", "type": type(err).__name__,
                         "zero_dim": ref.size(0) == 0 or hyp.size(0) == 0, "eos_set": eos is not None},
                        dict(base_case, api=api, fn="edit_distance", ref=pairs[n][0], hyp=pairs[n][1]),
                        {"error": str(err)[-400:]},
                    )
                    break
                if not S.close(out[n], exp):
                    ctx.violation(
                        {"api": "edit_distance", "symptom": "wrong-distance", "norm": norm,
                         "uniform": cost[0] == cost[1] == cost[2]},
                        dict(base_case, api=api, fn="edit_distance", ref=pairs[n][0], hyp=pairs[n][1]),
                        {"expected": exp, "observed": out[n]},
                    )
                else:
                    ctx.outcome(round(exp * 64))
        # ---- per-prefix distances ----------------------------------------------
        # PAD3 collides with legitimate distances (2.0): a result must never be told from padding by its value
        for exclude_last, padding in itertools.product((False, True), (config.INDEX_PAD_VALUE, PAD2, PAD3)):
            if tier == "quick" and ((padding == PAD2 and not exclude_last) or (padding == PAD3 and exclude_last)):
                continue
            if exclude_last and H == 0:
                continue  # no prefix exists, zero-row output; outside the statement
            for api in (("functional", "module") if modules else ("functional",)):
                try:
                    r0, h0 = r_in.clone(), h_in.clone()
                    if api == "functional":
                        out = F.prefix_edit_distances(
                            r_in, h_in, padding=padding, exclude_last=exclude_last, warn=False, **kw
                        )
                    else:
                        mod = M.PrefixEditDistances(
                            padding=padding, exclude_last=exclude_last, warn=False, **kw
                        )
                        if h_in.size(0 if not batch_first else 1) > 0 or not exclude_last:
                            mod(r_in.flip(0), h_in.flip(0))
                        out = mod(r_in, h_in)
                    if not (torch.equal(r0, r_in) and torch.equal(h0, h_in)):
                        raise AssertionError("argument modified in place")
                    kept = out.clone()
                    F.prefix_edit_distances(r_in.flip(0), h_in.flip(0), padding=padding, warn=False, **kw)
                    if not torch.equal(kept, out):
                        raise AssertionError("result of an earlier call changed after a later call (aliased buffer)")
                    if batch_first:
                        out = out.t()
                    rows = H + (0 if exclude_last else 1)
                    if tuple(out.shape) != (rows, N):
                        raise AssertionError(f"shape {tuple(out.shape)} != {(rows, N)}")
                    out = out.t().tolist()
                    err = None
                except Exception as e:
                    err = e
                for n in range(N):
                    er, eh = effs[n]
                    ctx.case(1, 1 if (er != eh and er and eh) else 0)
                    case = dict(base_case, api=api, fn="prefix_edit_distances", padding=padding,
                                exclude_last=exclude_last, ref=pairs[n][0], hyp=pairs[n][1])
                    if err is not None:
                        ctx.violation(
                            {"api": "prefix_edit_distances", "symptom": "raises",
                             "type": type(err).__name__,
                             "zero_dim": ref.size(0) == 0 or hyp.size(0) == 0, "eos_set": eos is not None},
                            case, {"error": str(err)[-400:]})
                        break
                    nvalid = len(eh) + (0 if exclude_last else 1)
                    exp = []
                    for j in range(H + (0 if exclude_last else 1)):
                        if j < nvalid:
                            if norm and len(er) == 0:
                                exp.append(None)
                            else:
                                exp.append(orc[n][j] / (len(er) if norm else 1))
                        else:
                            exp.append(float(padding))
                    bad = [
                        j for j, (e, o) in enumerate(zip(exp, out[n]))
                        if e is not None and not S.close(o, e)
                    ]
                    if bad:
                        ctx.violation(
                            {"api": "prefix_edit_distances", "symptom":
                             "wrong-padding" if all(j >= nvalid for j in bad) else "wrong-distance",
                             "norm": norm, "exclude_last": exclude_last},
                            case, {"expected": exp, "observed": out[n], "bad_positions": bad})


def run_shard(spec, tier, seed):
    ctx = Ctx()
    if "lifecycle" in spec:
        S.lifecycle_pass(ctx, spec["lifecycle"], seed)
        return ctx
    if "large" in spec:
        for gs in S.GLOBAL_STATES:  # the same instance under every global torch state: results must not change
            sub = Ctx()
            with S.global_state(gs):
                _large(sub, *spec["large"], tuple(spec["cost"]), seed, spec.get("id_offset", 0),
                       spec.get("jit", False) and gs == "default")
            for v in sub.violations:
                v["sig"]["global_state"] = gs
            sub.viol_count = type(sub.viol_count)({k.replace("}", ', "global_state": "%s"}' % gs, 1) if k.endswith("}") else k: n
                                                   for k, n in sub.viol_count.items()})
            ctx.merge(sub)
        return ctx
    R, H = spec["R"], spec["H"]
    pairs, ref, hyp = S.pair_batch(R, H)
    pairs_r, ref_r, hyp_r = S.pair_batch(R, H, reverse=True)
    ctx.sample({"R": R, "H": H, "N": len(pairs), "first_pairs": pairs[:3], "last_pair": pairs[-1]})
    ci = 0
    for eos, include_eos in S.eos_cfgs():
        for cost in S.costs(tier) + EXTREME_COSTS:
            ci += 1
            modules = tier == "thorough" or ci % 4 == 0
            if tier == "thorough" or ci % 2 == 0:
                _check_batch(ctx, pairs, ref, hyp, eos, include_eos, cost, tier, "all-pairs", modules)
            if tier == "thorough" or ci % 2 == 1:
                _check_batch(ctx, pairs_r, ref_r, hyp_r, eos, include_eos, cost, tier, "all-pairs-reversed", modules)
    # one pair at a time: batch independence against N == 1
    step = 1 if tier == "thorough" else 7
    sub_costs = S.costs(tier)[:: (2 if tier == "thorough" else 3)]
    if tier == "quick" or R + H <= 6:
        for i in range((seed + R + H) % step, len(pairs), step):
            p = [pairs[i]]
            r1 = ref[:, i : i + 1].contiguous()
            h1 = hyp[:, i : i + 1].contiguous()
            for eos, include_eos in S.eos_cfgs():
                for cost in sub_costs:
                    _check_batch(ctx, p, r1, h1, eos, include_eos, cost, "quick", "single", False)
    return ctx


def replay(case):
    ctx = Ctx()
    if case.get("kind") == "lifecycle":
        S.lifecycle_pass(ctx, [case["module"]], case.get("seed", 0))
        return ctx
    if case.get("kind") == "large":
        _large(ctx, case["R"], case["H"], case["N"], tuple(case["cost"]), case["seed"], case.get("id_offset", 0),
               case.get("jit", False))
        return ctx
    ref = torch.tensor([case["ref"]], dtype=torch.long).t().contiguous().view(len(case["ref"]), 1)
    hyp = torch.tensor([case["hyp"]], dtype=torch.long).t().contiguous().view(len(case["hyp"]), 1)
    pair = [(tuple(case["ref"]), tuple(case["hyp"]))]
    _check_batch(ctx, pair, ref, hyp, case["eos"], case["include_eos"], tuple(case["cost"]),
                 "thorough", "replay", True)
    return ctx
