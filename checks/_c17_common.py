"""C17 shared plumbing: evaluation environment, schedule exploration, corpus menus."""

import itertools
import os
import shutil

import torch

from mc.explore import explore
from mc.runner import h64
from checks._c17_seams import CliSeams, run_cmd, ok, describe, fresh, real_run

IDS = ["u2", "p_0", "u.x", "a1"]  # file order != sorted order; one id starts with the prefix "p_"
IOS = [("", ".pt"), ("p_", ".pt"), ("", ".x"), ("p_", ".x")]
OTHER = {".pt": ".x", ".x": ".pt", "_x.pt": ".x"}
MAX_EXECS = 200  # cap per explored command (4 chunks = 24 orders is the largest enumerated)


BIG_IDS = {"a": 2 ** 31 - 1, "b": 2 ** 31 + 1, "c": 2 ** 24 + 1}  # around the int32 limit / above float32's exact range


def tok2id(seed, big=False):
    """don't-care part: which distinct ids the three tokens get"""
    if big:
        return dict(BIG_IDS)
    return {"a": 1 + seed % 3, "b": 5 + seed % 2, "c": 0}


def strip(name, prefix, suffix):
    """utterance id of a file name (the suffix may be empty)"""
    return name[len(prefix): len(name) - len(suffix)]


def strings(maxlen, alphabet=("a", "b", "c")):
    out = []
    for n in range(maxlen + 1):
        out += [list(p) for p in itertools.product(alphabet, repeat=n)]
    return out


def io_flags(prefix, suffix):
    out = []
    if prefix != "":
        out += ["--file-prefix", prefix]
    if suffix != ".pt":
        out += ["--file-suffix", suffix]
    return out


def distractor_names(prefix, suffix):
    """names that must NOT be selected by (prefix, suffix)"""
    if suffix == "":  # every name ends with the empty suffix: only the prefix can exclude a file
        return ["zz"] if prefix else []
    names = ["zz" + OTHER[suffix]]
    if prefix:
        names += ["zz" + suffix, prefix + "zz" + OTHER[suffix]]
    return names


def save(obj, path):
    os.makedirs(os.path.dirname(path), exist_ok=True)
    torch.save(obj, path)


class Env:
    def __init__(self, ctx, root, tier, seed):
        self.ctx, self.root, self.tier, self.seed = ctx, root, tier, seed
        self.case, self.cid, self.dir = None, None, None
        self.tag = None  # set by wrapping families (global-state runs): keeps their executions distinct
        self.extra_sig, self.case_override = {}, None

    def begin(self, case):
        self.case = case
        self.cid = h64(case)
        self.dir = fresh(os.path.join(self.root, "case"))
        return self.dir

    def p(self, *parts):
        return os.path.join(self.dir, *parts)

    def ev(self, api, sched="w0", nontrivial=True):
        """one command execution evaluated against oracle or baseline"""
        key = h64([api, self.cid, sched] + ([self.tag] if self.tag else []))
        self.ctx.key(key, nontrivial)
        self.ctx.state(key)
        self.ctx.transitions += 1

    def viol(self, sig, detail):
        self.ctx.violation(dict(sig, **self.extra_sig), self.case_override or self.case, detail)

    def raises(self, api, res, **flags):
        sig = {"api": api, "symptom": "raises" if res["exc"] is not None else "error-exit",
               "type": type(res["exc"]).__name__ if res["exc"] is not None else f"rc={res['rc']}"}
        sig.update(flags)
        self.viol(sig, {"error": describe(res)})


def schedules(env, api, func, args, reset, observe, base, chunks=(1, 2), flags=None):
    """Re-runs ``func(args + --num-workers 2 [--mp-chunk-size c])`` under the virtual pool / virtual
    loader for every chunk size and EVERY completion order; each observation must equal ``base``
    (the serial run)."""
    flags = flags or {}
    for cs in chunks:
        wargs = list(args) + ["--num-workers", 2] + ([] if cs is None else ["--mp-chunk-size", cs])

        def run(ch):
            reset()
            with CliSeams(ch) as seams:
                res = run_cmd(func, wargs)
            return res, observe(res), len(seams.pools) + seams.loaders

        n = 0
        for ch, r in explore(run, max_execs=MAX_EXECS):
            if isinstance(r, Exception):
                raise r
            res, obs, used = r
            n += 1
            env.ev(api, ["w2", cs, ch.choices])
            if not used:
                env.ctx.count("worker-seam-not-reached")
            if not ok(res):
                env.raises(api, res, workers=2, **flags)
            elif obs != base:
                env.viol(dict({"api": api, "symptom": "schedule-dependent-output"}, **flags),
                         {"chunk_size": cs, "schedule": ch.choices, "serial": base, "observed": obs})
        if n >= MAX_EXECS:
            env.ctx.capped.append("schedules per command capped at %d" % MAX_EXECS)
        env.ctx.count("schedules:" + api, n)


def real(env, api, func_name, args, observe, base, loader=False):
    """the same command through real worker processes (fresh interpreter), compared with ``base``"""
    res = real_run(func_name, list(args) + ["--num-workers", 2] + ([] if loader else ["--mp-chunk-size", 1]))
    env.ev(api, "real-workers")
    env.ctx.traces += 1
    env.ctx.count("real-worker-runs")
    if res["rc"]:
        env.viol({"api": api, "symptom": "error-exit", "workers": "real", "type": f"rc={res['rc']}"},
                 {"stderr": res["err"][-600:]})
        return
    obs = observe(res)
    if obs != base:
        env.viol({"api": api, "symptom": "real-workers-differ-from-serial"},
                 {"serial": base, "observed": obs})


def fresh_process(env, api, func_name, args, observe, inproc, what):
    """The same call in a brand-new interpreter (serial): what a console invocation would give.  The
    in-process result - obtained after other calls with different arguments - must equal it."""
    res = real_run(func_name, list(args))
    env.ev(api, "fresh-process")
    env.ctx.traces += 1
    env.ctx.count("fresh-process-runs")
    if res["rc"]:
        env.viol({"api": api, "symptom": "error-exit", "workers": "fresh-process", "type": f"rc={res['rc']}"},
                 {"stderr": res["err"][-600:]})
        return
    obs = observe(res)
    if obs != inproc:
        env.viol({"api": api, "symptom": "differs-from-fresh-process", "what": what},
                 {"fresh_process": obs, "in_process_after_other_calls": inproc})


def wipe(path):
    shutil.rmtree(path, ignore_errors=True)
