"""C19 helper: fixed-cardinality sampling (every Bernoulli path), supports, binomial
coefficients and support enumeration."""

import itertools
import math

import torch

import pydrobert.torch.distributions as D
import pydrobert.torch.functional as F

from mc.explore import explore
from mc.runner import h64
from mc.seams import ScriptedRandom
from mc.oracles import estimators as O
from checks._c19_tree import close, _record_tree


def run_srswor(ctx, cfg):
    """cfg: {"api": "functional"|"distribution", "pairs": [[T, L], ...], "out": int|None,
    "sample_shape": [..]}.  Every Bernoulli answer is explored; each path must give exactly L
    ones inside the first T positions, zeros elsewhere; each subset must be reached with
    probability 1/C(T, L) (batch elements and repeated samples are independent: the joint
    probability is the product)."""
    pairs, out, api = cfg["pairs"], cfg.get("out"), cfg["api"]
    ss = cfg.get("sample_shape") or []
    reps = 1
    for s in ss:
        reps *= s
    cid = h64(cfg)
    case = {"kind": "srswor", "cfg": cfg}
    Tmax = max(t for t, _ in pairs)
    width = Tmax if out is None else out
    sig0 = {"api": "simple_random_sampling_without_replacement", "via": api, "out_size_zero": width == 0}
    scalar = len(pairs) == 1 and cfg.get("scalar", False)
    if scalar:
        tt, gg = torch.tensor(pairs[0][0]), torch.tensor(pairs[0][1])
    else:
        tt = torch.tensor([t for t, _ in pairs])
        gg = torch.tensor([l for _, l in pairs])
    bshape = tuple(tt.shape)

    def run(ch):
        with ScriptedRandom(ch):
            if api == "functional":
                b = F.simple_random_sampling_without_replacement(tt, gg, out)
                dist = None
            else:
                dist = D.SimpleRandomSamplingWithoutReplacement(gg, tt, out)
                b = dist.sample(ss)
        return b, dist

    want_p = 1.0
    for t, l in pairs:
        want_p /= O.choose(t, l) ** reps
    seen = {}
    paths = 0
    for ch, res in explore(run):
        paths += 1
        _record_tree(ctx, cid, ch)
        if isinstance(res, Exception):
            ctx.violation(dict(sig0, symptom="raises", type=type(res).__name__), dict(case, choices=ch.choices),
                          {"error": repr(res)[-300:]})
            break
        b, dist = res
        exp_shape = tuple(ss if api == "distribution" else []) + bshape + (width,)
        if tuple(b.shape) != exp_shape:
            ctx.violation(dict(sig0, symptom="wrong-shape"), dict(case, choices=ch.choices),
                          {"shape": list(b.shape), "expected": list(exp_shape)})
            break
        rows = b.reshape(reps, len(pairs), width).tolist()
        bad = None
        for r in range(reps):
            for n, (t, l) in enumerate(pairs):
                row = rows[r][n]
                if any(v not in (0.0, 1.0) for v in row):
                    bad = "non-binary"
                elif sum(row[:t]) != l:
                    bad = "wrong-number-of-ones"
                elif any(v != 0.0 for v in row[t:]):
                    bad = "one-in-padding"
        if bad:
            ctx.violation(dict(sig0, symptom=bad), dict(case, choices=ch.choices), {"sample": rows})
            continue
        key = repr(rows)
        if key in seen:
            ctx.violation(dict(sig0, symptom="two-paths-same-sample"), dict(case, choices=ch.choices), {"sample": rows})
        seen[key] = ch.prob
        if not close(ch.prob, want_p, 1e-5):
            ctx.violation(dict(sig0, symptom="subset-probability-not-uniform"), dict(case, choices=ch.choices),
                          {"sample": rows, "expected": want_p, "observed": ch.prob})
        if dist is not None:
            try:
                ok = bool(dist.support.check(b).all())
                lp = dist.log_prob(b).double().reshape(reps, len(pairs)).tolist()
            except Exception as ex:  # noqa: BLE001
                ctx.violation(dict(sig0, symptom="raises", where="log_prob/support", type=type(ex).__name__),
                              dict(case, choices=ch.choices), {"error": repr(ex)[-300:]})
                break
            if not ok:
                ctx.violation(dict(sig0, symptom="sample-outside-support"), dict(case, choices=ch.choices), {"sample": rows})
            for r in range(reps):
                for n, (t, l) in enumerate(pairs):
                    if not close(lp[r][n], -math.log(O.choose(t, l)), 1e-5):
                        ctx.violation(dict(sig0, symptom="log_prob != -log C(T,L)"), dict(case, choices=ch.choices),
                                      {"T": t, "L": l, "observed": lp[r][n]})
    else:
        n_expected = 1
        for t, l in pairs:
            n_expected *= O.choose(t, l) ** reps
        if len(seen) != n_expected:
            ctx.violation(dict(sig0, symptom="not-every-subset-reached"), case,
                          {"reached": len(seen), "expected": n_expected})
        ctx.outcome(("srs", pairs, width, len(seen)))
    ctx.case(paths, nontrivial=0)
    ctx.key(("srswor", cid), nontrivial=any(0 < l < t for t, l in pairs))
    ctx.traces += 1
    ctx.count("trees_srswor")
    if len(pairs) == 1 and pairs[0] == [4, 2] and api == "distribution" and not ss:
        ctx.sample({"config": cfg, "paths": paths, "subset_probabilities": sorted(seen.values())})


def run_support_sum(ctx, cfg):
    """sum over the enumerated support of exp(log_prob) == 1; the enumerated support is exactly
    the set of admissible vectors; every enumerated element passes support.check"""
    T, L, out, batch = cfg["T"], cfg["L"], cfg.get("out"), cfg.get("batch", 0)
    case = {"kind": "support_sum", "cfg": cfg}
    sig0 = {"api": "SimpleRandomSamplingWithoutReplacement", "out_size_zero": (T if out is None else out) == 0}
    ctx.case(1, nontrivial=1 if 0 < L < T else 0)
    try:
        if batch:
            dist = D.SimpleRandomSamplingWithoutReplacement(torch.full((batch,), L), torch.full((batch,), T), out)
        else:
            dist = D.SimpleRandomSamplingWithoutReplacement(L, T, out)
        if not dist.has_enumerate_support:
            ctx.violation(dict(sig0, symptom="has_enumerate_support false for equal counts"), case, None)
            return
        sup = dist.enumerate_support()
        lp = dist.log_prob(sup).double()
        tot = lp.exp().sum(0).reshape(-1).tolist()
        chk = bool(dist.support.check(sup).all())
        nb = 1
        for d_ in sup.shape[1:-1]:
            nb *= d_
        rows = sup.reshape(sup.shape[0], nb, sup.shape[-1])[:, 0].tolist()
    except Exception as ex:  # noqa: BLE001
        ctx.violation(dict(sig0, symptom="raises", type=type(ex).__name__), case, {"error": repr(ex)[-300:]})
        return
    want = O.subsets(T, L, out)
    got = sorted(tuple(int(v) for v in r) for r in rows)
    if got != sorted(want):
        ctx.violation(dict(sig0, symptom="enumerated-support-wrong"), case, {"expected": want, "observed": got})
    if not chk:
        ctx.violation(dict(sig0, symptom="enumerated-element-outside-support"), case, None)
    if any(not close(x, 1.0, 1e-5) for x in tot):
        ctx.violation(dict(sig0, symptom="probabilities-do-not-sum-to-one"), case, {"sum": tot})
    else:
        ctx.outcome(("sup", T, L, len(want)))


def run_torch_support_sum(ctx, cfg):
    """Harness integrity for what the estimator trees trust: the plain-Python oracle's
    probabilities and analytic d log P / d theta agree with torch.distributions' log_prob and its
    autograd Jacobian on the whole support, and the probabilities sum to one.  A disagreement is a
    harness error (it would make every tree comparison meaningless), not a verdict."""
    from checks._c19_tree import build_dist, DT, oracle_spec, support_tensor
    from mc.explore import HarnessError

    ctx.case(1)
    ps = cfg["prop"]
    support, mass, dlog = O.table(oracle_spec(ps))
    dist, theta = build_dist(ps, DT["float64"])
    sup = support_tensor(ps, support, torch.float64)
    lp = dist.log_prob(sup)
    if ps["kind"] == "bern_elem":
        lp = lp.sum(-1)
    got = lp.exp().tolist()
    if any(not close(a, b, 1e-9) for a, b in zip(got, mass)) or not close(sum(mass), 1.0, 1e-12):
        raise HarnessError(f"oracle probabilities disagree with torch.distributions: {ps} {got} {mass}")
    for s_, row in enumerate(dlog):
        if mass[s_] == 0.0:
            continue  # log-probability -inf: no derivative to compare
        g, = torch.autograd.grad(lp[s_], theta, retain_graph=True)
        skip = {int(i) for i in (ps.get("masked") or [])} if ps.get("par") == "probs" else set()
        if any(not close(a, b, 1e-7) for j, (a, b) in enumerate(zip(g.tolist(), row)) if j not in skip):
            raise HarnessError(f"oracle d log P / d theta disagrees with autograd: {ps} {g.tolist()} {row}")
    ctx.count("oracle_cross_checks")


def run_binomial(ctx, cfg):
    """binomial_coefficient(n, k) for all 0 <= n, k <= nmax, as one broadcast call, as one call
    per row (max length differs, so the factorial/recursion branch may differ) and one by one"""
    nmax = cfg["nmax"]
    C = O.pascal(nmax)
    case0 = {"kind": "binomial", "cfg": cfg}
    sig0 = {"api": "binomial_coefficient"}
    n = torch.arange(nmax + 1).view(-1, 1)
    k = torch.arange(nmax + 1).view(1, -1)
    calls = [("broadcast", n, k)]
    for i in range(nmax + 1):
        calls.append((f"row{i}", torch.full((nmax + 1,), i), torch.arange(nmax + 1)))
    if cfg.get("single"):
        for i in range(nmax + 1):
            for j in range(nmax + 1):
                calls.append((f"single{i},{j}", torch.tensor(i), torch.tensor(j)))
    for name, a, b in calls:
        try:
            got = F.binomial_coefficient(a, b)
        except Exception as ex:  # noqa: BLE001
            ctx.case(1)
            ctx.violation(dict(sig0, symptom="raises", type=type(ex).__name__), dict(case0, call=name),
                          {"error": repr(ex)[-300:]})
            continue
        aa, bb = torch.broadcast_tensors(a, b)
        flat = list(zip(aa.reshape(-1).tolist(), bb.reshape(-1).tolist(), got.reshape(-1).tolist()))
        ctx.case(len(flat), nontrivial=sum(1 for x, y, _ in flat if 0 < y < x) if name == "broadcast" else 0)
        for x, y, g in flat:
            if g != C[x][y]:
                ctx.violation(dict(sig0, symptom="wrong-value", branch="recursion" if int(aa.max()) > 20 else "factorial"),
                              dict(case0, call=name, n=x, k=y), {"expected": C[x][y], "observed": g})
                break
        else:
            if name == "broadcast":
                ctx.outcome(("binom", nmax, sum(sum(r) for r in C)))


def run_enumerate(ctx, cfg):
    """enumerate_binary_sequences_with_cardinality (int and tensor forms), enumerate_binary_sequences,
    enumerate_vocab_sequences: exactly the admissible set, no duplicates"""
    case = {"kind": "enumerate", "cfg": cfg}
    Lmax = cfg["Lmax"]
    sig0 = {"api": "enumerate_binary_sequences_with_cardinality"}
    for T in range(Lmax + 1):
        for L in range(T + 2):
            ctx.case(1, nontrivial=1 if 0 < L < T else 0)
            try:
                got = F.enumerate_binary_sequences_with_cardinality(T, L)
            except Exception as ex:  # noqa: BLE001
                ctx.violation(dict(sig0, form="int", symptom="raises", type=type(ex).__name__), dict(case, T=T, L=L),
                              {"error": repr(ex)[-300:]})
                continue
            want = sorted(O.subsets(T, L))
            g = sorted(tuple(r) for r in got.tolist())
            if g != want or tuple(got.shape) != (len(want), T):
                ctx.violation(dict(sig0, form="int", symptom="wrong-set"), dict(case, T=T, L=L),
                              {"expected": want, "observed": got.tolist()})
    # tensor form: all (T, L <= T) pairs in one broadcast call
    pairs = [(T, L) for T in range(Lmax + 1) for L in range(T + 1)]
    tt = torch.tensor([p[0] for p in pairs])
    ll = torch.tensor([p[1] for p in pairs])
    ctx.case(len(pairs), nontrivial=sum(1 for t, l in pairs if 0 < l < t))
    try:
        sup, binom = F.enumerate_binary_sequences_with_cardinality(tt, ll)
        for i, (T, L) in enumerate(pairs):
            nb = int(binom[i])
            rows = sorted(tuple(r) for r in sup[i, :nb, :T].tolist())
            if nb != O.choose(T, L) or rows != sorted(O.subsets(T, L)):
                ctx.violation(dict(sig0, form="tensor", symptom="wrong-set"), dict(case, T=T, L=L),
                              {"binom": nb, "observed": rows})
                break
    except Exception as ex:  # noqa: BLE001
        ctx.violation(dict(sig0, form="tensor", symptom="raises", type=type(ex).__name__), case,
                      {"error": repr(ex)[-300:]})
    for length in range(Lmax + 1):
        for vocab in range(1, 4):
            ctx.case(1, nontrivial=1 if length and vocab > 1 else 0)
            try:
                got = F.enumerate_vocab_sequences(length, vocab).tolist()
                if vocab == 2:
                    got2 = F.enumerate_binary_sequences(length).tolist()
                else:
                    got2 = got
            except Exception as ex:  # noqa: BLE001
                ctx.violation({"api": "enumerate_vocab_sequences", "symptom": "raises", "type": type(ex).__name__},
                              dict(case, length=length, vocab=vocab), {"error": repr(ex)[-300:]})
                continue
            want = sorted(itertools.product(range(vocab), repeat=length))
            if sorted(tuple(r) for r in got) != want or got2 != got:
                ctx.violation({"api": "enumerate_vocab_sequences", "symptom": "wrong-set"},
                              dict(case, length=length, vocab=vocab), {"observed": got})
    ctx.outcome(("enum", Lmax))
