"""C20 - attention: masked convex combination, blind to masked positions, permutation
invariant, broadcasting == expansion, multi-headed == head composition (E1)."""

import itertools
import random

import torch

import pydrobert.torch.modules as M

import copy

from mc.runner import Ctx
from mc.oracles import attention as O
from mc import guards as GD

PROP = "C20"
LEVEL = "exploration"
RULE = (
    "shape families: key rank n in 2..4 (n-2 batch axes), sequence axis at every legal index in "
    "non-negative spelling and, where the documented range [-n+1, n-2] \\ {-1} admits it, negative "
    "spelling; per batch axis a full size s in {1,2,3} and EVERY assignment of {1,s} to (query, key, "
    "value, mask) with at least one s (31 patterns per axis; rank 4 quick: both axes from {1,2} or one "
    "axis 3 and the other 1; thorough: all 961); T in 1..3; masks: None, and every mask with >=1 kept "
    "position per row - for a mask shared by the batch all 2^T-1, for per-batch masks every joint "
    "assignment while (2^T-1)^rows <= 9 (thorough: 49), otherwise a rotation design in which every row sees every "
    "mask and neighbouring rows differ (rows are independent: an output row reads only its own mask "
    "row). Seed-valued q/k/v on the grid k/4 (one value coordinate constant so that the weights must sum "
    "to one). Flavours: dot-product (unscaled, scaled), generalised (bias both), concat (bias both, "
    "hidden 3), multi-headed (heads 1-2 x wrapped dot/generalised/concat, non-negative dim only as its "
    "constructor documents; every subset of the four bias flags on the rank-2 families with T>=2 and the "
    "plain batched rank-3 family with T=2, elsewhere all/none alternating (thorough: both); quick tier "
    "rank 4: multi-headed only on families whose axis patterns come from a menu of 6), parameters "
    "seed-valued on the grid k/4 (all projections exact in float32). Per case: "
    "convexity per coordinate; +-3e4 garbage at every key/value entry all of whose uses are masked "
    "(2 sign patterns); every non-identity permutation of the sequence axis applied to key, value, mask; "
    "query expanded; everything expanded; mask None == all-True; negative spelling == non-negative "
    "spelling; multi-headed == oracle composition from the module's own weights; bias parameters present "
    "exactly where requested for all 16 flag subsets x heads x wrapped flavour. Guard passes "
    "(mc/guards.py): (1) after EVERY forward of every pass query, key, value and mask are compared with "
    "clones taken before the call; (2) the base result of every case is kept and must be unchanged after "
    "all later calls of the case on the same module object; (3)+(5) on the 687 families of rank 2, rank 3 "
    "with batch size <=2 and rank 4 with axis patterns from the menu of 6, for every mask and flavour: "
    "query/key/value/mask as offset views and as transposed-dense views, float64 inputs on a float64 copy "
    "of the module, and inf / -inf / NaN KEYS at every masked key entry; (4) the module objects are "
    "long-lived (one per flavour and dim per worker, shared by all shapes, T and masks), and a history "
    "pass drives ONE fresh object per (flavour, dim) (6 single-head + 3 multi-headed) through every third "
    "of those families with rank, batch shape, T and mask changing, train/eval alternating - each result "
    "== a fresh object's; (6b) LONG SEQUENCES: key (3,1300,2,K) (thorough also T=2600, 520) whose batch rows are "
    "left-padded (every leading block wholly masked), right-padded, a single kept position, all kept, sparse - all "
    "relations, every flavour; (6) one larger instance: key (7,50,5,K), per-row / shared / no mask, full and "
    "broadcast query, dim 1 and -3, all flavours incl. 4 heads (3 fixed permutations instead of 50!). "
    "On the same 687 families additionally: (7) argument identity - one tensor object as key and value "
    "(all 16 bias-flag subsets on the flag families), and the query as a view into the key's storage where "
    "the shapes allow, each == the call with separate copies; (8) query/key/value requiring grad (no no_grad, "
    "backward run) and torch.inference_mode == plain; scale: the convexity / masked-content / permutation "
    "/ negative-dim / composition clauses again with query and key multiplied by 1e3 and by 1e5 (scores "
    "of 1e6..1e10 are ordinary finite inputs); (9)/(10) a modes pass per flavour (6 single-head + 3 "
    "multi-headed): torch.jit.script, torch.jit.trace (traced on the first input of each (dim, rank, mask "
    "given) class, run on the others) and modules built with float64 as default dtype on every fourth of "
    "those families == the plain float32 module. "
    "(14) lifecycle pass per flavour (6 single-head + 3 multi-headed incl. a wrapped concat): for every dim "
    "spelling (0,1,2,-2,-3; multi-headed non-negative) every guards.lifecycle_variants object (deepcopy, pickle, "
    "torch.save, used+deepcopy, eval+deepcopy, state_dict, state_dict-after-use, double-float, "
    "state_dict-into-other with other weights used before in eval/no_grad; plus load_state_dict and in-place "
    "parameter copies into a module that stays in eval mode after a no_grad call) on up to 10 families (every rank "
    "that has the spelling, T in {2,3}, batch sizes 1..2) x {a mask, no mask} == a fresh module with the "
    "same weights. History pass: ONE object per (flavour, dim); reassigning the `__constants__` attribute dim "
    "on a live object is executed and counted (constants_reassigned_honoured/ignored), never judged. "
    "Cases distinct by construction; non-trivial = T>=2."
)
ASSUMPTIONS = [
    "small scope: batch sizes <=3, T<=3, feature sizes 2-3, hidden 3, heads <=2; float32, tolerance 1e-5",
    "'replaced by anything': masked KEYS may hold anything incl. inf/NaN (guard pass) and +-3e4 (everywhere); "
    "masked VALUES any finite numbers (+-3e4) - a non-finite masked value turns 0*inf into NaN in any weighted "
    "sum and the statement is not read as promising otherwise",
    "a key/value entry shared by several broadcast rows counts as masked only if it is masked in all of them",
    "key, value and mask carry the same T (the class docstring); broadcasting along the sequence axis itself "
    "is not enumerated",
    "dim == -1 is excluded (the documented range says 'and not -1')",
    "convexity is not demanded from the multi-headed flavour (its output is a projection)",
    "TorchScript: torch.jit.script / torch.jit.trace of the modules as tests/test_attn.py builds them; "
    "PYTORCH_JIT=1 import-time scripting and CUDA variants not explored",
    "scaled copies: finite scale factors up to 1e5 (scores up to ~1e11, far from float32 overflow); the "
    "broadcasting==expansion clauses are not repeated at scale",
]
BUDGET_S = {"quick": 240, "thorough": 2400}

QMAX = KMAX = 3
DV = 2
G = 3.0e4
TOL = 1e-5

SINGLE_CFGS = [
    {"kind": "dot", "scaled": False, "Q": 2, "K": 2},
    {"kind": "dot", "scaled": True, "Q": 2, "K": 2},
    {"kind": "general", "bias": False, "Q": 2, "K": 3},
    {"kind": "general", "bias": True, "Q": 2, "K": 3},
    {"kind": "concat", "bias": False, "Q": 3, "K": 2},
    {"kind": "concat", "bias": True, "Q": 3, "K": 2},
]
WRAPPED = [
    {"kind": "dot", "scaled": True, "Q": 2, "K": 2},
    {"kind": "general", "bias": True, "Q": 2, "K": 1},
    {"kind": "concat", "bias": True, "Q": 1, "K": 2},
]
API = {"dot": "DotProductSoftAttention", "general": "GeneralizedDotProductSoftAttention",
       "concat": "ConcatSoftAttention", "mha": "MultiHeadedAttention"}
PROJ = ("WQ", "WK", "WV", "WC")


def _mha_cfg(heads, wi, flags):
    return {"kind": "mha", "heads": heads, "wrapped": WRAPPED[wi], "flags": list(flags),
            "Q": 3, "K": 2, "d_v": 2 if wi != 1 else None, "out": 3 if wi == 0 else None}


# ============================================================================ modules
_CACHE = {}


def _fill(mod, seed, tag):
    rng = random.Random(f"c20-par-{seed}-{tag}")
    with torch.no_grad():
        for name, p in sorted(mod.named_parameters()):
            vals = [rng.randint(-6, 6) / 4.0 for _ in range(p.numel())]
            p.copy_(torch.tensor(vals, dtype=p.dtype).view(p.shape))


def _build_single(cfg, dim):
    kind = cfg["kind"]
    if kind == "dot":
        return M.DotProductSoftAttention(cfg["K"], dim, cfg["K"] ** -0.5 if cfg["scaled"] else 1.0)
    if kind == "general":
        return M.GeneralizedDotProductSoftAttention(cfg["Q"], cfg["K"], dim, cfg["bias"])
    return M.ConcatSoftAttention(cfg["Q"], cfg["K"], dim, cfg["bias"], 3)


def _module(cfg, dim, seed, double=False):
    """Long-lived module objects: one per (flavour, dim) and worker, shared by every shape, T and
    mask of the shard (so every relation below is also a statement about a re-used object)."""
    key = (repr(sorted(cfg.items(), key=str)), dim, seed, double)
    if key in _CACHE:
        return _CACHE[key]
    if double:
        mod = _new_module(cfg, dim, seed).double()  # built anew: no copy operation hidden in this clause
    else:
        mod = _new_module(cfg, dim, seed)
    _CACHE[key] = mod
    return mod


def _new_module(cfg, dim, seed):
    """A fresh object with the seed-valued parameters of this flavour."""
    tag = repr(sorted((k, v) for k, v in cfg.items()))  # parameters do not depend on dim
    if cfg["kind"] == "mha":
        w = cfg["wrapped"]
        single = _build_single(w, dim)
        f = cfg["flags"]
        mod = M.MultiHeadedAttention(cfg["Q"], cfg["K"], DV, cfg["heads"], single, cfg["out"], cfg["d_v"],
                                     bias_WQ=f[0], bias_WK=f[1], bias_WV=f[2], bias_WC=f[3])
    else:
        mod = _build_single(cfg, dim)
    _fill(mod, seed, tag)
    mod.eval()
    return mod


# ===================================================================== shape enumeration
def _axis_patterns():
    out = [(1, (1, 1, 1, 1))]
    for s in (2, 3):
        for pat in itertools.product((1, s), repeat=4):
            if max(pat) > 1:
                out.append((s, pat))
    return out


def _batch_patterns(nb, tier):
    for combo in itertools.product(_axis_patterns(), repeat=nb):
        sizes = [c[0] for c in combo]
        if tier == "quick" and nb == 2:
            if (sizes[0] == 3 and sizes[1] > 1) or (sizes[1] == 3 and sizes[0] > 1):
                continue
        yield [c[1] for c in combo]


def _families(tier):
    """Every (rank, batch patterns, sequence position, spelling, T)."""
    for rank in (2, 3, 4):
        nb = rank - 2
        for pats in _batch_patterns(nb, tier):
            for tpos in range(nb + 1):
                dims = [tpos]
                neg = tpos - rank  # index into key, counted from the end
                if -rank + 1 <= neg <= -2:
                    dims.append(neg)
                for dim in dims:
                    for T in (1, 2, 3):
                        yield {"rank": rank, "pats": [list(p) for p in pats], "tpos": tpos, "dim": dim, "T": T}


def _shapes(fam):
    pats, tpos, T = fam["pats"], fam["tpos"], fam["T"]

    def with_t(sizes):
        return tuple(sizes[:tpos]) + (T,) + tuple(sizes[tpos:])

    q = tuple(p[0] for p in pats)
    k = with_t([p[1] for p in pats])
    v = with_t([p[2] for p in pats])
    m = with_t([p[3] for p in pats])
    return q, k, v, m


def _data(fam, seed):
    qs, ks, vs, ms = _shapes(fam)
    rng = random.Random(f"c20-data-{seed}-{fam['rank']}-{fam['pats']}-{fam['tpos']}-{fam['T']}")

    def fill(shape):
        n = 1
        for s in shape:
            n *= s
        return torch.tensor([rng.randint(-8, 8) / 4.0 for _ in range(n)], dtype=torch.float32).view(shape)

    q = fill(qs + (QMAX,))
    k = fill(ks + (KMAX,))
    v = fill(vs + (DV,))
    v[..., DV - 1] = 1.0  # a constant coordinate: any convex combination must return it exactly
    return q, k, v, ms


def _mask_variants(m_shape, tpos, tier):
    """None, then boolean tensors of shape m_shape with >=1 kept position in every row."""
    yield None
    T = m_shape[tpos]
    nm = 2 ** T - 1
    rest = tuple(m_shape[:tpos]) + tuple(m_shape[tpos + 1:])
    rows = list(O.indices(rest))
    cap = 9 if tier == "quick" else 49
    if nm ** len(rows) <= cap:
        assigns = itertools.product(range(nm), repeat=len(rows))
    else:
        assigns = [[(j + b) % nm for b in range(len(rows))] for j in range(nm)]
        if tier != "quick":
            assigns += [[(j + 2 * b + 1) % nm for b in range(len(rows))] for j in range(nm)]
    for a in assigns:
        m = torch.zeros(m_shape, dtype=torch.bool)
        for r, code in zip(rows, a):
            bits = code + 1
            for t in range(T):
                if (bits >> t) & 1:
                    m[O.insert(r, tpos, t)] = True
        yield m


# ========================================================================== one case
def _close_t(a, b):
    return a.shape == b.shape and bool(((a - b).abs() <= TOL * (1 + b.abs())).all())


def _call(mod, q, k, v, mask):
    with torch.no_grad():
        return mod(q, k, v, mask)


def _mha_reference(cfg, mod, q, k, v, mask):
    """project -> per-head wrapped attention -> concatenate -> project, with the module's own
    weights read as plain lists; only the wrapped single-head module itself is executed."""
    H = cfg["heads"]
    w = cfg["wrapped"]
    dq, dk = w["Q"], w["K"]
    dv = cfg["d_v"] if cfg["d_v"] is not None else max(1, DV // H)

    def wb(name):
        lin = getattr(mod, name)
        return lin.weight.tolist(), (lin.bias.tolist() if lin.bias is not None else None)

    qp = O.project(q.tolist(), q.dim(), *wb("WQ"))
    kp = O.project(k.tolist(), k.dim(), *wb("WK"))
    vp = O.project(v.tolist(), v.dim(), *wb("WV"))
    heads = []
    for h in range(H):
        qh = torch.tensor(O.head_slice(qp, q.dim(), h, dq), dtype=torch.float32)
        kh = torch.tensor(O.head_slice(kp, k.dim(), h, dk), dtype=torch.float32)
        vh = torch.tensor(O.head_slice(vp, v.dim(), h, dv), dtype=torch.float32)
        heads.append(_call(mod.single_head_attention, qh, kh, vh, mask).tolist())
    rank_out = q.dim()
    cat = O.concat_heads(heads, rank_out)
    return torch.tensor(O.project(cat, rank_out, *wb("WC")), dtype=torch.float32)


def _prepare(tpos, q, k, v, mask):
    """Everything that depends on the input only (not on the flavour): problem shapes, oracle
    bounds, replaceable entries, transformed inputs.  Feature sizes of q/k are irrelevant here."""
    T = k.shape[tpos]
    m_shape = None if mask is None else tuple(mask.shape)
    _, full, out_shape = O.shapes(tuple(q.shape), tuple(k.shape), tuple(v.shape), m_shape, tpos)
    rest = tuple(full[:tpos]) + tuple(full[tpos + 1:])
    prep = {"T": T, "full": full, "out_shape": out_shape, "rest": rest, "m_shape": m_shape}
    prep["bounds"] = O.kept_bounds(v.tolist(), tuple(v.shape), None if mask is None else mask.tolist(),
                                   m_shape, full, tpos)
    if mask is not None:
        ml = mask.tolist()
        prep["rk"] = sorted(O.replaceable(tuple(k.shape[:-1]), ml, m_shape, full))
        prep["rv"] = sorted(O.replaceable(tuple(v.shape[:-1]), ml, m_shape, full))
    else:
        ones_shape = [1] * (k.dim() - 1)
        ones_shape[tpos] = T
        prep["ones"] = torch.ones(ones_shape, dtype=torch.bool)
    if T <= 3:
        prep["perms"] = [torch.tensor(p) for p in itertools.permutations(range(T)) if list(p) != list(range(T))]
    else:  # larger instance: reversal, rotation, one transposition
        ident = list(range(T))
        prep["perms"] = [torch.tensor(ident[::-1]), torch.tensor(ident[1:] + ident[:1]),
                         torch.tensor([1, 0] + ident[2:])]
    return prep


def _same_values(a, b):
    return a.shape == b.shape and (torch.equal(a, b) or bool(((a == b) | ((a != a) & (b != b))).all()))


SCALES = (1.0e3, 1.0e5)


def _eval_case(ctx, cfg, seed, tpos, dim, q, k, v, mask, prep=None, extra=False, relations="all"):
    """All relations of the property for one (flavour, input) pair.  q/k/v already have the
    flavour's feature sizes."""
    kind = cfg["kind"]
    api = API[kind]
    if prep is None:
        prep = _prepare(tpos, q, k, v, mask)
    T, full, out_shape, rest = prep["T"], prep["full"], prep["out_shape"], prep["rest"]
    ctx.case(1, 1 if T >= 2 else 0)

    def case():
        return {"cfg": cfg, "seed": seed, "tpos": tpos, "dim": dim, "q": q.tolist(), "k": k.tolist(),
                "v": v.tolist(), "mask": None if mask is None else mask.tolist(),
                "shapes": [list(q.shape), list(k.shape), list(v.shape),
                           None if mask is None else list(mask.shape)], "extra": extra, "relations": relations}

    def sig(m_, **kw):
        return dict({"api": api, "mask_given": m_ is not None, "neg_dim": dim < 0}, **kw)

    try:
        mod = _module(cfg, dim, seed)
    except Exception as e:
        ctx.violation(sig(mask, symptom="constructor-raises", type=type(e).__name__), case(),
                      {"error": str(e)[-300:]})
        return

    def run(sym, mod_, q_, k_, v_, m_):
        args = [t for t in (q_, k_, v_, m_) if t is not None]
        clones = [t.clone() for t in args]
        try:
            out = _call(mod_, q_, k_, v_, m_)
        except Exception as e:
            ctx.violation(sig(m_, symptom="raises", type=type(e).__name__, during=sym), case(),
                          {"error": str(e)[-300:]})
            return None
        for n, (t, c) in enumerate(zip(args, clones)):  # arguments (incl. the mask) unchanged
            if not _same_values(t, c):
                ctx.violation(sig(m_, symptom="argument-modified", during=sym), case(),
                              {"argument": n, "before": c.tolist(), "after": t.tolist()})
                return None
        return out

    base = run("base", mod, q, k, v, mask)
    if base is None:
        return
    base_kept = base.clone()  # must survive every later call on the same module object
    exp_shape = out_shape if kind != "mha" else out_shape[:-1] + (cfg["out"] if cfg["out"] is not None else DV,)
    if tuple(base.shape) != tuple(exp_shape):
        ctx.violation(sig(mask, symptom="wrong-shape"), case(),
                      {"expected": exp_shape, "observed": tuple(base.shape)})
        return

    def same(sym, other, m_, extra=None, ref=None):
        ref = base if ref is None else ref
        if other is None:
            return False
        if not _close_t(other, ref):
            ctx.violation(sig(m_, symptom=sym), case(),
                          dict(extra or {}, base=ref.tolist(), other=other.tolist()))
            return False
        return True

    q_x = q.expand(rest + (q.shape[-1],)).contiguous() if tuple(q.shape[:-1]) != rest else None
    all_x = None
    if (tuple(k.shape[:-1]) != full or tuple(v.shape[:-1]) != full or q_x is not None or
            (mask is not None and tuple(mask.shape) != full)):
        all_x = (q if q_x is None else q_x, k.expand(full + (k.shape[-1],)).contiguous(),
                 v.expand(full + (v.shape[-1],)).contiguous(),
                 None if mask is None else mask.expand(full).contiguous())

    # ---- negative spelling == non-negative spelling, on the input as given and on its expanded
    #      forms (checked first; when it fails every other relation fails as a consequence)
    if dim < 0:
        sym = "negative-dim-differs-from-equivalent-nonnegative-dim"
        modp = _module(cfg, tpos, seed)
        forms = [("as-given", (q, k, v, mask))]
        if q_x is not None:
            forms.append(("expanded-query", (q_x, k, v, mask)))
        if all_x is not None:
            forms.append(("expanded-all", all_x))
        for name, args in forms:
            neg = base if name == "as-given" else run("neg-" + name, mod, *args)
            pos = run("nonneg-" + name, modp, *args)
            if neg is None or pos is None:
                return
            if not same(sym, neg, mask, {"equivalent_dim": tpos, "form": name}, ref=pos):
                return
    if not bool(torch.isfinite(base).all()):
        ctx.violation(sig(mask, symptom="non-finite-output"), case(), {"observed": base.tolist()})
        return
    # ---- multi-headed == composition / single head: convexity
    if kind == "mha":
        try:
            ref = _mha_reference(cfg, mod, q, k, v, mask)
        except Exception as e:
            ctx.violation(sig(mask, symptom="raises", type=type(e).__name__, during="per-head reference"),
                          case(), {"error": str(e)[-300:]})
            return
        if not same("differs-from-head-composition", ref, mask):
            return
    else:
        got = base.tolist()
        # a float32 sum of T weights is only good to about T * 2^-24: on the long-sequence instances the bound is widened
        # accordingly (a constant coordinate 1.0 over 2600 positions comes out as 0.99998)
        tolT = max(TOL, 1.2e-7 * T)
        for oidx, (lo, hi) in prep["bounds"].items():
            x = O.bget(got, out_shape, oidx)
            if not (lo - tolT * (1 + abs(lo)) <= x <= hi + tolT * (1 + abs(hi))):
                ctx.violation(sig(mask, symptom="outside-kept-value-range", constant_coordinate=lo == hi),
                              case(), {"index": oidx, "min": lo, "max": hi, "observed": x})
                return
    ctx.outcome([round(x * 256) for x in base.flatten().tolist()[:8]])
    # ---- mask None == all True
    if mask is None:
        ones = prep["ones"]
        if not same("mask-None-differs-from-all-True", run("all-true", mod, q, k, v, ones), ones):
            return
    else:
        # ---- blind to masked positions
        rk, rv = prep["rk"], prep["rv"]
        if rk or rv:
            ctx.count("cases with replaceable masked entries")
            for sign in (1.0, -1.0):
                kg, vg = k.clone(), v.clone()
                for n, idx in enumerate(rk):
                    kg[idx] = sign * G * (1.0 if n % 2 == 0 else -1.0)
                for n, idx in enumerate(rv):
                    vg[idx] = -sign * G * (1.0 if n % 2 == 0 else -1.0)
                if not same("depends-on-masked-content", run("garbage", mod, q, kg, vg, mask), mask,
                            {"sign": sign}):
                    return
    # ---- permutation of the sequence positions
    for ix in prep["perms"]:
        mp = None if mask is None else mask.index_select(tpos, ix)
        if not same("depends-on-sequence-order",
                    run("permuted", mod, q, k.index_select(tpos, ix), v.index_select(tpos, ix), mp), mask,
                    {"perm": ix.tolist()}):
            return
    # ---- broadcasting == expansion
    if relations == "core":
        q_x = all_x = None
    if q_x is not None:
        ctx.count("cases with a broadcast query")
        if not same("broadcast-query-differs-from-expanded-query",
                    run("expanded-query", mod, q_x, k, v, mask), mask):
            return
    if all_x is not None:
        if not same("broadcast-differs-from-everything-expanded", run("expanded-all", mod, *all_x), mask):
            return
    # ---- guard passes on a reduced set of families (mc/guards.py)
    if extra:
        # memory layouts: query, key, value and mask as offset views / transposed-dense views
        for name in ("offset-view", "transposed-dense"):
            def rl(t):
                return None if t is None else dict(GD.layouts(t)).get(name, t)
            if not same("memory-layout-changes-result", run(name, mod, rl(q), rl(k), rl(v), rl(mask)), mask,
                        {"layout": name}):
                return
        # float64 inputs on a float64 copy of the module
        out64 = run("float64", _module(cfg, dim, seed, True), q.double(), k.double(), v.double(), mask)
        if out64 is None or not same("float64-differs-from-float32", out64.float(), mask):
            return
        # masked KEYS may hold anything, also non-finite values (values stay finite, see ASSUMPTIONS)
        if mask is not None and prep["rk"]:
            kg = k.clone()
            for n, idx in enumerate(prep["rk"]):
                kg[idx] = (float("inf"), float("-inf"), float("nan"))[n % 3]
            if not same("depends-on-masked-content", run("non-finite-keys", mod, q, kg, v, mask), mask,
                        {"garbage": "non-finite keys"}):
                return
    if extra:
        # ---- argument identity / sharing: one tensor object as key AND value (the docstring's own usage),
        #      the query a view into the key's storage - each must equal the call with separate copies
        shared = run("key-is-value", mod, q, k, k, mask)
        if shared is None or not same("shared-key-value-object-differs-from-separate-copies",
                                      run("key-value-copies", mod, q, k, k.clone(), mask), mask, ref=shared):
            return
        if tuple(q.shape) == tuple(k.shape[:tpos]) + tuple(k.shape[tpos + 1:]):
            qv = k.select(tpos, 0)
            viewed = run("query-views-key", mod, qv, k, v, mask)
            if viewed is None or not same("query-viewing-key-differs-from-separate-copy",
                                          run("query-copy", mod, qv.clone(), k, v, mask), mask, ref=viewed):
                return
        # ---- inputs requiring grad (no torch.no_grad around the call), inference_mode
        try:
            qg, kg_, vg_ = (t.clone().requires_grad_(True) for t in (q, k, v))
            og = mod(qg, kg_, vg_, mask)
            og.sum().backward()
            with torch.inference_mode():
                oi = mod(q, k, v, mask)
        except Exception as e:
            ctx.violation(sig(mask, symptom="raises", type=type(e).__name__, during="requires-grad/inference"),
                          case(), {"error": str(e)[-300:]})
            return
        if not same("requires-grad-changes-result", og.detach(), mask) or not same(
                "inference-mode-changes-result", oi, mask):
            return
        # ---- scale: large-norm queries and keys are ordinary finite inputs (scores of 1e6 .. 1e10); the
        #      convexity / masked-content / permutation clauses again on scaled copies
        for sc in SCALES:
            _eval_case(ctx, cfg, seed, tpos, dim, q * sc, k * sc, v, mask, prep, False, "core")
    if not _same_values(base, base_kept):
        ctx.violation(sig(mask, symptom="earlier-result-changed-by-later-call"), case(),
                      {"kept": base_kept.tolist(), "now": base.tolist()})


def _slice_for(cfg, q, k, v):
    return q[..., : cfg["Q"]].contiguous(), k[..., : cfg["K"]].contiguous(), v


# ==================================================================== multi-headed configs
def _flag_family(fam):
    if fam["dim"] < 0:
        return False
    if fam["rank"] == 2:
        return fam["T"] >= 2
    return fam["rank"] == 3 and fam["T"] == 2 and fam["pats"] == [[2, 2, 2, 2]]


_REDUCED_AXIS = {(1, 1, 1, 1), (2, 2, 2, 2), (1, 2, 2, 2), (2, 1, 1, 2), (2, 2, 2, 1), (2, 1, 1, 1)}


def _mha_cfgs(fam, tier):
    if fam["dim"] < 0:
        return []  # the constructor documents that negative dims are refused
    if _flag_family(fam):
        return [_mha_cfg(h, wi, fl) for h in (1, 2) for wi in range(3)
                for fl in itertools.product((False, True), repeat=4)]
    if fam["rank"] == 4 and tier == "quick" and any(tuple(p) not in _REDUCED_AXIS for p in fam["pats"]):
        return []
    out = []
    for h in (1, 2):
        for wi in range(3):
            fl = (True,) * 4 if (h + wi) % 2 == 0 else (False,) * 4
            out.append(_mha_cfg(h, wi, fl))
            if tier != "quick":
                out.append(_mha_cfg(h, wi, tuple(not f for f in fl)))
    return out


def _extra_family(fam):
    """Families that also get the layout / float64 / non-finite-key passes: rank 2, rank 3 with batch
    size <= 2, rank 4 with both axis patterns from the menu of 6."""
    if fam["rank"] == 2:
        return True
    if fam["rank"] == 3:
        return max(fam["pats"][0]) <= 2
    return all(tuple(p) in _REDUCED_AXIS for p in fam["pats"])


# ====================================================================== object histories
HIST_CFGS = SINGLE_CFGS + [_mha_cfg(1, 0, (True, False, True, False)), _mha_cfg(2, 1, (False, True, False, True)),
                           _mha_cfg(2, 2, (True, True, False, False))]


def _set_dim(mod, cfg, dim):
    mod.dim = dim  # public attribute
    if cfg["kind"] == "mha":
        mod.single_head_attention.dim = dim  # documented as not kept in sync by the wrapper


def _hist_families(cfg, ci, stride):
    fams = [f for f in _families("quick") if _extra_family(f) and (cfg["kind"] != "mha" or f["dim"] >= 0)]
    return fams[ci % stride::stride]


def _run_history(ctx, spec, tier, seed):
    """ONE module object per (flavour, dim) over a long life: key rank, batch shape, T and mask change from
    call to call, train/eval is switched; every result must equal that of a fresh object built with the
    same parameters for exactly this call.  `dim` is a `__constants__` attribute: reassigning it on the
    live object is executed and COUNTED only (new configurations come from new objects)."""
    ci = spec["cfg"]
    cfg = HIST_CFGS[ci]
    api = API[cfg["kind"]]
    fams = _hist_families(cfg, ci, 3)
    live = {}
    for step, fam in enumerate(fams):
        q, k, v, m_shape = _data(fam, seed)
        q, k, v = _slice_for(cfg, q, k, v)
        variants = list(_mask_variants(m_shape, fam["tpos"], "quick"))
        mask = variants[step % len(variants)]
        dim = fam["dim"]
        if dim not in live:
            live[dim] = _new_module(cfg, dim, seed)
        mod = live[dim]
        mod.train(step % 2 == 0)
        ctx.case(1, 1 if fam["T"] >= 2 else 0)
        case = {"kind": "history", "cfg_index": ci, "seed": seed, "step": step}
        sig = {"api": api, "history": "one object per dim; rank, shape, T, mask, train/eval vary",
               "mask_given": mask is not None}
        try:
            out = _call(mod, q, k, v, mask)
            fresh = _call(_new_module(cfg, dim, seed), q, k, v, mask)
        except Exception as e:
            ctx.violation(dict(sig, symptom="raises", type=type(e).__name__), case,
                          {"error": str(e)[-300:], "step": step, "family": fam})
            return
        if not _close_t(out, fresh):
            ctx.violation(dict(sig, symptom="reused-object-differs-from-fresh-object"), case,
                          {"step": step, "family": fam, "reused": out.tolist(), "fresh": fresh.tolist()})
            return
        # a constant reassigned on ANOTHER live object: counted, never judged
        if step % 7 == 0 and len(live) > 1:
            other_dim = next(d for d in live if d != dim)
            try:
                _set_dim(live[other_dim], cfg, dim)
                honoured = _close_t(_call(live[other_dim], q, k, v, mask), fresh)
            except Exception:
                honoured = False
            ctx.count("constants_reassigned_honoured" if honoured else "constants_reassigned_ignored")
            live[other_dim] = _new_module(cfg, other_dim, seed)
    ctx.count("history steps", len(fams))
    ctx.sample({"part": "history", "flavour": cfg, "steps": len(fams), "objects": len(live)})


# ======================================================= object lifecycle (guards.lifecycle_variants)
def _run_lifecycle(ctx, spec, tier, seed):
    """Every lifecycle variant (deepcopy, pickle, torch.save, used+deepcopy, eval+deepcopy, state_dict,
    state_dict-after-use, double-float, state_dict-into-other = a module with OTHER weights that was already
    used in eval / no_grad and then loads the state dict) of every flavour x every dim spelling (negative
    ones included) must give, on inputs of every rank that has the spelling (incl. an axis left of T), what a
    fresh module with the same weights gives."""
    ci = spec["cfg"]
    cfg = HIST_CFGS[ci]
    api = API[cfg["kind"]]
    by_dim = {}
    for fam in _hist_families(cfg, 0, 1):
        by_dim.setdefault(fam["dim"], []).append(fam)
    for dim, fams in sorted(by_dim.items()):
        # a handful of inputs per dim: every rank, T >= 2 preferred, full and broadcasting patterns
        picked, seen = [], set()
        for fam in fams:
            key = (fam["rank"], fam["tpos"], fam["T"], max(max(p) for p in fam["pats"]) if fam["pats"] else 0)
            if key not in seen and fam["T"] != 1:
                seen.add(key)
                picked.append(fam)
        picked = picked[:10]
        inputs = []
        for n, fam in enumerate(picked):
            q, k, v, m_shape = _data(fam, seed)
            q, k, v = _slice_for(cfg, q, k, v)
            variants = list(_mask_variants(m_shape, fam["tpos"], "quick"))
            inputs.append((q, k, v, variants[(n + 1) % len(variants)], fam))
            inputs.append((q, k, v, None, fam))
        if not inputs:
            continue

        def make():
            return _new_module(cfg, dim, seed)

        def make_other():
            return _new_module(cfg, dim, seed + 7919)  # same shapes, other weights

        def used(o):
            o(*inputs[0][:4])
        case = {"kind": "lifecycle", "cfg_index": ci, "seed": seed, "dim": dim}
        try:
            variants = list(GD.lifecycle_variants(make, used, None, make_other))
        except GD.GuardViolation as e:
            ctx.violation({"api": api, "symptom": "lifecycle-guard", "neg_dim": dim < 0}, case, {"error": str(e)})
            continue
        except Exception as e:
            ctx.violation({"api": api, "symptom": "raises", "type": type(e).__name__, "lifecycle": "building variants",
                           "neg_dim": dim < 0}, case, {"error": str(e)[-300:]})
            continue
        # evaluating several checkpoints with one module object: the receiving module stays in eval mode, was
        # called under no_grad, and gets new weights by load_state_dict / by in-place copies (EMA swap) - no
        # mode switch or .to() in between that could rebuild derived state by accident
        try:
            o1 = make_other()
            _call(o1, *inputs[0][:4])
            o1.load_state_dict(make().state_dict())
            variants.append(("load_state_dict-after-eval-use", o1))
            o2 = make_other()
            _call(o2, *inputs[-1][:4])
            with torch.no_grad():
                src = dict(make().named_parameters())
                for pname, par in o2.named_parameters():
                    par.copy_(src[pname])
            variants.append(("parameters-copied-in-place-after-eval-use", o2))
        except Exception as e:
            ctx.violation({"api": api, "symptom": "raises", "type": type(e).__name__,
                           "lifecycle": "load_state_dict-after-eval-use", "neg_dim": dim < 0}, case,
                          {"error": str(e)[-300:]})
        fresh = make()
        for name, obj in variants:
            # (no obj.eval() here: a mode switch is itself an operation that may rebuild derived state)
            for (q, k, v, mask, fam) in inputs:
                ctx.case(1, 1)
                sig = {"api": api, "lifecycle": name, "neg_dim": dim < 0, "mask_given": mask is not None}
                try:
                    out = _call(obj, q, k, v, mask)
                    ref = _call(fresh, q, k, v, mask)
                except Exception as e:
                    ctx.violation(dict(sig, symptom="raises", type=type(e).__name__), dict(case, variant=name),
                                  {"error": str(e)[-300:], "family": fam})
                    break
                if not _close_t(out, ref):
                    ctx.violation(dict(sig, symptom="lifecycle-variant-differs-from-fresh-object"),
                                  dict(case, variant=name),
                                  {"family": fam, "variant": out.tolist(), "fresh": ref.tolist()})
                    break
        ctx.count("lifecycle variants", len(variants))
    ctx.sample({"part": "lifecycle", "flavour": cfg, "dims": sorted(by_dim)})


# ============================================= scripted / traced / float64-default variants
_VARIANT_MODS = {}


def _run_modes(ctx, spec, tier, seed):
    """(9)/(10): torch.jit.script and torch.jit.trace of every flavour (as tests/test_attn.py builds them)
    and modules built with float64 as the default dtype, on every fourth guard family with rank, batch
    shape, T and mask changing: each equals the plain float32 module.  A traced module is traced on the
    first input of its (dim, rank, mask given) class and then run on all the others."""
    ci = spec["cfg"]
    cfg = HIST_CFGS[ci]
    api = API[cfg["kind"]]
    fams = [f for f in _families("quick") if _extra_family(f) and (cfg["kind"] != "mha" or f["dim"] >= 0)]
    fams = fams[ci % 4::4]
    for step, fam in enumerate(fams):
        q, k, v, m_shape = _data(fam, seed)
        q, k, v = _slice_for(cfg, q, k, v)
        variants = list(_mask_variants(m_shape, fam["tpos"], "quick"))
        mask = variants[(step + 1) % len(variants)]
        dim = fam["dim"]
        base = _call(_module(cfg, dim, seed), q, k, v, mask)
        for variant in ("script", "trace", "default64"):
            ctx.case(1, 1 if fam["T"] >= 2 else 0)
            case = {"kind": "modes", "cfg_index": ci, "seed": seed, "step": step, "variant": variant}
            sig = {"api": api, "variant": variant, "mask_given": mask is not None}
            key = (variant, ci, dim, seed) + ((fam["rank"], mask is None) if variant == "trace" else ())
            prev_default = torch.get_default_dtype()
            try:
                args = (q, k, v) if mask is None else (q, k, v, mask)
                if key not in _VARIANT_MODS:
                    if variant == "default64":
                        torch.set_default_dtype(torch.float64)
                        _VARIANT_MODS[key] = _new_module(cfg, dim, seed)
                    elif variant == "script":
                        _VARIANT_MODS[key] = torch.jit.script(_new_module(cfg, dim, seed))
                    else:
                        _VARIANT_MODS[key] = torch.jit.trace(_new_module(cfg, dim, seed), args)
                vm = _VARIANT_MODS[key]
                with torch.no_grad():
                    if variant == "default64":
                        torch.set_default_dtype(torch.float64)
                        out = vm(q.double(), k.double(), v.double(), mask).float()
                    else:
                        out = vm(*args)
            except Exception as e:
                ctx.violation(dict(sig, symptom="raises", type=type(e).__name__), case,
                              {"error": str(e)[-300:], "step": step, "family": fam})
                return
            finally:
                torch.set_default_dtype(prev_default)
            if not _close_t(out, base):
                ctx.violation(dict(sig, symptom="variant-differs-from-plain-module"), case,
                              {"step": step, "family": fam, "variant": out.tolist(), "plain": base.tolist()})
                return
    ctx.count("variant steps", 3 * len(fams))
    ctx.sample({"part": "modes", "flavour": cfg, "steps": len(fams), "variants": ["script", "trace", "default64"]})


# ================================================================== one larger instance
def _run_large(ctx, spec, tier, seed):
    """key (7, 50, 5, K): T=50, 35 batch rows, per-row masks; query full and broadcast; dim 1 and -3."""
    rng = random.Random(f"c20-large-{seed}")
    B1, T, B2 = 7, 50, 5

    def fill(shape):
        n = 1
        for s_ in shape:
            n *= s_
        return torch.tensor([rng.randint(-8, 8) / 4.0 for _ in range(n)], dtype=torch.float32).view(shape)

    k = fill((B1, T, B2, KMAX))
    v = fill((B1, T, B2, DV))
    v[..., DV - 1] = 1.0
    mask = torch.zeros(B1, T, B2, dtype=torch.bool)
    for b1 in range(B1):
        for b2 in range(B2):
            keep = rng.sample(range(T), rng.randint(1, T))
            mask[b1, keep, b2] = True
    cfgs = SINGLE_CFGS + [_mha_cfg(4, 0, (True, False, True, False)), _mha_cfg(2, 1, (False, True, False, True))]
    for qshape in ((B1, B2, QMAX), (1, B2, QMAX)):
        q = fill(qshape)
        for m in (mask, mask[:1], None):
            prep = _prepare(1, q, k, v, m)
            for cfg in cfgs:
                for dim in ((1, -3) if cfg["kind"] != "mha" else (1,)):
                    _eval_case(ctx, cfg, seed, 1, dim, *_slice_for(cfg, q, k, v), m, prep, True)
    ctx.sample({"part": "large", "key": [B1, T, B2, "K"], "masks": "per row, shared over the first axis, None"})


# ================================================================== long sequences (round 6)
def _run_long(ctx, spec, tier, seed):
    """key (3, T, 2, K) with T = 1300 (thorough: also 2600, 520): sequence lengths beyond any block / chunk size a
    memory-saving implementation would use.  Per batch row one of: left-padded (only a trailing stretch kept, so every
    leading block is wholly masked), right-padded, a single kept position (first / last / middle), everything kept, a
    sparse random subset.  All relations of the property as for the small scope (bounds, blindness to masked content,
    permutations = reversal / rotation / a transposition, broadcast query)."""
    rng = random.Random(f"c20-long-{seed}")
    for T in ((1300,) if tier == "quick" else (1300, 2600, 520)):
        B1, B2 = 3, 2

        def fill(shape):
            n = 1
            for s_ in shape:
                n *= s_
            return torch.tensor([rng.randint(-8, 8) / 4.0 for _ in range(n)], dtype=torch.float32).view(shape)

        k = fill((B1, T, B2, KMAX))
        v = fill((B1, T, B2, DV))
        v[..., DV - 1] = 1.0
        mask = torch.zeros(B1, T, B2, dtype=torch.bool)
        L = 1 + rng.randrange(40)
        rows = [("left-padded", range(T - L, T)), ("right-padded", range(0, L)), ("last-only", [T - 1]),
                ("middle-only", [T // 2 + 7]), ("all", range(T)), ("sparse", rng.sample(range(T), 9))]
        rng.shuffle(rows)
        for (b1, b2), (_, keep) in zip(itertools.product(range(B1), range(B2)), rows):
            mask[b1, list(keep), b2] = True
        cfgs = SINGLE_CFGS + [_mha_cfg(2, 0, (True, False, True, False))]
        for qshape in ((B1, B2, QMAX), (1, B2, QMAX)):
            q = fill(qshape)
            for m in (mask, None):
                prep = _prepare(1, q, k, v, m)
                for cfg in cfgs:
                    for dim in ((1, -3) if cfg["kind"] != "mha" else (1,)):
                        _eval_case(ctx, cfg, seed, 1, dim, *_slice_for(cfg, q, k, v), m, prep, True)
                        ctx.count("long-sequence-cases")
    ctx.sample({"part": "long", "key": [3, "T=1300", 2, "K"],
                "mask_rows": "left-padded, right-padded, single kept position, all kept, sparse"})


# ================================================================================ driver
NSLICES = 64  # co-prime with the inner (spelling x T) periods 9 and 15, so slices are balanced


def shards(tier, seed):
    # the cheap parts first, so a tight wall budget can never skip them
    return ([{"part": "params"}, {"part": "large"}, {"part": "long"}] +
            [{"part": "history", "cfg": i} for i in range(len(HIST_CFGS))] +
            [{"part": "modes", "cfg": i} for i in range(len(HIST_CFGS))] +
            [{"part": "lifecycle", "cfg": i} for i in range(len(HIST_CFGS))] +
            [{"part": "families", "slice": i} for i in range(NSLICES)])


def _run_params(ctx, seed):
    """A bias exactly on the projections for which one was requested - on the parameters."""
    for h in (1, 2):
        for wi in range(3):
            for fl in itertools.product((False, True), repeat=4):
                cfg = _mha_cfg(h, wi, fl)
                case = {"kind": "params", "cfg": cfg, "seed": seed}
                ctx.case(1, 1)
                try:
                    mod = _module(cfg, 0, seed)
                except Exception as e:
                    ctx.violation({"api": API["mha"], "symptom": "constructor-raises", "type": type(e).__name__},
                                  case, {"error": str(e)[-300:]})
                    continue
                present = [getattr(mod, p).bias is not None for p in PROJ]
                ctx.outcome(present)
                for p, want, have in zip(PROJ, fl, present):
                    if want != have:
                        ctx.violation({"api": API["mha"], "symptom": "bias-presence-differs-from-request",
                                       "projection": p}, case, {"requested": list(fl), "present": present})
                # declared sizes of the projections
                w = cfg["wrapped"]
                dv = cfg["d_v"] if cfg["d_v"] is not None else max(1, DV // h)
                want_shapes = {"WQ": (h * w["Q"], cfg["Q"]), "WK": (h * w["K"], cfg["K"]),
                               "WV": (h * dv, DV), "WC": (cfg["out"] if cfg["out"] is not None else DV, h * dv)}
                for p in PROJ:
                    if tuple(getattr(mod, p).weight.shape) != want_shapes[p]:
                        ctx.violation({"api": API["mha"], "symptom": "projection-shape", "projection": p}, case,
                                      {"expected": want_shapes[p], "observed": tuple(getattr(mod, p).weight.shape)})
    ctx.sample({"part": "params", "configs": 2 * 3 * 16})


def run_shard(spec, tier, seed):
    ctx = Ctx()
    if spec["part"] == "params":
        _run_params(ctx, seed)
        return ctx
    if spec["part"] == "history":
        _run_history(ctx, spec, tier, seed)
        return ctx
    if spec["part"] == "long":
        _run_long(ctx, spec, tier, seed)
        return ctx
    if spec["part"] == "large":
        _run_large(ctx, spec, tier, seed)
        return ctx
    if spec["part"] == "modes":
        _run_modes(ctx, spec, tier, seed)
        return ctx
    if spec["part"] == "lifecycle":
        _run_lifecycle(ctx, spec, tier, seed)
        return ctx
    sl = spec["slice"]
    first = True
    for i, fam in enumerate(_families(tier)):
        if i % NSLICES != sl:
            continue
        q, k, v, m_shape = _data(fam, seed)
        mcfgs = _mha_cfgs(fam, tier)
        extra = _extra_family(fam)
        if extra:
            ctx.count("families with layout / float64 / non-finite-key passes")
        sliced = {}
        for cfg in SINGLE_CFGS + mcfgs:
            if (cfg["Q"], cfg["K"]) not in sliced:
                sliced[(cfg["Q"], cfg["K"])] = _slice_for(cfg, q, k, v)
        for mask in _mask_variants(m_shape, fam["tpos"], tier):
            prep = _prepare(fam["tpos"], q, k, v, mask)
            for cfg in SINGLE_CFGS + mcfgs:
                _eval_case(ctx, cfg, seed, fam["tpos"], fam["dim"], *sliced[(cfg["Q"], cfg["K"])], mask, prep,
                           extra)
            ctx.count("(shape, mask) combinations")
        ctx.count("shape families")
        if first and fam["rank"] >= 3:
            first = False
            ctx.sample({"family": fam, "shapes(q,k,v,mask) without feature axes": _shapes(fam)})
    return ctx


def replay(case):
    ctx = Ctx()
    if case.get("kind") == "params":
        _CACHE.clear()
        _run_params(ctx, case["seed"])
        return ctx
    if case.get("kind") == "lifecycle":
        _run_lifecycle(ctx, {"cfg": case["cfg_index"]}, "quick", case["seed"])
        return ctx
    if case.get("kind") == "modes":
        _run_modes(ctx, {"cfg": case["cfg_index"]}, "quick", case["seed"])
        return ctx
    if case.get("kind") == "history":
        _run_history(ctx, {"cfg": case["cfg_index"]}, "quick", case["seed"])
        return ctx
    q = torch.tensor(case["q"], dtype=torch.float32).view(case["shapes"][0])
    k = torch.tensor(case["k"], dtype=torch.float32).view(case["shapes"][1])
    v = torch.tensor(case["v"], dtype=torch.float32).view(case["shapes"][2])
    mask = None if case["mask"] is None else torch.tensor(case["mask"], dtype=torch.bool).view(case["shapes"][3])
    _eval_case(ctx, case["cfg"], case["seed"], case["tpos"], case["dim"], q, k, v, mask, None,
               case.get("extra", False), case.get("relations", "all"))
    return ctx
