"""C17 seams and plumbing: virtual pool with initializer, virtual DataLoader workers, in-process
command runner, directory snapshots, real-process conformance runs."""

import contextlib
import io
import json
import os
import shutil
import subprocess
import sys
import warnings

import torch
import torch.utils.data

from mc.seams import VirtualPools, _VirtualPool

_RealDataLoader = torch.utils.data.DataLoader


class _InitPool(_VirtualPool):
    """command_line.py creates ``get_context("spawn").Pool(n, _worker_init, (func, *args))`` and the
    workers read module globals set by the initializer, so the stand-in has to run the initializer
    (once, in-process: every virtual worker shares this interpreter)."""

    def __init__(self, chooser, processes=None, initializer=None, initargs=(), *a, **kw):
        super().__init__(chooser, processes)
        self.initializer = initializer
        if initializer is not None:
            initializer(*initargs)

    def imap_unordered(self, func, iterable, chunksize=1):
        """Workers of a *spawn* pool are fresh interpreters: process-global settings of the parent (the
        default dtype) are back at their defaults there.  The stand-in models that for the one global the
        library's numerics depend on."""

        def in_worker(item):
            old = torch.get_default_dtype()
            torch.set_default_dtype(torch.float32)
            try:
                return func(item)
            finally:
                torch.set_default_dtype(old)

        return super().imap_unordered(in_worker, iterable, chunksize)


class _VirtualLoader:
    """Stand-in for DataLoader(num_workers=W>0) with batch_size 1 and no sampler: worker w fetches
    items w, w+W, ...; the interleaving of the fetches is a choice; items are delivered in index
    order (what the real loader guarantees)."""

    def __init__(self, chooser, dataset, batch_size=1, num_workers=0, collate_fn=None, **kw):
        if batch_size != 1 or kw.get("shuffle") or kw.get("sampler") is not None:
            raise NotImplementedError("virtual loader models batch_size=1, sequential only")
        self.ch, self.ds, self.W = chooser, dataset, num_workers
        self.collate = collate_fn or torch.utils.data.default_collate

    def __len__(self):
        return len(self.ds)

    def __iter__(self):
        n = len(self.ds)
        queues = [[i for i in range(n) if i % self.W == w] for w in range(self.W)]
        fetched = {}
        for nxt in range(n):
            while nxt not in fetched:
                live = [w for w in range(self.W) if queues[w]]
                c = self.ch.choose(len(live), f"loader-fetch[{n - sum(map(len, queues))}]")
                i = queues[live[c]].pop(0)
                fetched[i] = self.collate([self.ds[i]])
            yield fetched.pop(nxt)


class CliSeams(VirtualPools):
    """VirtualPools + initializer support + virtual DataLoader workers."""

    def __init__(self, chooser):
        super().__init__(chooser)
        self.loaders = 0

    def _make(self, *a, **kw):
        p = _InitPool(self.ch, *a, **kw)
        self.pools.append(p)
        return p

    def _loader(self, dataset, *a, **kw):
        if kw.get("num_workers", 0):
            self.loaders += 1
            return _VirtualLoader(self.ch, dataset, *a, **kw)
        return _RealDataLoader(dataset, *a, **kw)

    def __enter__(self):
        super().__enter__()
        torch.utils.data.DataLoader = self._loader
        return self

    def __exit__(self, *exc):
        torch.utils.data.DataLoader = _RealDataLoader
        return super().__exit__(*exc)


# ---------------------------------------------------------------------------------------
def run_cmd(func, args):
    """Calls one console entry point in-process.  -> dict(rc, out, err, exc)"""
    out, err = io.StringIO(), io.StringIO()
    res = {"rc": None, "exc": None}
    with warnings.catch_warnings():
        warnings.simplefilter("ignore")
        with contextlib.redirect_stdout(out), contextlib.redirect_stderr(err):
            try:
                res["rc"] = func([str(a) for a in args])
            except SystemExit as e:  # pragma: no cover
                res["rc"] = e.code
            except Exception as e:  # noqa: BLE001 - data for the oracle
                res["exc"] = e
    res["out"], res["err"] = out.getvalue(), err.getvalue()
    return res


def ok(res):
    return res["exc"] is None and not res["rc"]


def describe(res):
    if res["exc"] is not None:
        return f"{type(res['exc']).__name__}: {str(res['exc'])[-300:]}"
    return f"rc={res['rc']} stderr={res['err'][-300:]}"


def _canon(obj):
    if isinstance(obj, torch.Tensor):
        return ["tensor", str(obj.dtype), list(obj.shape), obj.tolist()]
    if isinstance(obj, dict):
        return {str(k): _canon(v) for k, v in sorted(obj.items(), key=lambda kv: str(kv[0]))}
    if isinstance(obj, (list, tuple)):
        return [_canon(v) for v in obj]
    return repr(obj)


def snapshot(root, stat=False):
    """Canonical content of a directory tree: relative path -> symlink target / tensor / text."""
    snap = {}
    for dp, dns, fns in os.walk(root):
        dns.sort()
        rel = os.path.relpath(dp, root)
        if not fns and not dns:
            snap[rel + "/"] = "empty-dir"
        for fn in sorted(fns):
            p = os.path.join(dp, fn)
            key = os.path.normpath(os.path.join(rel, fn))
            if os.path.islink(p):
                snap[key] = ["symlink", os.readlink(p)]
                continue
            with open(p, "rb") as f:
                raw = f.read()
            try:
                snap[key] = _canon(torch.load(io.BytesIO(raw)))
            except Exception:  # noqa: BLE001 - not a torch file
                try:
                    snap[key] = ["text", raw.decode()]
                except UnicodeDecodeError:
                    snap[key] = ["bytes", raw.hex()]
    return snap


def snap_file(path):
    """canonical content of one file (None when absent)"""
    if not os.path.exists(path):
        return None
    return _one(path)


def _one(p):
    with open(p, "rb") as f:
        raw = f.read()
    try:
        return _canon(torch.load(io.BytesIO(raw)))
    except Exception:  # noqa: BLE001
        return ["bytes", raw.hex()]


def fresh(path):
    shutil.rmtree(path, ignore_errors=True)
    os.makedirs(path)
    return path


def write(path, text):
    os.makedirs(os.path.dirname(path), exist_ok=True)
    with open(path, "w") as f:
        f.write(text)
    return path


def read(path):
    with open(path) as f:
        return f.read()


# ---------------------------------------------------------------------------------------
def real_run(func_name, args, timeout=180):
    """Runs the console entry point in a fresh interpreter (the real spawn pool / real DataLoader
    workers cannot be started from a daemonic shard process).  -> dict(rc, out, err)"""
    code = (
        "import sys, warnings; warnings.simplefilter('ignore');"
        "import torch; torch.set_num_threads(1);"
        + ("torch.set_default_dtype(torch.float64);" if torch.get_default_dtype() == torch.float64 else "")
        +
        "from pydrobert.torch import command_line as C;"
        f"sys.exit(C.{func_name}(sys.argv[1:]) or 0)"
    )
    env = dict(os.environ, PYTHONWARNINGS="ignore", OMP_NUM_THREADS="1")
    p = subprocess.run([sys.executable, "-c", code] + [str(a) for a in args], capture_output=True,
                       text=True, timeout=timeout, env=env)
    return {"rc": p.returncode, "out": p.stdout, "err": p.stderr, "exc": None}


def jd(x):
    return json.dumps(x, sort_keys=True)


# ---------------------------------------------------------------------------------------
def observe_call(func_name, args, out_root):
    """One command call reduced to what a user can see: exit status / exception type, printed text, and
    everything below ``out_root``.  Shared by the in-process harness and the fresh-process runner."""
    from pydrobert.torch import command_line as C

    res = run_cmd(getattr(C, func_name), args)
    return {"rc": res["rc"] or 0, "exc": type(res["exc"]).__name__ if res["exc"] is not None else None,
            "out": res["out"], "files": snapshot(out_root) if os.path.isdir(out_root) else None}


def fresh_calls(jobs, workdir, timeout=900):
    """jobs: list of dict(func, args, out).  Each job is executed as the FIRST command call of a process
    (one interpreter is started, every job runs in a child forked from it before any command was called).
    -> list of observations (json strings)"""
    path = os.path.join(workdir, "fresh_jobs.json")
    for i, j in enumerate(jobs):
        j["result"] = os.path.join(workdir, "fresh_result_%d.json" % i)
        j["args"] = [str(a) for a in j["args"]]
    with open(path, "w") as f:
        json.dump(jobs, f)
    env = dict(os.environ, PYTHONWARNINGS="ignore", OMP_NUM_THREADS="1")
    p = subprocess.run([sys.executable, "-m", "checks._c17_fresh", path], capture_output=True, text=True,
                       timeout=timeout, env=env)
    if p.returncode:
        raise RuntimeError("fresh-process runner failed: " + p.stderr[-1500:])
    out = []
    for j in jobs:
        with open(j["result"]) as f:
            out.append(jd(json.load(f)))
    return out
