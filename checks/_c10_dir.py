"""C10, directory level: chunk-torch-spect-data-dir over generated SpectDataSet directories."""

import itertools
import os
import random
import shutil
import traceback

import torch

import pydrobert.torch.command_line as CL
import pydrobert.torch.data as data

from mc.oracles import slicing as O
from mc.seams import ListingPolicy, LISTING_POLICIES

RULE = (
    "dir: directories of <= 3 well-formed utterances (feat (T,2) float, ali (T,) long, ref (R,3) long) "
    "written under /dev/shm; policy fixed: T in 0..5 (thorough 0..8); policy ali: every alignment in "
    "{0,1}^T, T in 1..4 (1..5); policy ref: every list of <= 2 tokens whose segments are well-formed for "
    "T=3 (0<=s<=e<=3 or both -1; thorough also T=4); consecutive triples of the enumeration form a "
    "directory (plus the empty directory); x 3 window types x {valid (no padding), pad-mode constant} x "
    "lobes {0,1,2}; default token flags on every run (then the output must pass validate_spect_data_set) "
    "and one (thorough: all) of the other partial/retain combinations in rotation. Spellings of the command's "
    "arguments: --file-prefix in {'', 'x_'} x --file-suffix in {'.pt', '', '.feat.pt'} (one flag pair serves input "
    "and output), utterance ids u1, u10, u1.a (dots; prefixes of one another) whose windows coincide (same T / "
    "alignment / segments), decoy files that do not match prefix / suffix, the command's default --format-utt and "
    "an explicit one, policies fixed / ali / ref x 4 configurations x default + one other token flag pair; the set "
    "of output files must be exactly the expected one (fixed, ali) and every file name must carry prefix, suffix, "
    "and its source id. LISTING ORDER: the spelling directories (two namings) again with os.listdir / os.scandir answering "
    "in each of five non-sorted orders (with the sorted one: every permutation of the three entries)."
)
PAD = 7
FMT = "{utt_id}@{idx}@{start}@{end}"
FMT_DEFAULT = "{utt_id}.{start:05d}.{end:05d}"  # the command's default --format-utt
SPELL_NAMES = ["u1", "u10", "u1.a"]  # ids with dots, ids that are prefixes of one another
SPELL_PREFIXES = ("", "x_")
SPELL_SUFFIXES = (".pt", "", ".feat.pt")
LOBES = (0, 1, 2)


# ----------------------------------------------------------------------------- generation
def _wf_segs(T):
    return [(-1, -1)] + [(s, e) for s in range(T + 1) for e in range(s, T + 1)]


def _ref_lists(T, maxlen):
    segs = _wf_segs(T)
    out = []
    for k in range(maxlen + 1):
        out.extend(itertools.product(segs, repeat=k))
    return out


def _mk_utt(T, ali, segs):
    return {"T": T, "ali": list(ali), "ref": [[11 * (i + 1), s, e] for i, (s, e) in enumerate(segs)]}


def _pool(policy, tier):
    q = tier != "thorough"
    utts = []
    if policy == "fixed":
        for T in range(0, (5 if q else 8) + 1):
            menu = _ref_lists(T, 2)
            utts.append(_mk_utt(T, [(t // 2) % 2 for t in range(T)], menu[(7 * T + 3) % len(menu)]))
            utts.append(_mk_utt(T, [t % 2 for t in range(T)], menu[(13 * T + 5) % len(menu)]))
    elif policy == "ali":
        i = 0
        for T in range(1, (4 if q else 5) + 1):
            menu = _ref_lists(T, 2)
            for ali in itertools.product((0, 1), repeat=T):
                i += 1
                utts.append(_mk_utt(T, ali, menu[(17 * i) % len(menu)]))
    else:
        i = 0
        for T in (3,) if q else (3, 4):
            for segs in _ref_lists(T, 2):
                i += 1
                utts.append(_mk_utt(T, [(i >> t) & 1 for t in range(T)], segs))
    return utts


def _dirs(policy, tier):
    utts = _pool(policy, tier)
    out = [utts[i:i + 3] for i in range(0, len(utts), 3)]
    if policy == "fixed":
        out.append([])
    return out


def shards(tier, seed):
    out = []
    for policy in O.POLICIES:
        n = len(_dirs(policy, tier))
        per = 2 if tier != "thorough" else 3
        for lo in range(0, n, per):
            out.append({"part": "dir", "policy": policy, "lo": lo, "hi": min(lo + per, n)})
    for prefix in SPELL_PREFIXES:
        for suffix in SPELL_SUFFIXES:
            out.append({"part": "dir", "policy": "spelling", "prefix": prefix, "suffix": suffix})
    # the order in which the OS lists feat/, ali/ and ref/ is an environment answer: the three-utterance spelling
    # directories again under each non-sorted listing policy (with the sorted one: every permutation of 3 entries)
    for prefix, suffix in (("", ".pt"), ("x_", ".feat.pt")):
        for pol in LISTING_POLICIES[1:]:
            out.append({"part": "dir", "policy": "spelling", "prefix": prefix, "suffix": suffix, "listing": pol})
    return out


# ------------------------------------------------------------------------------- running
def _feat(u, k, seed):
    T = u["T"]
    base = 100.0 * (k + 1) + (seed % 5) * 1000.0
    return [[base + t + 0.25 * f for f in range(2)] for t in range(T)]


def _names(call_or_utts, n=None):
    if isinstance(call_or_utts, dict) and call_or_utts.get("names"):
        return list(call_or_utts["names"])
    return [f"u{k}" for k in range(n)]


def _write_src(root, utts, seed, names=None, prefix="", suffix=".pt", decoys=()):
    for sub in ("feat", "ali", "ref"):
        os.makedirs(os.path.join(root, sub))
    for d in decoys:  # files that do not belong to the data set (other prefix / suffix)
        for sub, t in (("feat", torch.zeros(2, 2)), ("ali", torch.zeros(2, dtype=torch.long)),
                       ("ref", torch.zeros(1, 3, dtype=torch.long))):
            torch.save(t, os.path.join(root, sub, d))
    names = names or [f"u{k}" for k in range(len(utts))]
    for k, u in enumerate(utts):
        name = prefix + names[k] + suffix
        torch.save(torch.tensor(_feat(u, k, seed), dtype=torch.float).view(u["T"], 2),
                   os.path.join(root, "feat", name))
        torch.save(torch.tensor(u["ali"], dtype=torch.long), os.path.join(root, "ali", name))
        torch.save(torch.tensor(u["ref"], dtype=torch.long).view(len(u["ref"]), 3),
                   os.path.join(root, "ref", name))


def _origin(exc):
    name = None
    for fr in traceback.extract_tb(exc.__traceback__):
        if "pydrobert" in fr.filename:
            name = fr.name
    return name


def _decoys(prefix, suffix):
    out = []
    if prefix:
        out.append("y_decoy" + suffix)
    if suffix and suffix != ".pt":
        out.append(prefix + "u9.pt")
    return out


def _spelling_utts():
    seg = [[11, 0, 1], [22, 1, 3]]
    return [
        {"T": 3, "ali": [0, 0, 1], "ref": seg},
        {"T": 3, "ali": [0, 0, 1], "ref": seg},  # same windows as the first under every policy
        {"T": 4, "ali": [0, 0, 1, 1], "ref": seg + [[33, 3, 4]]},
    ]


def _run_spelling(ctx, spec, tier, seed):
    pol = spec.get("listing")
    if pol:
        with ListingPolicy(pol) as lp:
            _run_spelling_inner(ctx, spec, tier, seed, pol)
        ctx.count("directory-listings-answered-by-the-seam", lp.calls)
    else:
        _run_spelling_inner(ctx, spec, tier, seed, None)


def _run_spelling_inner(ctx, spec, tier, seed, pol):
    prefix, suffix = spec["prefix"], spec["suffix"]
    utts = _spelling_utts()
    root = (f"/dev/shm/verif-{os.getpid()}/c10-spell-{SPELL_PREFIXES.index(prefix)}{SPELL_SUFFIXES.index(suffix)}"
            f"{pol or ''}")
    src = os.path.join(root, "src")
    try:
        _write_src(src, utts, seed, SPELL_NAMES, prefix, suffix, _decoys(prefix, suffix))
        data.validate_spect_data_set(data.SpectDataSet(src, prefix, suffix, suppress_alis=False, tokens_only=False))
        ci = 0
        for policy, fmt in (("fixed", "default"), ("fixed", "custom"), ("ali", "custom"), ("ref", "custom")):
            for wt, v, l in (("symmetric", True, 0), ("symmetric", False, 1), ("causal", True, 1), ("future", False, 2)):
                ci += 1
                others = [(True, False), (False, True), (True, True)]
                for partial, retain in [(False, False)] + (others if tier == "thorough" else [others[ci % 3]]):
                    call = {"utts": utts, "policy": policy, "cfg": [wt, v, l], "partial": partial, "retain": retain,
                            "names": SPELL_NAMES, "prefix": prefix, "suffix": suffix, "fmt": fmt}
                    if pol:
                        call["listing"] = pol
                    _eval(ctx, call, seed, src, os.path.join(root, "out"))
    finally:
        shutil.rmtree(root, ignore_errors=True)
        try:
            os.rmdir(os.path.dirname(root))
        except OSError:
            pass


def run_shard(ctx, spec, tier, seed):
    policy = spec["policy"]
    if policy == "spelling":
        return _run_spelling(ctx, spec, tier, seed)
    dirs = _dirs(policy, tier)
    root = f"/dev/shm/verif-{os.getpid()}/c10-{policy}-{spec['lo']}"
    try:
        for di in range(spec["lo"], spec["hi"]):
            utts = dirs[di]
            src = os.path.join(root, f"src{di}")
            _write_src(src, utts, seed)
            if utts:  # premise of the property: the source directory is well-formed
                data.validate_spect_data_set(data.SpectDataSet(src, suppress_alis=False, tokens_only=False))
            ci = 0
            for l in LOBES:
                for wt in O.WINDOW_TYPES:
                    for v in (True, False):
                        ci += 1
                        flags = [(False, False)]
                        others = [(True, False), (False, True), (True, True)]
                        flags += others if tier == "thorough" else [others[(di + ci) % 3]]
                        for partial, retain in flags:
                            call = {"utts": utts, "policy": policy, "cfg": [wt, v, l],
                                    "partial": partial, "retain": retain}
                            _eval(ctx, call, seed, src, os.path.join(root, "out"))
            shutil.rmtree(src, ignore_errors=True)
        if spec["lo"] == 0 and policy != "ali":
            ctx.sample({"part": "dir", "policy": policy, "directory": dirs[0],
                        "last_call": {k: call[k] for k in ("cfg", "partial", "retain")}})
    finally:
        shutil.rmtree(root, ignore_errors=True)
        try:
            os.rmdir(os.path.dirname(root))
        except OSError:
            pass


def replay(ctx, call, seed):
    root = f"/dev/shm/verif-{os.getpid()}/c10-replay"
    try:
        src = os.path.join(root, "src")
        prefix, suffix = call.get("prefix", ""), call.get("suffix", ".pt")
        _write_src(src, call["utts"], seed, call.get("names"), prefix, suffix,
                   _decoys(prefix, suffix) if "prefix" in call else ())
        if call.get("listing"):
            with ListingPolicy(call["listing"]):
                _eval(ctx, call, seed, src, os.path.join(root, "out"))
        else:
            _eval(ctx, call, seed, src, os.path.join(root, "out"))
    finally:
        shutil.rmtree(root, ignore_errors=True)
        try:
            os.rmdir(os.path.dirname(root))
        except OSError:
            pass


def _expected_windows(u, policy, wt, v, l):
    """list of admissible window lists for one utterance (each a list of (window, mandatory))."""
    T = u["T"]
    if policy == "fixed":
        return [[(w, True) for w in O.fixed_windows(T, wt, v, l)]]
    if policy == "ali":
        return [[(w, True) for w in O.ali_windows(u["ali"], T, wt, v, l)]]
    segs = [(s, e) for _, s, e in u["ref"]]
    # the command passes no frame count to the slicer; the number of frames first, then any other
    # single bound (see ASSUMPTIONS of c10: other_lens omitted)
    hi = max([T] + [e for _, e in segs]) + l + 2
    return [O.ref_windows(segs, len(segs), L, wt, v, l) for L in [T] + list(range(-1, hi + 1))]


def _eval(ctx, call, seed, src, out):
    from checks import c10 as C

    utts, policy = call["utts"], call["policy"]
    wt, v, l = call["cfg"]
    partial, retain = call["partial"], call["retain"]
    case = {"part": "dir", "call": call, "seed": seed}
    sig0 = {"api": "chunk-torch-spect-data-dir", "policy": policy, "valid_only": v}
    shutil.rmtree(out, ignore_errors=True)
    names_k = _names(call, len(utts))
    prefix, suffix = call.get("prefix", ""), call.get("suffix", ".pt")
    default_fmt = call.get("fmt") == "default"
    args = [src, out, "--policy", policy, "--lobe-size", str(l), "--window-type", wt, "--quiet", "--num-workers", "0"]
    if not default_fmt:
        args += ["--format-utt", FMT]
    if "prefix" in call:  # otherwise the command's own defaults
        args += ["--file-prefix", prefix, "--file-suffix", suffix]
    if not v:
        args += ["--pad-mode", "constant", "--pad-constant", str(PAD)]
    if partial:
        args.append("--partial-tokens")
    if retain:
        args.append("--retain-token-boundaries")
    exp = [_expected_windows(u, policy, wt, v, l) for u in utts]
    nchunks_exp = sum(len(e[0]) for e in exp)
    ctx.case(1, 1 if nchunks_exp else 0)
    try:
        rc = CL.chunk_torch_spect_data_dir(args)
    except BaseException as e:  # noqa
        if isinstance(e, (KeyboardInterrupt, MemoryError)):
            raise
        sig = dict(sig0, symptom="raises", type=type(e).__name__, origin=_origin(e))
        if policy == "ali":  # flags shared with the function-level classification
            span = C.ali_span(wt, v, l)
            sig["len_eq_T"] = any(u["T"] > 0 for u in utts)  # the command never passes lengths
            sig["total_segments_lt_span"] = any(
                0 < len(O.ali_segments(u["ali"], u["T"])) < span for u in utts)
        ctx.violation(sig, case, C._raise_detail(e))
        return
    if rc:
        ctx.violation(dict(sig0, symptom="nonzero-exit"), case, {"rc": rc})
        return
    # ---- file sets --------------------------------------------------------------------
    names = {}
    for sub in ("feat", "ali", "ref"):
        p = os.path.join(out, sub)
        names[sub] = sorted(os.listdir(p)) if os.path.isdir(p) else None
    if names["feat"] != names["ali"] or names["feat"] != names["ref"]:
        ctx.violation(dict(sig0, symptom="file-sets-differ"), case, names)
        return
    per_utt = {k: [] for k in range(len(utts))}
    for name in names["feat"]:
        if not (name.startswith(prefix) and name.endswith(suffix) and len(name) > len(prefix) + len(suffix)):
            ctx.violation(dict(sig0, symptom="output-file-name-lacks-prefix-or-suffix"), case,
                          {"name": name, "prefix": prefix, "suffix": suffix})
            return
        core = name[len(prefix): len(name) - len(suffix)]
        try:
            if default_fmt:
                uid, a, b = core.rsplit(".", 2)
                idx = -1
            else:
                uid, idx, a, b = core.rsplit("@", 3)
            k = names_k.index(uid)
            per_utt[k].append((int(idx), int(a), int(b), name))
        except Exception:
            ctx.violation(dict(sig0, symptom="chunk-not-labelled-with-a-source-utterance"), case,
                          {"name": name, "utterance_ids": names_k, "all_output_files": names["feat"][:12]})
            return
    if default_fmt:  # no index in the name: windows of the fixed policy are increasing
        for k in per_utt:
            per_utt[k] = [(i, a, b, n) for i, (a, b, n) in enumerate(sorted((a, b, n) for _, a, b, n in per_utt[k]))]
    if policy != "ref":  # the windows are fully determined: the exact set of output files is, too
        fmt = FMT_DEFAULT if default_fmt else FMT
        want = sorted(prefix + fmt.format(utt_id=names_k[k], idx=i, start=w[0], end=w[1]) + suffix
                      for k in range(len(utts)) for i, (w, _) in enumerate(exp[k][0]))
        if want != names["feat"]:
            missing = [n for n in want if n not in names["feat"]]
            extra = [n for n in names["feat"] if n not in want]
            ctx.count("dir_file_set_mismatch")
            # reported below per utterance with its window classification; here only if the windows agree
            if all(O.admits(exp[k][0], [(a, b) for _, a, b, _ in sorted(per_utt[k])]) for k in per_utt):
                ctx.violation(dict(sig0, symptom="output-file-set-differs"), case, {"missing": missing[:8], "extra": extra[:8]})
    f6 = False
    nchunks = 0
    for k, u in enumerate(utts):
        chunks = sorted(per_utt[k])
        obs = [(a, b) for _, a, b, _ in chunks]
        nchunks += len(obs)
        if [i for i, _, _, _ in chunks] != list(range(len(chunks))):
            ctx.violation(dict(sig0, symptom="chunk-indices-not-contiguous"), dict(case, utt=k), {"chunks": chunks})
            continue
        if not any(O.admits(e, obs) for e in exp[k]):
            sym = C._classify(exp[k][0], obs, u["T"], v,
                              (lambda a, b: O.fixed_middle(wt, l, a, b)) if policy == "fixed" else None)
            ctx.violation(dict(sig0, window_type=wt, lobe_pos=l > 0, symptom=sym or "wrong-windows"),
                          dict(case, utt=k), {"expected": exp[k][0], "observed": obs})
        ctx.outcome(hash((policy, tuple(obs))) & 0xFFFFFFFFFFFF)
        feat = _feat(u, k, seed)
        for _, a, b, name in chunks:
            if v and (a < 0 or b > u["T"]):
                ctx.violation(dict(sig0, symptom="valid-only-window-outside-sequence"), dict(case, utt=k),
                              {"window": [a, b], "T": u["T"]})
            try:
                of = torch.load(os.path.join(out, "feat", name))
                oa = torch.load(os.path.join(out, "ali", name))
                orf = torch.load(os.path.join(out, "ref", name))
                if of.ndim != 2 or oa.ndim != 1 or orf.ndim != 2 or orf.size(1) != 3:
                    raise AssertionError(f"shapes {tuple(of.shape)} {tuple(oa.shape)} {tuple(orf.shape)}")
                of, oa, orf = of.tolist(), oa.tolist(), [tuple(t) for t in orf.tolist()]
            except Exception as e:
                ctx.violation(dict(sig0, symptom="unreadable-chunk", type=type(e).__name__), dict(case, utt=k),
                              C._raise_detail(e))
                continue
            ef = O.restrict(feat, a, b, [float(PAD)] * 2)
            ea = O.restrict(u["ali"], a, b, PAD)
            if of != ef:
                ctx.violation(dict(sig0, symptom="feat-chunk-differs-from-source-window"), dict(case, utt=k),
                              {"window": [a, b], "expected": ef, "observed": of})
            if oa != ea:
                ctx.violation(dict(sig0, symptom="ali-chunk-differs-from-source-window"), dict(case, utt=k),
                              {"window": [a, b], "expected": ea, "observed": oa})
            for sym in C.tok_symptoms(u["ref"], len(u["ref"]), a, b, partial, retain, orf):
                f6 = f6 or sym == "boundary == original + slice_start"
                ctx.violation({"api": "chunk-torch-spect-data-dir", "symptom": sym, "partial": partial,
                               "retain": retain}, dict(case, utt=k),
                              {"window": [a, b], "source_ref": u["ref"],
                               "expected": O.chunk_tokens(u["ref"], len(u["ref"]), a, b, partial, retain),
                               "observed": orf})
    ctx.count("dir_chunks", nchunks)
    # ---- well-formedness of the output directory --------------------------------------
    if not partial and not retain:
        if nchunks == 0:
            ctx.count("dir_runs_without_chunks")
            return
        try:
            ds = data.SpectDataSet(out, prefix, suffix, suppress_alis=False, tokens_only=False)
            if len(ds) != nchunks:
                raise ValueError(f"data set has {len(ds)} utterances, {nchunks} chunks written")
            data.validate_spect_data_set(ds)
            ctx.count("dir_outputs_validated")
        except Exception as e:
            ctx.violation({"api": "chunk-torch-spect-data-dir", "symptom": "output-directory-invalid",
                           "token_boundaries_added_not_subtracted": f6, "type": type(e).__name__},
                          case, C._raise_detail(e))
