"""C08 - SpecAugment: drawn parameters respect every limit, application touches only masked cells,
warps read the valid frames in order and stay inside the input's range (E2 over scripted uniform
draws, plus E1 over hand-set mask parameters)."""

import hashlib
import itertools
import random

import torch

import pydrobert.torch.functional as PF
import pydrobert.torch.modules as PM

from mc.runner import Ctx
from mc.explore import Chooser, HarnessError, explore
from mc.seams import MENU_FULL, MENU_QUICK, ONE_M, ScriptedRandom
from mc.oracles import specaug as O

PROP = "C08"
LEVEL = "model_checking"
RULE = (
    "torch.rand is owned by the harness: every uniform draw SpecAugment asks for is answered from the menu "
    "{0, 2^-24, 1e-6, 1/4, 1/2, 3/4, 1-2^-24} (quick: {0, 1/4, 3/4, 1-2^-24}); floor/clamp arithmetic is monotone in "
    "the draw, so the two ends of [0,1) decide every bound and the interior points give variety. The four draw "
    "groups (time warp, frequency warp, time masks, frequency masks) each consume their own torch.rand calls and no "
    "group reads another group's draws or limits, so each group is enumerated ALONE with the other three disabled: "
    "(T,F) in {1,2,3,5,8,13}x{1,2,4}, every length 1..T packed three different lengths to a batch (plus a batch with "
    "`lengths` omitted; F is irrelevant to the time groups' draws, so the time-mask pass rotates F over the limit "
    "combinations and the quick time-warp pass pairs each T with one F), batch element n takes the menu answer rotated by n so that one batch holds different draws, "
    "every limit combination of max_time_warp {0,.3,1,3,100} x order {1,2,3}; max_freq_warp {0,1,100} x order; "
    "(max_time_mask, prop, num, prop) in {0,1,2,3,100}x{0,.3,.34,.5,1}x{0,1,2,3}x{0,.5,.67,1}; (max_freq_mask, num) "
    "in {0,1,2,100}x{0,1,3}; per leaf every warp (centre, shift) answer pair / every (width, start) answer of mask "
    "slots 0 and 1 independently (slot 1 from {0,1/4,3/4,1-2^-24}, quick {0,1-2^-24}; slot 2 tied to a rotation of the first two). The independence argument is itself "
    "tested in the JOINT pass (all four groups enabled, 3 limit sets whose limits differ between the groups, every batch, every (T,F) - "
    "quick: each (T, limit set) with one F; one choice point per "
    "group answering its (first call, second call) pair from {(0,0),(1-,1-),(0,1-),(1/4,3/4)} / thorough also "
    "{(1-,0),(1/2,1/2)}, i.e. 4^4 / 6^4 leaves): each group's parameters must be bit-identical to the same group drawn alone under the same "
    "answers. GRID pass (E1): apply_parameters on every hand-set in-range time-mask interval (and every ordered "
    "pair, T<=8 quick / 13 thorough) and every frequency interval (pair). EVAL pass: module in eval mode and "
    "functional training=False (every layout below). LAYOUT: every applied case (draw, joint and grid passes) is "
    "repeated with the same parameters on the features as a transposed dense (N,F,T)-storage view, as a strided "
    "slice of a larger tensor (storage offset, gaps) and as float64 (thorough: all three per case; quick: one per "
    "case, rotating) and must equal the contiguous float32 result (bit-identical; 1e-4 for float64 under a warp); "
    "__call__/spec_augment are fed contiguous / transposed / offset inputs in rotation; after every call the "
    "caller's tensor (and the surrounding storage of the slice) must be unchanged. KNOT pass (structural enumeration of 'distance of the warp "
    "destination to a pinned knot' x 'padded length over sequence length'): padded T in {13,40,100,400} (thorough "
    "+2048) with lengths {2,5,13} / {3,8,28} in one batch, max_time_warp {1,100} x order 1 and 100 x order 2 "
    "(thorough {1,3,100} x 1, {1,100} x 2, 100 x 3), centre answer in {0,1/2,1-2^-24}, and the shift answer solved "
    "per element so that w_0+w lands {0,1e-3,1e-2,0.1,0.3} frames from the lower / upper pinned knot (neutral 1/2 "
    "where that destination is outside the element's window); plus a sweep of every padded length T=1..64 "
    "(thorough 256) around lengths 1,2,3 with answers (0,0),(1/2,1/2),(1-,1-); all through the scripted draw, "
    "bounds, apply, position and range checks above. HISTORY pass: ONE module object "
    "driven through every history of length 1..3 over 11 steps (6 calls with T in {3,5,8}, N in {2,3}, lengths given "
    "or omitted; eval()/train(); reassigning max_time_mask, max_time_warp, num_freq_mask) that ends in a call, 2 limit "
    "sets x 2 (thorough 4) fixed answer sets x F: the last call must be bit-identical to a FRESH module with the "
    "current limits and mode under the same scripted answers; histories that reassign an attribute listed in "
    "SpecAugment.__constants__ are executed and COUNTED (constants_reassigned_honoured / _ignored), never judged. "
    "LIFECYCLE pass: mc.guards.lifecycle_variants (deepcopy, pickle, torch.save, used+deepcopy, eval+deepcopy, "
    "state_dict, state_dict-after-use, double-float, state_dict-into-other) of SpecAugment configured with every limit "
    "at its falsy-but-legal 0 / 0.0 in turn, all limits 0, and two ordinary limit sets, on inputs (T,F,lengths) in "
    "{(5,2,[2,5]),(8,4,omitted),(13,1,[1,7,13])} (quick: single-zero sets on one input each) x 4 answer-pair "
    "rotations: options and mode must be unchanged, the variant's draw must be bit-identical to the fresh object's "
    "under the same answers, and every draw/apply/__call__ check above runs on the variant against the CONFIGURED "
    "caps. ENTRY pass: 5 limit sets (nothing enabled, masks only, frequency masks only, two with warps) x the same "
    "inputs x float32 and float64 features (doubles not representable in float32) x 6 answer-pair rotations: "
    "Module.draw_parameters+apply_parameters is checked cell by cell (unmasked cells bit-identical when no warp), and "
    "Module.__call__, Module.forward, functional draw+apply and functional spec_augment must return the same dtype "
    "and bit-identical values. Every leaf is a distinct (limits, lengths, answers) triple by construction; a leaf "
    "is non-trivial when the enabled group drew a non-empty mask or a non-zero shift. states = distinct drawn "
    "parameter tuples (with their lengths), transitions = draws, traces = draws also applied and checked (and "
    "compared with SpecAugment.__call__ / functional.spec_augment under the same answers; quick: every warp/joint leaf and a quarter of the mask leaves). UNUSUAL CALLERS (round 6): "
    "every application is repeated with the lengths as int32 / int16 / uint8 / float32 / float64 tensors (same result as "
    "int64 lengths), and - when no warp is drawn - on features a third of whose valid cells are -inf / +inf (masked "
    "cells must still be zero, the others bit-identical); KNOT units with LONG valid lengths (130-250 of 250; "
    "16385 / 17000 of 17000), where 2 x length leaves the range of uint8 / int16 and the knot offset in frames grows "
    "with the padded length."
)
ASSUMPTIONS = [
    "small scope: T<=13, F<=4, N<=3, float32 features on CPU, limit menus as in RULE",
    "uniform answers come from a 7-point (quick: 4-point) menu incl. 0 and the largest float32 below 1; "
    "bounds are monotone in each draw so the end points decide them",
    "mask slot 2 (num=3) and batch elements n>0 do not get their own choice points: they take rotated answers",
    "warp window: centre in [W, len-W], |shift| <= W, W = min(max_warp, len/2), absolute tolerance 1e-5*len",
    "int(prop*len) caps: product taken exactly / in float64 / in float32 - the readings agree on the whole scope",
    "range clause read per batch element: values written to VALID frames must lie in the range of the element's "
    "VALID input frames (+-1e-3); padding frames hold a sentinel (3.0) outside the band [1,1.5] so that reading "
    "padding into a valid frame is visible; cells of padding frames only have to be finite",
    "a masked coefficient in a padding frame may be zero or untouched (the statement does not say whether a "
    "frequency band extends over padding)",
    "source positions of the time warp are observed through apply_parameters on a ramp feature (value = frame "
    "index): bilinear border-clamped sampling of a ramp returns the position read",
    "monotone/half-frame clause checked for order 1 on the time axis only (as stated); 'destination within 1e-3 "
    "frame of a pinned end knot' is computed from the drawn (centre, shift) and only classifies violations (F12)",
    "layouts: float64 is compared on apply_parameters with the float32 draw's parameters only (the draw uses the "
    "dtype's epsilon, so a float64 __call__ is a different draw); expanded (stride-0) inputs are not fed",
    "histories: length <= 3 on one object, fixed (not enumerated) answers per call; only the last call of a history is "
    "compared (shorter histories are enumerated themselves); attributes are reassigned as plain Python attributes",
    "time-warp violations are classified (never excused) by knot_gap / pad_ratio / spline_ill_conditioned = "
    "2*gap/T < 2e-3, computed from the drawn (centre, shift), the length and the padded length only",
    "TorchScript-compiled and CUDA variants not explored",
]
BUDGET_S = {"quick": 230, "thorough": 2400}

TS = (1, 2, 3, 5, 8, 13)
FS = (1, 2, 4)
MTW = (0, 0.3, 1, 3, 100)
MFW = (0, 1, 100)
TM_W = (0, 1, 2, 3, 100)
TM_P = (0, 0.3, 0.34, 0.5, 1)
TM_N = (0, 1, 2, 3)
TM_NP = (0, 0.5, 0.67, 1)
FM_W = (0, 1, 2, 100)
FM_N = (0, 1, 3)
ORDERS = (1, 2, 3)
# joint pass: one choice point per draw group; the answer is a (first call, second call) pair
JOINT_PAIRS = {
    "quick": ((0.0, 0.0), (ONE_M, ONE_M), (0.0, ONE_M), (0.25, 0.75)),
    "thorough": ((0.0, 0.0), (ONE_M, ONE_M), (0.0, ONE_M), (ONE_M, 0.0), (0.25, 0.75), (0.5, 0.5)),
}
# limits differ between the groups in every set, so a group that read another group's limit would draw differently
JOINT_CFGS = (
    dict(max_time_warp=0.3, max_freq_warp=1, max_time_mask=1, max_time_mask_proportion=1, num_time_mask=2,
         num_time_mask_proportion=1, max_freq_mask=2, num_freq_mask=1, interpolation_order=1),
    dict(max_time_warp=100, max_freq_warp=100, max_time_mask=100, max_time_mask_proportion=1, num_time_mask=3,
         num_time_mask_proportion=0.67, max_freq_mask=100, num_freq_mask=3, interpolation_order=1),
    dict(max_time_warp=3, max_freq_warp=1, max_time_mask=3, max_time_mask_proportion=0.5, num_time_mask=1,
         num_time_mask_proportion=0.5, max_freq_mask=1, num_freq_mask=3, interpolation_order=2),
)
OFF = dict(max_time_warp=0, max_freq_warp=0, max_time_mask=0, max_time_mask_proportion=0, num_time_mask=0,
           num_time_mask_proportion=0, max_freq_mask=0, num_freq_mask=0, interpolation_order=1)
GROUP_KEYS = {
    "tw": ("max_time_warp",),
    "fw": ("max_freq_warp",),
    "tm": ("max_time_mask", "max_time_mask_proportion", "num_time_mask", "num_time_mask_proportion"),
    "fm": ("max_freq_mask", "num_freq_mask"),
}
SENTINEL = 3.0
API_D = "SpecAugment.draw_parameters"
API_A = "SpecAugment.apply_parameters"


# ----------------------------------------------------------------------------- the space
def _batches(T, tier):
    """Every length 1..T, three different lengths to a batch; None = `lengths` omitted (N=2)."""
    ls = list(range(1, T + 1))
    out = [ls[i: i + 3] for i in range(0, T, 3)]
    if tier == "thorough" and T > 1:
        out += [list(reversed(b)) for b in out if len(b) > 1]
    return out + [None]


def _menu(tier):
    return MENU_FULL if tier == "thorough" else MENU_QUICK


def _menu1(tier):
    """Menu of mask slot 1 (slot 0 always takes the full menu)."""
    return MENU_QUICK if tier == "thorough" else (0.0, ONE_M)


def _enabled(cfg):
    return {
        "tw": bool(cfg["max_time_warp"]),
        "fw": bool(cfg["max_freq_warp"]),
        "tm": all(cfg[k] for k in GROUP_KEYS["tm"]),
        "fm": all(cfg[k] for k in GROUP_KEYS["fm"]),
    }


def _leaves(unit, tier):
    K = len(_menu(tier))
    cfg, p = unit["cfg"], unit["pass"]
    if p in ("tw", "fw"):
        return K * K if _enabled(cfg)[p] else 1
    K1 = len(_menu1(tier))
    if p == "tm":
        return (K * K * (K1 * K1 if cfg["num_time_mask"] > 1 else 1)) if _enabled(cfg)["tm"] else 1
    if p == "fm":
        return (K * K * (K1 * K1 if cfg["num_freq_mask"] > 1 else 1)) if _enabled(cfg)["fm"] else 1
    if p == "joint":
        return len(JOINT_PAIRS[tier]) ** 4
    if p == "hist":
        return 1000
    if p == "life":
        return 40 * 6
    if p == "entry":
        return 6 * 6
    if p == "knot":
        return (30 if unit["mode"] == "dist" else 3) * (1 + unit["T"] // 100)
    if p == "grid":
        L = unit["T"]
        s = (L + 1) * (L + 2) // 2
        return s ** unit["M"] if unit["axis"] == "t" else 60
    return 4


def all_units(tier):
    thorough = tier == "thorough"
    units = []
    for ti, T in enumerate(TS):
        bs = _batches(T, tier)
        # time warp alone
        for F in (FS if thorough else (FS[ti % 3],)):
            for lens in bs:
                for mtw in MTW:
                    for order in (ORDERS if mtw else (1,)):
                        units.append(dict({"pass": "tw", "T": T, "F": F, "lens": lens},
                                          cfg=dict(OFF, max_time_warp=mtw, interpolation_order=order)))
        # frequency warp alone (lengths matter only through padding: first / last batch, omitted)
        for F in FS:
            for lens in ([bs[0], bs[-2], None] if len(bs) > 2 else bs):
                for mfw in MFW:
                    for order in (ORDERS if mfw else (1,)):
                        units.append(dict({"pass": "fw", "T": T, "F": F, "lens": lens},
                                          cfg=dict(OFF, max_freq_warp=mfw, interpolation_order=order)))
        # time masks alone; F does not enter the draw: rotate it over the configurations
        ci = 0
        for lens in bs:
            for w, pr, n, npr in itertools.product(TM_W, TM_P, TM_N, TM_NP):
                ci += 1
                units.append(dict({"pass": "tm", "T": T, "F": FS[(ci + ti) % 3], "lens": lens},
                                  cfg=dict(OFF, max_time_mask=w, max_time_mask_proportion=pr, num_time_mask=n,
                                           num_time_mask_proportion=npr)))
        # frequency masks alone
        for F in FS:
            for lens in ([bs[0], bs[-2], None] if len(bs) > 2 else bs):
                for w, n in itertools.product(FM_W, FM_N):
                    units.append(dict({"pass": "fm", "T": T, "F": F, "lens": lens},
                                      cfg=dict(OFF, max_freq_mask=w, num_freq_mask=n)))
        # joint pass
        for F in FS:
            for lens in bs:
                for ji, cfg in enumerate(JOINT_CFGS):
                    if not thorough and (ji + ti) % 3 != FS.index(F):
                        continue  # quick: each (T, limit set) with one F, every F with every limit set
                    units.append({"pass": "joint", "T": T, "F": F, "lens": lens, "cfg": dict(cfg)})
        # hand-set masks
        for F in FS:
            for lens in bs:
                for M in (1, 2):
                    if M == 2 and T > 8 and not thorough:
                        continue
                    units.append({"pass": "grid", "axis": "t", "M": M, "T": T, "F": F, "lens": lens, "cfg": dict(OFF)})
                units.append({"pass": "grid", "axis": "f", "M": 2, "T": T, "F": F, "lens": lens, "cfg": dict(OFF)})
            units.append({"pass": "eval", "T": T, "F": F, "lens": None, "cfg": dict(JOINT_CFGS[1])})
    # destination of the time warp at fixed distances from the pinned knots, short sequences in long batches
    for T in ((13, 40, 100, 400, 2048) if thorough else (13, 40, 100, 400)):
        for lens in ([2, 5, 13], [3, 8, 28]):
            lens = [L for L in lens if L <= T]
            for mtw, order in (((1, 1), (3, 1), (100, 1), (1, 2), (100, 2), (100, 3)) if thorough
                               else ((1, 1), (100, 1), (100, 2))):
                units.append({"pass": "knot", "mode": "dist", "T": T, "F": 1 if order == 1 else 2, "lens": lens,
                              "cfg": dict(OFF, max_time_warp=mtw, interpolation_order=order)})
    # LONG valid lengths (round 6): 2 * length exceeds the range of uint8 (>= 128) / int16 (>= 16384) - the lengths-dtype
    # variants of _check_apply then cross the point where a narrow integer type wraps
    for T, lens, mtws in ((250, [130, 200, 250], ((3, 1), (100, 1), (100, 2))), (17000, [16385, 17000], ((100, 1),))):
        for mtw, order in mtws:
            units.append({"pass": "knot", "mode": "dist", "T": T, "F": 1 if order == 1 else 2, "lens": lens,
                          "cfg": dict(OFF, max_time_warp=mtw, interpolation_order=order)})
    for T in range(1, 257 if thorough else 65):  # every padded length around very short sequences
        units.append({"pass": "knot", "mode": "sweep", "T": T, "F": 1, "lens": [L for L in (1, 2, 3) if L <= T],
                      "cfg": dict(OFF, max_time_warp=100, interpolation_order=1)})
    # lifecycle variants of configured objects (falsy-but-legal limits in turn) and all public entry points
    for li, (_, cfg) in enumerate(_life_cfgs()):
        for ii, (T, F, lens) in enumerate(LIFE_INPUTS):
            if not thorough and (li + ii) % 3 and li > 2:
                continue  # quick: the three base sets on every input, each single-zero set on one input
            units.append({"pass": "life", "T": T, "F": F, "lens": lens, "cfg": dict(cfg)})
    for cfg in ENTRY_CFGS:
        for T, F, lens in LIFE_INPUTS:
            for dtype in ("float32", "float64"):
                units.append({"pass": "entry", "T": T, "F": F, "lens": lens, "cfg": dict(cfg), "dtype": dtype})
    # histories on one module object
    for ci, cfg in enumerate(HIST_CFGS):
        for fi, F in enumerate(FS):
            for aset in (range(4) if thorough else range(2)):
                if not thorough and (ci + aset) % 3 != fi:
                    continue  # quick: one F per (limit set, answer set)
                for first in range(len(_hist_steps(cfg))):
                    units.append({"pass": "hist", "T": 1, "F": F, "lens": None, "cfg": dict(cfg), "ci": ci,
                                  "aset": aset, "first": first})
    return units


def shards(tier, seed):
    units = all_units(tier)
    K = 48 if tier == "quick" else 128
    cost = [(_leaves(u, tier) * (3 if u["pass"] in ("tw", "fw", "joint", "knot") else 1) + 5, i) for i, u in enumerate(units)]
    cost.sort(reverse=True)
    load = [0] * K
    bins = [[] for _ in range(K)]
    for c, i in cost:  # longest-processing-time first
        k = min(range(K), key=load.__getitem__)
        load[k] += c
        bins[k].append(i)
    order = sorted(range(K), key=lambda k: -load[k])
    return [{"shard": n, "units": sorted(bins[k])} for n, k in enumerate(order) if bins[k]]


# ----------------------------------------------------------------------------- environment of one unit
class Env:
    def __init__(self, unit, tier, seed):
        self.unit, self.tier, self.seed = unit, tier, seed
        T, F, lens = unit["T"], unit["F"], unit["lens"]
        self.T, self.F = T, F
        self.lens_eff = [T, T] if lens is None else list(lens)
        self.N = len(self.lens_eff)
        self.lengths = None if lens is None else torch.tensor(lens, dtype=torch.long)
        rng = random.Random(f"c08-{seed}-{T}-{F}-{lens}")
        vals = [[[SENTINEL if t >= L else 1.0 + 0.5 * rng.random() for _ in range(F)] for t in range(T)]
                for L in self.lens_eff]
        # float64 units: the band values are arbitrary doubles, i.e. NOT representable in float32
        self.dtype = torch.float64 if unit.get("dtype") == "float64" else torch.float32
        self.feats = torch.tensor(vals, dtype=self.dtype)
        self.inp = self.feats.tolist()
        self.vlo = [min(min(r) for r in self.inp[n][:L]) for n, L in enumerate(self.lens_eff)]
        self.vhi = [max(max(r) for r in self.inp[n][:L]) for n, L in enumerate(self.lens_eff)]
        self.ramp = torch.arange(T, dtype=self.dtype).view(1, T, 1).expand(self.N, T, F).contiguous()
        self.keep = self.feats.clone()
        self._variants = None
        self.cfg = dict(unit["cfg"])
        self.module = PM.SpecAugment(**self.cfg)
        self.module.train()
        self.en = _enabled(self.cfg)

    def variants(self):
        """The same features in other memory layouts / precision: (name, tensor handed to the library,
        caller-side storage, pristine copy of that storage)."""
        if self._variants is None:
            self._variants = _layout_variants(self.feats)
        return self._variants

    def functional_args(self):
        c = self.cfg
        return (c["max_time_warp"], c["max_freq_warp"], c["max_time_mask"], c["max_freq_mask"],
                c["max_time_mask_proportion"], c["num_time_mask"], c["num_time_mask_proportion"],
                c["num_freq_mask"])


LAYOUTS = ("transposed", "offset", "float64")
LENGTH_DTYPES = (torch.int32, torch.int16, torch.uint8, torch.float32, torch.float64)


def _layout_variants(feats):
    N, T, F = feats.shape
    stored = feats.transpose(1, 2).contiguous()  # coefficient-major (N, F, T) storage
    big = torch.full((N + 1, T + 2, F + 1), 7.0, dtype=feats.dtype)
    big[1:, 1:T + 1, :F] = feats
    dbl = feats.double()
    return {
        "transposed": (stored.transpose(1, 2), stored, stored.clone()),  # dense, non-contiguous view
        "offset": (big[1:, 1:T + 1, :F], big, big.clone()),  # strided slice with storage offset and gaps
        "float64": (dbl, dbl, dbl.clone()),
    }


def _same(a, b, exact, rtol=1e-4):
    """a vs reference b (b float32 contiguous); NaNs must coincide."""
    if tuple(a.shape) != tuple(b.shape):
        return False
    a, b = a.double(), b.double()
    if not torch.equal(a.isnan(), b.isnan()):
        return False
    a, b = a.nan_to_num(0.0), b.nan_to_num(0.0)
    return torch.equal(a, b) if exact else bool(((a - b).abs() <= rtol * (1 + b.abs())).all())


def _check_layouts(ctx, env, case, warped, which, fn, ref, api, extra=None):
    """Run `fn(feature tensor)` on the named layout variants; the result must equal `ref` (computed on the
    contiguous float32 tensor) and the caller's storage must be left unchanged."""
    for name in which:
        view, storage, pristine = env.variants()[name]
        sig = dict({"api": api, "layout": name, "warped": warped}, **(extra or {}))
        try:
            out = fn(view)
        except HarnessError:
            raise
        except Exception as e:
            ctx.violation(dict(sig, symptom="raises", type=type(e).__name__), dict(case, layout=name),
                          {"error": str(e)[-400:]})
            continue
        # a float32 sampling position on an axis of T frames is only good to ~1e-7 * T frames: the float64 feed may
        # differ from the float32 one by that much of a neighbouring-frame difference on very long axes
        if not isinstance(out, torch.Tensor) or out.dtype != view.dtype or not _same(
                out, ref, exact=not (warped and name == "float64"), rtol=max(1e-4, 4e-7 * env.T)):
            ctx.violation(dict(sig, symptom="result-depends-on-memory-layout"), dict(case, layout=name),
                          {"layout_strides": list(view.stride()), "dtype": str(view.dtype),
                           "contiguous_float32_result": ref.tolist(),
                           "this_layout_result": out.tolist() if isinstance(out, torch.Tensor) else repr(out)})
        else:
            ctx.count("layout_" + name + "_equal")
        if not torch.equal(storage, pristine):
            ctx.violation(dict(sig, symptom="caller-input-modified"), dict(case, layout=name),
                          {"before": pristine.tolist(), "after": storage.tolist()})
            storage.copy_(pristine)


def _check_input_kept(ctx, env, case, api):
    if not torch.equal(env.feats, env.keep):
        ctx.violation({"api": api, "layout": "contiguous", "symptom": "caller-input-modified"}, case,
                      {"before": env.keep.tolist(), "after": env.feats.tolist()})
        env.feats.copy_(env.keep)


def _which_layouts(env, salt):
    """thorough: every layout on every case; quick: one layout per case, rotating with the case."""
    return LAYOUTS if env.tier == "thorough" else (LAYOUTS[salt % 3],)


def _uniform(menu, mode, menu1=None):
    """Scripted torch.rand: `slot` = one choice point per column (mask slot) for columns 0 and 1 (column 1
    from `menu1` when given), further columns tied; `call` = one choice point per call.  Batch element n
    takes the answer rotated by n."""
    K = len(menu)
    menu1 = menu1 or menu

    def uniform(shape, dtype, device, label, ch):
        N = shape[0] if shape else 1
        M = 1
        for s in shape[1:]:
            M *= s
        if mode == "call":
            c = ch.choose(K, label)
            cs = [(c + j) % K for j in range(M)]
        else:
            cs = []
            for j in range(M):
                if j == 0:
                    cs.append(ch.choose(K, f"{label}[:,0]"))
                elif j == 1:
                    cs.append(ch.choose(len(menu1), f"{label}[:,1]"))
                else:
                    cs.append((cs[0] + 2 * cs[1] + j) % K)
        vals = [[(menu1[(cs[j] + n) % len(menu1)] if j == 1 else menu[(cs[j] + n) % K]) for j in range(M)]
                for n in range(N)]
        return torch.tensor(vals, dtype=torch.float64).to(dtype).view(shape)

    return uniform


def _uniform_pairs(pairs):
    """Joint pass: the two rand calls of one draw group share one choice point whose answer is a
    (first call, second call) pair; batch element n / mask slot j take the pair rotated by n + j."""
    K = len(pairs)
    st = {"i": 0, "c": 0}

    def uniform(shape, dtype, device, label, ch):
        which = st["i"] % 2
        if which == 0:
            st["c"] = ch.choose(K, label)
        st["i"] += 1
        N = shape[0] if shape else 1
        M = 1
        for s in shape[1:]:
            M *= s
        vals = [[pairs[(st["c"] + n + j) % K][which] for j in range(M)] for n in range(N)]
        return torch.tensor(vals, dtype=torch.float64).to(dtype).view(shape)

    return uniform


def _fixed(answers):
    """Scripted torch.rand that hands out recorded answer tensors (independence cross-check)."""
    answers = list(answers)

    def uniform(shape, dtype, device, label, ch):
        if not answers:
            raise HarnessError("group-alone run asked for more uniform draws than the joint run gave its group")
        a = answers.pop(0)
        if tuple(a.shape) != tuple(shape):
            raise HarnessError(f"group-alone run asked for shape {shape}, joint run drew {tuple(a.shape)}")
        return a.clone()

    return uniform


def _plist(params):
    return [None if p is None else p.tolist() for p in params]


def _empty(p):
    return p is None or p.numel() == 0


# ----------------------------------------------------------------------------- checks on one draw
def _check_draw(ctx, env, params, case):
    """Bounds of every group for every batch element.  Returns (ok, info)."""
    cfg, en, N = env.cfg, env.en, env.N
    ok = True
    groups = (("tw", 0, 1), ("fw", 2, 3), ("tm", 4, 5), ("fm", 6, 7))

    def bad(group, symptom, n=None, **detail):
        nonlocal ok
        ok = False
        ctx.violation({"api": API_D, "group": group, "symptom": symptom}, dict(case, n=n),
                      dict(detail, params=_plist(params), lens=env.lens_eff, cfg=cfg))

    if not isinstance(params, (tuple, list)) or len(params) != 8:
        bad("all", "not-eight-parameters")
        return False, {}
    nontrivial = False
    for g, a, b in groups:
        pa, pb = params[a], params[b]
        if not en[g]:
            if not (_empty(pa) and _empty(pb)):
                bad(g, "disabled-step-drew-parameters")
            continue
        if _empty(pa) or _empty(pb):
            bad(g, "enabled-step-drew-nothing")
            continue
        if g in ("tw", "fw"):
            if tuple(pa.shape) != (N,) or tuple(pb.shape) != (N,):
                bad(g, "wrong-parameter-shape", shapes=[list(pa.shape), list(pb.shape)])
                continue
            la, lb = pa.tolist(), pb.tolist()
            for n in range(N):
                length = env.lens_eff[n] if g == "tw" else env.F
                mw = cfg["max_time_warp"] if g == "tw" else cfg["max_freq_warp"]
                for pr in O.check_warp(la[n], lb[n], length, mw):
                    bad(g, pr, n, centre=la[n], shift=lb[n], window=O.warp_window(length, mw))
                if lb[n] != 0.0:
                    nontrivial = True
        else:
            num = cfg["num_time_mask"] if g == "tm" else cfg["num_freq_mask"]
            if tuple(pa.shape) != (N, num) or tuple(pb.shape) != (N, num):
                bad(g, "wrong-parameter-shape", shapes=[list(pa.shape), list(pb.shape)])
                continue
            if pa.dtype.is_floating_point or pb.dtype.is_floating_point:
                bad(g, "non-integer-mask-parameter")
                continue
            la, lb = pa.tolist(), pb.tolist()
            for n in range(N):
                if g == "tm":
                    prs = O.check_masks(la[n], lb[n], env.lens_eff[n], cfg["max_time_mask"],
                                        cfg["max_time_mask_proportion"], cfg["num_time_mask"],
                                        cfg["num_time_mask_proportion"])
                else:
                    prs = O.check_masks(la[n], lb[n], env.F, cfg["max_freq_mask"], None, cfg["num_freq_mask"], None)
                for pr in sorted(set(prs)):
                    bad(g, pr, n, starts=la[n], widths=lb[n])
                if any(w > 0 for w in lb[n]):
                    nontrivial = True
    return ok, {"nontrivial": nontrivial}


def _knot_sig(centre, shift, L, T):
    """Classifies a time-warp violation by how close the destination is to a pinned knot and how much
    longer the padded axis is than the sequence."""
    return {"knot_gap": O.knot_gap_class(O.knot_gap(centre, shift, L)), "pad_ratio": O.pad_ratio_class(T, L),
            "spline_ill_conditioned": O.spline_ill_conditioned(centre, shift, L, T)}


def _mask_sets(env, params):
    rows = [set() for _ in range(env.N)]
    cols = [set() for _ in range(env.N)]
    if not _empty(params[4]) and not _empty(params[5]):
        s, w = params[4].tolist(), params[5].tolist()
        rows = [O.masked_sets(s[n], w[n], env.T) for n in range(env.N)]
    if not _empty(params[6]) and not _empty(params[7]):
        s, w = params[6].tolist(), params[7].tolist()
        cols = [O.masked_sets(s[n], w[n], env.F) for n in range(env.N)]
    return rows, cols


def _check_apply(ctx, env, params, case, out=None):
    """Apply the drawn (or hand-set) parameters and check the result.  Returns the output or None."""
    mod = env.module
    warped_t = not _empty(params[0]) and not _empty(params[1])
    warped_f = not _empty(params[2]) and not _empty(params[3])
    warped = warped_t or warped_f
    order = env.cfg["interpolation_order"]
    if out is None:
        try:
            if case.get("module_only") or (sum(case.get("choices", ())) // 2 + case.get("k", 0) + env.N) % 2:
                out = mod.apply_parameters(env.feats, params, env.lengths)
            else:
                out = PF.spec_augment_apply_parameters(env.feats, params, order, env.lengths)
        except Exception as e:
            sig = {"api": API_A, "symptom": "raises", "type": type(e).__name__, "warped": warped}
            if warped_t:
                a, b = params[0].tolist(), params[1].tolist()
                sig["spline_ill_conditioned"] = any(
                    O.spline_ill_conditioned(a[n], b[n], env.lens_eff[n], env.T) for n in range(env.N))
            ctx.violation(sig, case, {"error": str(e)[-400:], "params": _plist(params), "lens": env.lens_eff,
                                      "T": env.T})
            return None
        _check_input_kept(ctx, env, case, API_A)
    if not isinstance(out, torch.Tensor) or tuple(out.shape) != tuple(env.feats.shape) or out.dtype != env.feats.dtype:
        ctx.violation({"api": API_A, "symptom": "shape-differs", "warped": warped}, case,
                      {"expected": list(env.feats.shape), "observed": list(getattr(out, "shape", []))})
        return None
    rows, cols = _mask_sets(env, params)
    o = out.tolist()
    w0 = params[0].tolist() if warped_t else None
    w = params[1].tolist() if warped_t else None
    v0 = params[2].tolist() if warped_f else None
    v = params[3].tolist() if warped_f else None
    for n in range(env.N):
        L = env.lens_eff[n]
        probs, st = O.check_application(env.inp[n], o[n], L, rows[n], cols[n], warped, env.vlo[n], env.vhi[n])
        seen = set()
        for pr in probs:
            if pr[0] in seen:
                continue
            seen.add(pr[0])
            sig = {"api": API_A, "symptom": pr[0], "warped": warped}
            if pr[0] in ("value-outside-input-range", "non-finite-value"):
                on_end = bool(warped_t and O.dst_on_pinned_end(w0[n], w[n], L))
                if pr[0] == "non-finite-value" and warped_f:
                    on_end = on_end or O.dst_on_pinned_end(v0[n], v[n], env.F)
                sig.update(linear=order == 1, order=order, dst_on_pinned_end=on_end)
                if warped_t:
                    sig.update(_knot_sig(w0[n], w[n], L, env.T))
            ctx.violation(sig, dict(case, n=n),
                          {"cell": list(pr[1:]), "input": env.inp[n], "output": o[n], "length": L,
                           "masked_frames": sorted(rows[n]), "masked_coefficients": sorted(cols[n]),
                           "valid_range": [env.vlo[n], env.vhi[n]], "params": _plist(params)})
        ctx.count("cells_zeroed", st.get("zeroed", 0))
    # ---- the same parameters on other memory layouts / in float64 -------------------------
    salt = sum(case.get("choices", ())) + case.get("k", 0)
    _check_layouts(ctx, env, case, warped, _which_layouts(env, salt),
                   lambda x: mod.apply_parameters(x, params, env.lengths), out, API_A,
                   {"time_warp": warped_t})
    # ---- unusual but legal callers (round 6) ----------------------------------------------------
    # (a) apply_parameters documents `lengths` as "a tensor of shape (N,)": the same lengths in every integer / float
    # dtype that holds them must give the result the int64 lengths give (narrow integer types wrap in 2 * lengths)
    if env.lengths is not None:
        for dt in LENGTH_DTYPES:
            if dt == torch.uint8 and (max(env.lens_eff) > 255 or env.T > 255):
                continue  # the type must hold the padded length too (torch refuses to compare a uint8 tensor with T)
            try:
                alt = mod.apply_parameters(env.feats, params, env.lengths.to(dt))
            except Exception as ex:
                ctx.violation({"api": API_A, "symptom": "raises", "type": type(ex).__name__, "warped": warped,
                               "lengths_dtype": str(dt)}, dict(case, lengths_dtype=str(dt)), {"error": str(ex)[-300:]})
                continue
            if not _same(alt, out, exact=not warped):
                ctx.violation({"api": API_A, "symptom": "result-depends-on-dtype-of-lengths", "warped": warped,
                               "lengths_dtype": str(dt), "doubled_length_overflows_dtype":
                               (not dt.is_floating_point) and 2 * max(env.lens_eff) > torch.iinfo(dt).max},
                              dict(case, lengths_dtype=str(dt)),
                              {"lengths": env.lens_eff, "int64_lengths_result": out.tolist(), "this_result": alt.tolist()})
            else:
                ctx.count("lengths_dtype_variants_equal")
    # (b) "every feature batch": log-energies of silent cells are -inf.  Without a warp (interpolating infinities is
    # not judged) masked cells of valid frames must still come out as zero and every other valid cell bit-identical
    if not warped and (any(rows) or any(cols)):
        inf_feats = env.feats.clone()
        for n in range(env.N):
            for t in range(env.lens_eff[n]):
                for f in range(env.F):
                    if (n + t + 2 * f) % 3 == 0:
                        inf_feats[n, t, f] = float("inf") if (t + f) % 4 == 1 else float("-inf")
        try:
            got = mod.apply_parameters(inf_feats.clone(), params, env.lengths)
        except Exception as ex:
            got = None
            ctx.violation({"api": API_A, "symptom": "raises", "type": type(ex).__name__, "warped": False,
                           "features": "with-infinite-cells"}, case, {"error": str(ex)[-300:]})
        if got is not None:
            bad = None
            for n in range(env.N):
                for t in range(env.lens_eff[n]):
                    for f in range(env.F):
                        g, x = got[n, t, f].item(), inf_feats[n, t, f].item()
                        masked = t in rows[n] or f in cols[n]
                        if (masked and g != 0.0) or (not masked and g != x):
                            bad = bad or (n, t, f, masked, x, g)
            if bad:
                ctx.violation({"api": API_A, "symptom": "masked-cell-not-zero" if bad[3] else "unmasked-cell-changed",
                               "warped": False, "features": "with-infinite-cells"}, dict(case, inf_cells=True),
                              {"cell": list(bad[:3]), "input": bad[4], "output": bad[5],
                               "masked_frames": [sorted(r) for r in rows], "masked_coefficients": [sorted(c) for c in cols]})
            else:
                ctx.count("applications_on_features_with_infinite_cells")
    # ---- positions read by the time warp (ramp probe, masks stripped) ---------------------
    if warped_t:
        e = torch.empty(0)
        try:
            pos = mod.apply_parameters(env.ramp, (params[0], params[1], e, e, e, e, e, e), env.lengths)
        except Exception as ex:
            ctx.violation({"api": API_A, "symptom": "raises", "type": type(ex).__name__, "warped": True}, case,
                          {"error": str(ex)[-400:], "probe": "ramp"})
            return out
        pl = pos[:, :, 0].tolist()
        for n in range(env.N):
            L = env.lens_eff[n]
            on_end = O.dst_on_pinned_end(w0[n], w[n], L)
            ctx.count("warps_dst_on_pinned_end" if on_end else "warps_dst_interior")
            if order == 1:
                for pr in O.check_linear_positions(pl[n], L):
                    src, dst = O.destination(w0[n], w[n], L)
                    ctx.violation(dict({"api": API_A, "group": "time_warp", "symptom": pr, "order": order,
                                        "linear": True, "dst_on_pinned_end": on_end},
                                       **_knot_sig(w0[n], w[n], L, env.T)), dict(case, n=n),
                                  {"positions_read_for_valid_frames": pl[n][:L], "length": L, "T": env.T,
                                   "w_0": w0[n], "w": w[n], "clamped_source": src, "clamped_destination": dst})
                _outcome(ctx, 8, 1, L, [round(x * 4) for x in pl[n][:L]])
            else:
                _outcome(ctx, 8, order, L, [round(x) for x in pl[n][:L]])
    return out


def _state(ctx, env, params):
    h = hashlib.blake2b(repr((env.lens_eff, env.F)).encode(), digest_size=8)
    for p in params:
        h.update(b"|" if p is None else p.numpy().tobytes() + b"|")
    ctx.state(int.from_bytes(h.digest(), "big"))


PASS_ID = {"life": 11, "entry": 12, "knot": 10, "hist": 9, "tw": 1, "fw": 2, "tm": 3, "fm": 4, "joint": 5, "grid": 6, "eval": 7}


def _outcome(ctx, *parts):
    """Cheap stable hash of nested lists of numbers (no strings: independent of PYTHONHASHSEED)."""
    def tup(x):
        return tuple(tup(y) for y in x) if isinstance(x, (list, tuple, set)) else x
    ctx.outcome(hash(tup(parts)) & 0x7FFFFFFFFFFFFFFF)


# ----------------------------------------------------------------------------- draw passes
def _run_draw_leaf(ctx, env, chooser, mk_uniform, case_base, full=True):
    """One execution: draw under the script, check bounds, apply, check, compare with __call__."""
    mod = env.module
    kk = case_base.get("k", 0) if isinstance(case_base.get("k", 0), int) else 0  # knot pass: leaf index
    with ScriptedRandom(chooser, uniform=mk_uniform()) as sr:
        try:
            if case_base.get("module_only") or (sum(chooser.prefix) + kk) % 2:  # == sum(choices): unexplored points default to answer 0
                params = mod.draw_parameters(env.feats, env.lengths)
            else:
                params = PF.spec_augment_draw_parameters(env.feats, *env.functional_args(), env.lengths)
            err = None
        except HarnessError:
            raise
        except Exception as e:
            err = e
    case = dict(case_base, choices=chooser.choices)
    ctx.transitions += 1
    _check_input_kept(ctx, env, case, API_D)
    if err is not None:
        ctx.case(1, 0)
        ctx.violation({"api": API_D, "symptom": "raises", "type": type(err).__name__,
                       "group": env.unit["pass"]}, case, {"error": str(err)[-400:], "cfg": env.cfg})
        return None, sr.calls
    ok, info = _check_draw(ctx, env, params, case)
    ctx.case(1, 1 if info.get("nontrivial") else 0)
    _state(ctx, env, params)
    if not ok:
        return params, sr.calls
    out = _check_apply(ctx, env, params, case)
    if out is None:
        return params, sr.calls
    ctx.traces += 1
    if full or sum(chooser.choices) % 4 == 0:
        # the public entry points under the same answers must give the same tensor
        ch2 = Chooser(prefix=chooser.choices)
        # float32 layouts only: the draw itself uses the dtype's epsilon, so a float64 call is another draw
        lay = ("contiguous", "transposed", "offset")[(sum(chooser.choices) // 3 + kk) % 3]
        x_in = env.feats if lay == "contiguous" else env.variants()[lay][0]
        with ScriptedRandom(ch2, uniform=mk_uniform()):
            try:
                if case_base.get("module_only") or (sum(chooser.choices) + len(chooser.choices) // 2 + kk // 3) % 2:
                    out2 = mod(x_in, env.lengths)
                    api = "SpecAugment.__call__"
                else:
                    out2 = PF.spec_augment(x_in, *env.functional_args(), env.cfg["interpolation_order"],
                                           env.lengths, True)
                    api = "functional.spec_augment"
                err = None
            except HarnessError:
                raise
            except Exception as e:
                err = e
        _check_input_kept(ctx, env, case, api)
        if lay != "contiguous":
            _, storage, pristine = env.variants()[lay]
            if not torch.equal(storage, pristine):
                ctx.violation({"api": api, "layout": lay, "symptom": "caller-input-modified"}, case, {})
                storage.copy_(pristine)
        if err is not None:
            ctx.violation({"api": api, "symptom": "raises", "type": type(err).__name__, "layout": lay}, case,
                          {"error": str(err)[-400:]})
        elif tuple(out2.shape) != tuple(out.shape) or not torch.equal(out2.isnan(), out.isnan()) or not torch.equal(
                out2.nan_to_num(0.0), out.nan_to_num(0.0)):
            ctx.violation({"api": api, "symptom": "differs-from-draw-then-apply", "layout": lay}, case,
                          {"call": out2.tolist(), "draw_then_apply": out.tolist(), "layout": lay})
        else:
            ctx.count("call_equals_draw_then_apply")
    rows, cols = _mask_sets(env, params)
    _outcome(ctx, PASS_ID[env.unit["pass"]], [sorted(r) for r in rows], [sorted(c) for c in cols])
    return params, sr.calls


def _run_group_unit(ctx, env, ui, only=None):
    unit = env.unit
    menu = _menu(env.tier)
    full = env.tier == "thorough" or unit["pass"] in ("tw", "fw")

    def mk():
        return _uniform(menu, "slot", _menu1(env.tier))

    base = {"unit": unit, "tier": env.tier, "seed": env.seed, "ui": ui}
    if only is not None:
        _run_draw_leaf(ctx, env, Chooser(prefix=only), mk, base, full)
        return
    first = True
    for ch, res in explore(lambda ch: _run_draw_leaf(ctx, env, ch, mk, base, full)):
        if isinstance(res, Exception):
            raise res
        if first and res[0] is not None and any((not _empty(res[0][i])) and bool((res[0][i] != 0).any())
                                                for i in (1, 3, 5, 7)):
            first = False
            ctx.sample({"pass": unit["pass"], "T": env.T, "F": env.F, "lengths": unit["lens"],
                        "limits": {k: v for k, v in env.cfg.items() if v}, "answers": [c[2] for c in res[1]],
                        "params": _plist(res[0]) if res[0] is not None else None})


def _alone_env(env, group, cache):
    if group not in cache:
        cfg = dict(OFF, interpolation_order=env.cfg["interpolation_order"])
        for k in GROUP_KEYS[group]:
            cfg[k] = env.cfg[k]
        cache[group] = Env(dict(env.unit, cfg=cfg), env.tier, env.seed)
    return cache[group]


def _run_joint_unit(ctx, env, ui, only=None):
    unit = env.unit
    pairs = JOINT_PAIRS[env.tier]

    def mk():
        return _uniform_pairs(pairs)

    base = {"unit": unit, "tier": env.tier, "seed": env.seed, "ui": ui}
    cache = {}
    slots = {"tw": (0, 1), "fw": (2, 3), "tm": (4, 5), "fm": (6, 7)}

    def leaf(ch):
        params, calls = _run_draw_leaf(ctx, env, ch, mk, base)
        if params is None:
            return
        # independence: each group alone under the answers it received in the joint run.
        # Calls are made in the documented order (steps 1-4), two per enabled group.
        k = 0
        for g in ("tw", "fw", "tm", "fm"):
            if not env.en[g]:
                continue
            ans = [torch.tensor(calls[k][2], dtype=torch.float32).view(calls[k][1]),
                   torch.tensor(calls[k + 1][2], dtype=torch.float32).view(calls[k + 1][1])]
            k += 2
            alone = _alone_env(env, g, cache)
            with ScriptedRandom(Chooser(), uniform=_fixed(ans)):
                pa = alone.module.draw_parameters(alone.feats, alone.lengths)
            a, b = slots[g]
            same = all(tuple(pa[i].shape) == tuple(params[i].shape) and torch.equal(pa[i], params[i]) for i in (a, b))
            if not same:
                ctx.violation({"api": API_D, "symptom": "group-depends-on-other-groups", "group": g},
                              dict(base, choices=ch.choices),
                              {"joint": _plist(params), "alone": _plist(pa), "group": g})
            else:
                ctx.count("group_alone_equals_joint")
        if k != len(calls):
            raise HarnessError(f"joint run made {len(calls)} uniform calls, {k} expected from the enabled steps")

    if only is not None:
        leaf(Chooser(prefix=only))
        return
    for ch, res in explore(leaf):
        if isinstance(res, Exception):
            raise res


# ----------------------------------------------------------------------------- hand-set masks (E1)
def _intervals(L):
    return [(s, w) for w in range(0, L + 1) for s in range(0, L - w + 1)]


def _grid_params(env, k):
    unit = env.unit
    N, T, F, M = env.N, env.T, env.F, unit["M"]
    e = torch.empty(0)
    if unit["axis"] == "t":
        t0, t = [], []
        for n in range(N):
            iv = _intervals(env.lens_eff[n])
            idx = (k + 7 * n) % (len(iv) ** M)
            sel = [iv[(idx // (len(iv) ** j)) % len(iv)] for j in range(M)]
            t0.append([s for s, _ in sel])
            t.append([w for _, w in sel])
        iv = _intervals(F)
        mf = k % 3
        if mf == 0:
            f0 = f = e
        else:
            f0 = torch.tensor([[iv[(k // 3 + 5 * n + 3 * j) % len(iv)][0] for j in range(mf)] for n in range(N)])
            f = torch.tensor([[iv[(k // 3 + 5 * n + 3 * j) % len(iv)][1] for j in range(mf)] for n in range(N)])
        return (e, e, e, e, torch.tensor(t0), torch.tensor(t), f0, f)
    iv = _intervals(F)
    f0, f = [], []
    for n in range(N):
        idx = (k + 7 * n) % (len(iv) ** M)
        sel = [iv[(idx // (len(iv) ** j)) % len(iv)] for j in range(M)]
        f0.append([s for s, _ in sel])
        f.append([w for _, w in sel])
    mt = k % 3
    if mt == 0:
        t0 = t = e
    else:
        ivs = [_intervals(L) for L in env.lens_eff]
        t0 = torch.tensor([[ivs[n][(k // 3 + 5 * n + 3 * j) % len(ivs[n])][0] for j in range(mt)] for n in range(N)])
        t = torch.tensor([[ivs[n][(k // 3 + 5 * n + 3 * j) % len(ivs[n])][1] for j in range(mt)] for n in range(N)])
    return (e, e, e, e, t0, t, torch.tensor(f0), torch.tensor(f))


def _grid_size(env):
    unit = env.unit
    if unit["axis"] == "t":
        return max(len(_intervals(L)) for L in env.lens_eff) ** unit["M"]
    return len(_intervals(env.F)) ** unit["M"]


def _run_grid_unit(ctx, env, ui, only=None):
    base = {"unit": env.unit, "tier": env.tier, "seed": env.seed, "ui": ui}
    ks = range(_grid_size(env)) if only is None else [only]
    for k in ks:
        params = _grid_params(env, k)
        case = dict(base, k=k)
        nonempty = any((not _empty(params[i])) and bool((params[i] > 0).any()) for i in (5, 7))
        ctx.case(1, 1 if nonempty else 0)
        out = _check_apply(ctx, env, params, case)
        if out is not None:
            rows, cols = _mask_sets(env, params)
            _outcome(ctx, 6, [sorted(r) for r in rows], [sorted(c) for c in cols])
            if k == 1:
                ctx.sample({"pass": "grid", "T": env.T, "F": env.F, "lengths": env.unit["lens"],
                            "params": _plist(params), "masked_frames": [sorted(r) for r in rows],
                            "masked_coefficients": [sorted(c) for c in cols]})


# ----------------------------------------------------------------------------- evaluation mode
def _run_eval_unit(ctx, env, ui, only=None):
    base = {"unit": env.unit, "tier": env.tier, "seed": env.seed, "ui": ui}
    T = env.T
    variants = [None] + [[L, max(1, T - L + 1)] for L in sorted({1, (T + 1) // 2, T})]
    inputs = [("contiguous", env.feats, env.feats, env.keep)] + [(k,) + v for k, v in env.variants().items()]
    for vi, lens in enumerate(variants):
        if only is not None and vi != only:
            continue
        case = dict(base, k=vi)
        lengths = None if lens is None else torch.tensor(lens)
        mod = PM.SpecAugment(**env.cfg)
        mod.eval()
        ch = Chooser()
        for lay, feats, storage, keep in inputs:
            for api in ("SpecAugment.__call__", "functional.spec_augment"):
                ctx.case(1, 1)
                with ScriptedRandom(ch, uniform=_uniform(MENU_QUICK, "call")) as sr:
                    try:
                        if api == "SpecAugment.__call__":
                            out = mod(feats, lengths)
                        else:
                            out = PF.spec_augment(feats, *env.functional_args(), env.cfg["interpolation_order"],
                                                  lengths, False)
                    except Exception as e:
                        ctx.violation({"api": api, "symptom": "raises", "type": type(e).__name__, "mode": "eval",
                                       "layout": lay}, case, {"error": str(e)[-400:]})
                        continue
                if (tuple(out.shape) != tuple(feats.shape) or out.dtype != feats.dtype
                        or not torch.equal(out, env.keep.to(out.dtype)) or not torch.equal(storage, keep)):
                    ctx.violation({"api": api, "symptom": "eval-mode-changes-input", "layout": lay}, case,
                                  {"input": env.keep.tolist(), "output": out.tolist()})
                    storage.copy_(keep)
                else:
                    _outcome(ctx, 7, int(out is feats), len(sr.calls))
                    ctx.count("eval_returns_same_object" if out is feats else "eval_returns_equal_copy")


# ----------------------------------------------------------------------------- destination near a pinned knot
KNOT_DIST = (0.0, 1e-3, 1e-2, 0.1, 0.3)
KNOT_CENTRE = (0.0, 0.5, ONE_M)
SWEEP_PAIRS = ((0.0, 0.0), (0.5, 0.5), (ONE_M, ONE_M))
F32_EPS = 2.0 ** -23


def _knot_answers(env, k):
    """Uniform answers (centre draw, shift draw) per batch element for leaf k.  `dist` units: the centre
    answer is KNOT_CENTRE[.] and the shift answer is solved so that the destination w_0 + w lands
    KNOT_DIST[.] frames from the lower / upper pinned knot (0.5 = neutral when that destination is outside
    the element's window).  `sweep` units: fixed answer pairs."""
    unit = env.unit
    if unit["mode"] == "sweep":
        a, b = SWEEP_PAIRS[k]
        return [a] * env.N, [b] * env.N, [None] * env.N
    ci, rest = divmod(k, 2 * len(KNOT_DIST))
    end, di = divmod(rest, len(KNOT_DIST))
    u1 = KNOT_CENTRE[ci]
    d = KNOT_DIST[di]
    mtw = env.cfg["max_time_warp"]
    us1, us2, reached = [], [], []
    for L in env.lens_eff:
        W = min(max(L / 2.0 - F32_EPS, 0.0), float(mtw))
        w0 = u1 * (L - 2 * W) + W
        target = d if end == 0 else (L - 1.0) - d
        u2 = (target - w0 + W) / (2 * W) if W > 0 else -1.0
        ok = 0.0 <= u2 <= ONE_M and 0.0 <= target <= L - 1.0
        us1.append(u1)
        us2.append(u2 if ok else 0.5)
        reached.append((end, d) if ok else None)
    return us1, us2, reached


def _run_knot_unit(ctx, env, ui, only=None):
    unit = env.unit
    base = {"unit": unit, "tier": env.tier, "seed": env.seed, "ui": ui}
    nleaf = len(SWEEP_PAIRS) if unit["mode"] == "sweep" else len(KNOT_CENTRE) * 2 * len(KNOT_DIST)
    for k in (range(nleaf) if only is None else [only]):
        us1, us2, reached = _knot_answers(env, k)
        a1 = torch.tensor(us1, dtype=torch.float64).float()
        a2 = torch.tensor(us2, dtype=torch.float64).float()
        params, _ = _run_draw_leaf(ctx, env, Chooser(), lambda: _fixed([a1, a2]), dict(base, k=k), True)
        for r in reached:
            if r is not None:
                ctx.count("knot_%s_%g" % ("lower" if r[0] == 0 else "upper", r[1]))
            elif unit["mode"] == "dist":
                ctx.count("knot_target_outside_window")
        if params is not None and k == 7 and unit["mode"] == "dist":
            ctx.sample({"pass": "knot", "T": env.T, "lengths": unit["lens"], "limits": {k_: v for k_, v in
                        env.cfg.items() if v}, "answers": [us1, us2], "params": _plist(params)[:2]})


# ----------------------------------------------------------------------------- histories on one module
HIST_CFGS = (
    dict(max_time_warp=3, max_freq_warp=0, max_time_mask=2, max_time_mask_proportion=1, num_time_mask=2,
         num_time_mask_proportion=1, max_freq_mask=1, num_freq_mask=1, interpolation_order=1),
    dict(max_time_warp=0, max_freq_warp=1, max_time_mask=100, max_time_mask_proportion=0.5, num_time_mask=3,
         num_time_mask_proportion=1, max_freq_mask=2, num_freq_mask=2, interpolation_order=2),
)
HIST_CALLS = (  # (T, N, lengths or None = omitted)
    (5, 2, None), (8, 2, None), (3, 2, None), (8, 3, None), (8, 2, [5, 8]), (5, 2, [2, 5]),
)


def _hist_steps(cfg):
    steps = [("call",) + c for c in HIST_CALLS] + [("mode", False), ("mode", True)]
    steps += [("set", "max_time_mask", 1), ("set", "max_time_warp", 0.0 if cfg["max_time_warp"] else 1.0),
              ("set", "num_freq_mask", 0)]
    return steps


def _hist_feats(cache, seed, T, N, F, lens):
    key = (T, N, F, tuple(lens) if lens else None)
    if key not in cache:
        rng = random.Random(f"c08h-{seed}-{key}")
        eff = lens or [T] * N
        vals = [[[SENTINEL if t >= L else 1.0 + 0.5 * rng.random() for _ in range(F)] for t in range(T)] for L in eff]
        x = torch.tensor(vals, dtype=torch.float32)
        cache[key] = (x, x.clone(), None if lens is None else torch.tensor(lens, dtype=torch.long))
    return cache[key]


def _hist_uniform(salt):
    """Fixed answers: call c of one invocation, element (n, j) -> menu[(salt + c + n + j) % 4]."""
    st = {"c": 0}

    def uniform(shape, dtype, device, label, ch):
        N = shape[0] if shape else 1
        M = 1
        for d in shape[1:]:
            M *= d
        c = st["c"]
        st["c"] += 1
        vals = [[MENU_QUICK[(salt + c + n + j) % 4] for j in range(M)] for n in range(N)]
        return torch.tensor(vals, dtype=torch.float64).to(dtype).view(shape)

    return uniform


def _hist_histories(steps, first):
    """Histories of length 1..3 that start with step `first` and end with a call."""
    ncall = len(HIST_CALLS)
    out = [[first]] if first < ncall else []
    for b in range(len(steps)):
        if b < ncall:
            out.append([first, b])
        for c in range(ncall):
            out.append([first, b, c])
    return out


def _run_hist_unit(ctx, env, ui, only=None):
    """One SpecAugment object driven through a history of calls with different T / N / lengths given or
    omitted, train/eval switches and attribute reassignments; the LAST call must give exactly what a
    fresh module (current limits, current mode) gives under the same scripted answers."""
    unit = env.unit
    cfg0, F, aset = unit["cfg"], unit["F"], unit["aset"]
    steps = _hist_steps(cfg0)
    base = {"unit": unit, "tier": env.tier, "seed": env.seed, "ui": ui}
    cache = {}
    hists = [list(only)] if only is not None else _hist_histories(steps, unit["first"])
    for hist in hists:
        case = dict(base, k=hist)
        mod = PM.SpecAugment(**cfg0)
        mod.train()
        cfg, mode = dict(cfg0), True
        out = err = last = None
        for si, h in enumerate(hist):
            st = steps[h]
            ctx.transitions += 1
            if st[0] == "mode":
                mode = st[1]
                mod.train(mode)
            elif st[0] == "set":
                cfg[st[1]] = st[2]
                setattr(mod, st[1], st[2])
            else:
                _, T, N, lens = st
                x, keep, lengths = _hist_feats(cache, env.seed, T, N, F, lens)
                with ScriptedRandom(Chooser(), uniform=_hist_uniform(aset + si)):
                    try:
                        out, err = mod(x, lengths), None
                    except HarnessError:
                        raise
                    except Exception as e:
                        out, err = None, e
                if not torch.equal(x, keep):
                    ctx.violation({"api": "SpecAugment.__call__", "layout": "contiguous",
                                   "symptom": "caller-input-modified", "history": True}, case, {"step": si})
                    x.copy_(keep)
                last = (si, T, N, lens, x, lengths)
        ctx.case(1, 1 if len(hist) > 1 else 0)
        ctx.state([unit["ci"], mode, sorted((k, v) for k, v in cfg.items() if cfg0[k] != v), [s_ for s_ in last[1:4]]])
        si, T, N, lens, x, lengths = last
        fresh = PM.SpecAugment(**cfg)
        fresh.train(mode)
        with ScriptedRandom(Chooser(), uniform=_hist_uniform(aset + si)):
            try:
                exp, eerr = fresh(x, lengths), None
            except HarnessError:
                raise
            except Exception as e:
                exp, eerr = None, e
        consts = set(getattr(PM.SpecAugment, "__constants__", ()))
        reassigned_const = any(steps[h][0] == "set" and steps[h][1] in consts for h in hist)
        if reassigned_const:
            # not a supported way to reconfigure a live module: executed and counted, never judged
            honoured = eerr is None and err is None and _same(out, exp, exact=True)
            ctx.count("constants_reassigned_honoured" if honoured else "constants_reassigned_ignored")
            continue
        shape_changed = any(steps[h][0] == "call" and steps[h][1:3] != (T, N) for h in hist[:-1])
        sig = {"api": "SpecAugment.__call__", "history": True, "history_len": len(hist), "training": mode,
               "lengths_given": lens is not None, "shape_changed": shape_changed}
        detail = {"history": [list(steps[h]) for h in hist], "limits_now": cfg}
        if eerr is not None:
            ctx.violation(dict(sig, symptom="raises", type=type(eerr).__name__, fresh_module=True), case,
                          dict(detail, error=str(eerr)[-300:]))
        elif err is not None:
            ctx.violation(dict(sig, symptom="raises", type=type(err).__name__, fresh_module=False), case,
                          dict(detail, error=str(err)[-300:]))
        elif not _same(out, exp, exact=True):
            ctx.violation(dict(sig, symptom="differs-from-fresh-module"), case,
                          dict(detail, reused_module=out.tolist(), fresh_module=exp.tolist()))
        else:
            ctx.traces += 1
            ctx.count("history_equals_fresh_module")
            if not mode and out is not x and not torch.equal(out, x):
                ctx.violation(dict(sig, symptom="eval-mode-changes-input"), case, detail)
            _outcome(ctx, 9, int(mode), T, N, [round(v * 64) for v in out[:, :, 0].flatten().tolist()])
            if len(hist) == 3 and only is None and hist[1] == 1 and hist[2] == 0:
                ctx.sample({"pass": "hist", "history": detail["history"], "limits_now": cfg, "F": F,
                            "last_call_output": out.tolist()})


# ----------------------------------------------------------------------------- object lifecycle / entry points
LIFE_BASE = dict(max_time_warp=1.0, max_freq_warp=1.0, max_time_mask=3, max_time_mask_proportion=0.5, num_time_mask=2,
                 num_time_mask_proportion=1.0, max_freq_mask=2, num_freq_mask=2, interpolation_order=1)
LIFE_OTHER = dict(max_time_warp=3.0, max_freq_warp=0.0, max_time_mask=1, max_time_mask_proportion=1.0, num_time_mask=1,
                  num_time_mask_proportion=0.5, max_freq_mask=1, num_freq_mask=1, interpolation_order=2)
LIMIT_NAMES = ("max_time_warp", "max_freq_warp", "max_time_mask", "max_time_mask_proportion", "num_time_mask",
               "num_time_mask_proportion", "max_freq_mask", "num_freq_mask")


def _life_cfgs():
    """Every limit at its falsy-but-legal value (0 / 0.0) in turn, all of them at once, and two ordinary sets."""
    out = [("ordinary", dict(LIFE_BASE)), ("ordinary-2", dict(LIFE_OTHER)), ("all-zero", dict(OFF))]
    for name in LIMIT_NAMES:
        out.append((name + "=0", dict(LIFE_BASE, **{name: type(LIFE_BASE[name])(0)})))
    return out


LIFE_INPUTS = ((5, 2, [2, 5]), (8, 4, None), (13, 1, [1, 7, 13]))
ENTRY_CFGS = (
    dict(OFF),
    dict(OFF, max_time_mask=3, max_time_mask_proportion=1.0, num_time_mask=2, num_time_mask_proportion=1.0,
         max_freq_mask=2, num_freq_mask=1),
    dict(OFF, max_freq_mask=100, num_freq_mask=3),
    dict(LIFE_BASE),
    dict(LIFE_OTHER),
)


def _pair_uniform(aset):
    pairs = JOINT_PAIRS["thorough"]
    return lambda: _uniform_pairs(pairs[aset:] + pairs[:aset])


def _run_life_unit(ctx, env, ui, only=None):
    """Lifecycle variants of one configured SpecAugment (mc.guards.lifecycle_variants): each must draw exactly
    what the fresh object draws under the same scripted answers, respect the CONFIGURED caps, and apply / call
    like it (all checks of the draw passes run on the variant)."""
    from mc.guards import GuardViolation, lifecycle_variants

    unit = env.unit
    cfg = env.cfg
    base = {"unit": unit, "tier": env.tier, "seed": env.seed, "ui": ui}
    fresh = env.module

    def make():
        m = PM.SpecAugment(**cfg)
        m.train()
        return m

    def make_other():
        m = PM.SpecAugment(**(LIFE_OTHER if cfg != LIFE_OTHER else LIFE_BASE))
        m.train()
        return m

    def used(m):
        with ScriptedRandom(Chooser(), uniform=_pair_uniform(1)()):
            m(torch.ones(2, 4, 3), torch.tensor([2, 4]))

    try:
        variants = list(lifecycle_variants(make, used=used, make_other=make_other))
    except GuardViolation as e:
        ctx.violation({"api": "SpecAugment", "lifecycle": "construction", "symptom": "guard", "what": str(e)[:80]},
                      dict(base, k=-1), {"error": str(e)})
        variants = []
    except Exception as e:  # a lifecycle operation itself raised
        ctx.violation({"api": "SpecAugment", "lifecycle": "construction", "symptom": "raises",
                       "type": type(e).__name__}, dict(base, k=-1), {"error": str(e)[-300:]})
        variants = []
    consts = [c for c in getattr(PM.SpecAugment, "__constants__", ()) if c in cfg]
    for vi, (name, obj) in enumerate(variants):
        # state_dict-into-other: the object keeps ITS OWN options (SpecAugment has no parameters or buffers)
        ref_cfg = cfg if name != "state_dict-into-other" else (LIFE_OTHER if cfg != LIFE_OTHER else LIFE_BASE)
        env_v = Env(dict(unit, cfg=ref_cfg), env.tier, env.seed) if ref_cfg is not cfg else env
        ref = env_v.module if ref_cfg is not cfg else fresh
        sigb = {"api": "SpecAugment", "lifecycle": name}
        wrong = [c for c in consts if getattr(obj, c, None) != ref_cfg[c] or type(getattr(obj, c, None)) is not type(
            getattr(ref, c))]
        if wrong or obj.training != ref.training:
            ctx.violation(dict(sigb, symptom="option-changed-by-lifecycle", options=wrong[:3]), dict(base, k=vi * 4),
                          {"expected": {c: ref_cfg[c] for c in wrong}, "observed": {c: getattr(obj, c, None)
                                                                                    for c in wrong},
                           "training": [ref.training, obj.training]})
        for aset in range(4):
            if only is not None and only not in (-1, vi * 4 + aset):
                continue
            case = dict(base, k=vi * 4 + aset, lifecycle=name, module_only=True)
            mk = _pair_uniform(aset)
            with ScriptedRandom(Chooser(), uniform=mk()):
                exp = ref.draw_parameters(env_v.feats, env_v.lengths)
            saved = env_v.module
            env_v.module = obj
            try:
                params, _ = _run_draw_leaf(ctx, env_v, Chooser(), mk, dict(case), True)
            finally:
                env_v.module = saved
            if params is None:
                continue
            same = all(tuple(a.shape) == tuple(b.shape) and a.dtype == b.dtype and torch.equal(a, b)
                       for a, b in zip(params, exp))
            if not same:
                ctx.violation(dict(sigb, symptom="draws-differ-from-fresh-object"), case,
                              {"fresh": _plist(exp), "variant": _plist(params), "limits": ref_cfg})
            else:
                ctx.count("lifecycle_equals_fresh")
                ctx.count("lifecycle_" + name)


def _run_entry_unit(ctx, env, ui, only=None):
    """Every public path to the mechanism under the same scripted answers, float32 and float64 features (values
    not representable in float32): Module.draw_parameters+apply_parameters (checked cell by cell against the
    oracle), Module.__call__, Module.forward, functional draw+apply, functional spec_augment - bit-identical."""
    unit = env.unit
    base = {"unit": unit, "tier": env.tier, "seed": env.seed, "ui": ui}
    mod = env.module
    fa = env.functional_args()
    order = env.cfg["interpolation_order"]
    for aset in range(len(JOINT_PAIRS["thorough"])):
        if only is not None and aset != only:
            continue
        case = dict(base, k=aset)
        mk = _pair_uniform(aset)
        params, _ = _run_draw_leaf(ctx, env, Chooser(), mk, dict(case), True)  # draw+apply vs oracle
        if params is None:
            continue
        ref = mod.apply_parameters(env.feats, params, env.lengths)
        paths = {
            "SpecAugment.__call__": lambda: mod(env.feats, env.lengths),
            "SpecAugment.forward": lambda: mod.forward(env.feats, env.lengths),
            "functional.draw+apply": lambda: PF.spec_augment_apply_parameters(
                env.feats, PF.spec_augment_draw_parameters(env.feats, *fa, env.lengths), order, env.lengths),
            "functional.spec_augment": lambda: PF.spec_augment(env.feats, *fa, order, env.lengths, True),
        }
        for api, fn in paths.items():
            sig = {"api": api, "entry_point": True, "dtype": unit.get("dtype", "float32"),
                   "warped": bool(env.en["tw"] or env.en["fw"])}
            with ScriptedRandom(Chooser(), uniform=mk()):
                try:
                    out = fn()
                except HarnessError:
                    raise
                except Exception as e:
                    ctx.violation(dict(sig, symptom="raises", type=type(e).__name__), case, {"error": str(e)[-300:]})
                    continue
            _check_input_kept(ctx, env, case, api)
            if not isinstance(out, torch.Tensor) or out.dtype != env.feats.dtype or not _same(out, ref, exact=True):
                ctx.violation(dict(sig, symptom="differs-from-draw-then-apply"), case,
                              {"draw_then_apply": ref.tolist(), "this_path": out.tolist()
                               if isinstance(out, torch.Tensor) else repr(out),
                               "dtype": str(getattr(out, "dtype", None))})
            else:
                ctx.count("entry_point_equal_" + unit.get("dtype", "float32"))


RUNNERS = {"life": _run_life_unit, "entry": _run_entry_unit, "knot": _run_knot_unit, "hist": _run_hist_unit, "tw": _run_group_unit, "fw": _run_group_unit, "tm": _run_group_unit, "fm": _run_group_unit,
           "joint": _run_joint_unit, "grid": _run_grid_unit, "eval": _run_eval_unit}


def run_shard(spec, tier, seed):
    ctx = Ctx()
    units = all_units(tier)
    for ui in spec["units"]:
        unit = units[ui]
        env = Env(unit, tier, seed)
        RUNNERS[unit["pass"]](ctx, env, ui)
        ctx.count("units_" + unit["pass"])
    return ctx


def replay(case):
    ctx = Ctx()
    unit = case["unit"]
    env = Env(unit, case["tier"], case["seed"])
    only = case["k"] if unit["pass"] in ("knot", "life", "entry") or "choices" not in case else case["choices"]
    RUNNERS[unit["pass"]](ctx, env, case.get("ui", -1), only=only)
    return ctx


def finalize(total, tier, seed):
    c = total.counters
    for name in ("cells_zeroed", "warps_dst_interior", "group_alone_equals_joint", "call_equals_draw_then_apply",
                 "layout_transposed_equal", "layout_offset_equal", "layout_float64_equal",
                 "history_equals_fresh_module", "lifecycle_equals_fresh", "entry_point_equal_float32",
                 "entry_point_equal_float64", "knot_lower_0.001", "knot_upper_0.001", "knot_lower_0.3",
                 "knot_upper_0.3"):
        if not c.get(name):
            total.notes.append(f"vacuity warning: counter {name} is zero")
    total.notes.append(
        "F12 classifier: a warp violation carries dst_on_pinned_end=true iff the drawn destination "
        "clamp(w_0+w, 0, len-1) lies within 1e-3 frame of frame 0 or frame len-1"
    )
