"""C07 - sequence scores, random walks, the distribution wrapper and greedy CTC (E1 + E2).

Parts (each a family of *units*; units are packed into shards of similar cost):
  a  sequence_log_probs, tensor input      (E1, every hyp over {-1,0..V-1,V})
  p  sequence_log_probs, packed input      (E1, every length pattern, sorted/unsorted)
  b  RandomWalk                            (E2, whole walk tree through torch.multinomial)
  c  SequentialLanguageModelDistribution.sample + log_prob   (E2, whole sampling tree)
  s  SequentialLanguageModelDistribution.enumerate_support   (E1)
  d  ctc_greedy_search                     (E1, every frame-label sequence x in_lens)
"""

import contextlib
import itertools
import math
import random

import torch

import pydrobert.torch.functional as F
import pydrobert.torch.modules as M
from pydrobert.torch.distributions import SequentialLanguageModelDistribution

from mc.runner import Ctx
from mc.explore import Chooser, HarnessError, explore
from mc.seams import ScriptedRandom
from mc.guards import lifecycle_variants
from mc.oracles import seqscores as O
from checks._c07_lm import ScriptTableLM, TableLM

PROP = "C07"
LEVEL = "model_checking"
RULE = (
    "a) sequence_log_probs: every hyp in {-1,0..V-1,V}^(T x N) (V in {2,3}; thorough also V=1), T in 0..3, "
    "N in {none,1,2} (quick: V=3,N=2 only to T=2), hyp laid out 1-D, (T,N), (N,T) and 3-D with an extra "
    "dimension E in {1,2} in all three positions of T, every legal dim in both spellings, eos in {None, each "
    "token}, seed-valued logits, functional and module alternating. p) packed logits: every length pattern in "
    "{1..T}^N, N,T<=3, enforce_sorted both plus hand-built packings whose sorted_indices break length ties in reverse batch order, dims 0,1,-1,-2, all hyp for N=1 (and N=2,T<=2; thorough N=2,T=3) "
    "else a menu of 4 cyclic contents with OOV on both sides. b) RandomWalk over a history-coded table LM "
    "(per-batch-row tables, un-normalised seed-valued logits): V in {2,3}, max_iters 1..3 (thorough 4), eos in "
    "{None, each}, batch_size in {None,1,2}; torch.multinomial is a choice point and the WHOLE tree is explored; "
    "every leaf is one case. c) distribution.sample over the whole tree for sample shapes [],[1],[2],[1,2],[2,1],"
    "[2,2] x batch_size {None,1,2} x cache_samples both, trees with <= 1500 (thorough 20000) leaves, default "
    "argument validation; s) enumerate_support for every (V,max_iters,eos,batch_size,cache). d) greedy CTC: "
    "every frame-label sequence over C in {1,2,3} labels, T in 0..4, every in_lens 0..T (one ragged batch, its "
    "reverse, and singles) and in_lens=None, every blank_idx in [-C,C-1], batch_first, is_probs, function and "
    "module; the frames at or beyond in_lens hold, in turn, the row's own finite frames, all -inf (zeros for "
    "probabilities), nan, +inf (one class / every class) and huge finite values. IGNORED POSITIONS ARE ARBITRARY: "
    "in a/p the score vectors at out-of-vocabulary token positions, after the first eos and past the packed "
    "lengths are overwritten per case by one of {nothing, all -inf, nan, +inf} (multiplicative hash of the case "
    "index, seed-independent); in b/c/s the table LM emits finite garbage/-inf/nan/+inf for every history that "
    "already contains eos. GUARDS on every library call: argument tensors unchanged afterwards; tensors returned "
    "by the previous call through the same function/module object (modules are reused across the unit) unchanged "
    "after the next unrelated call. INPUT / TORCH STATE (values must not depend on it): a/p hand over logits with "
    "requires_grad=True in every third case (hashed); every walk tree of b is explored four times (plain, LM scores "
    "attached to the autograd graph, torch.inference_mode, default dtype float64) and with the negative spelling "
    "of eos; c/s attach the LM scores to the graph in one of the two cache variants; d alternates detached / "
    "requires_grad score tensors over the padding kinds and rotates {plain, requires_grad, float64 scores, int32 "
    "in_lens, default float64, inference_mode} over the singles. j) SCRIPTED AND TRACED MODULES, one call per "
    "batch: SequenceLogProbabilities (tensor input: the batch of ALL hyps of length 3, every layout/dim/eos; "
    "packed input: every length pattern of N=T=3 x packing mode x 4 contents) and CTCGreedySearch (ragged batch of "
    "all rows, T=3, every blank_idx/batch_first/is_probs, in_lens given or not) as eager module, "
    "torch.jit.script(module) and torch.jit.trace(module, example) where the example differs from the evaluated "
    "batch (other T and N, every token in vocabulary and different from eos, a single full-length element, a "
    "one-step packing), each x the six input/torch states; RandomWalk scripted together with a scriptable twin of "
    "the table LM: for generator seeds 0..7 x {plain, inference_mode, default float64} the scripted walk must "
    "return exactly the eager result from the same generator state and satisfy the per-leaf clauses. "
    "OBJECT LIFECYCLE (b, c, j): the whole walk tree (V=3; max_iters 3 unbatched / 2 with batch 2) and the whole "
    "sampling tree (V=3, max_iters 2, two rows, cache both for the generic operations) again on the object obtained "
    "by deepcopy / pickle / torch.save / deepcopy-after-use (applied to the distribution wrapper, walk and LM "
    "inside) and eval+deepcopy / state_dict / state_dict-after-use / double-float / state_dict-into-other (applied "
    "to the RandomWalk), for eos in {0 (falsy), 2, None}; state_dict-into-other loads the state dict written by a "
    "walk with ANOTHER eos (every ordered pair of different values) and other weights: the evaluated object keeps "
    "its own options and computes with the loaded weights. SequenceLogProbabilities and CTCGreedySearch get the "
    "same nine operations in part j (batch of all hyps / ragged batch, plain + one rotating input state). "
    "w) SECONDARY ENTRY POINT random_walk_advance (functional and util spelling) driven directly: two consecutive "
    "steps from one shared prompt buffer of S in 0..3 rows holding garbage, N in {1,2}, V in {2,3}, y_prev_lens None "
    "and every vector in {0..S}^N (spare rows whenever max < S), whole tree of draws; path prefix + drawn token, "
    "growth rule of the returned history, log-prob bookkeeping, draw probabilities, arguments unchanged, step-1 "
    "result kept during step 2, every rollout kept until all rollouts from the buffer are done. "
    "CALLER-OWNED TENSORS (c, cache_samples=True): a returned sample / a scored value / returned log-probs edited "
    "in place afterwards must not be answered from the cache; the wrapper re-used after the LM raised once inside "
    "log_prob (every leaf of the sampling trees with <= 100 leaves). VALUES AFTER THE FIRST EOS of a scored sample hold another token / V / -1 instead of eos padding. "
    "Cases are distinct by construction (cartesian products of duplicate-free generators; explorer "
    "leaves are distinct choice lists); non-trivial = at least one in-vocabulary token is scored (a,p), the "
    "path has >= 2 tokens or ends early (b,c), the collapsed output differs from the raw labels (d)."
)
ASSUMPTIONS = [
    "small scope: V<=3, T/max_iters<=3 (4 thorough), batch<=2 (3 packed), sample shapes up to [2,2]",
    "float32 results compared with double-precision Python references at 2e-5 relative+absolute",
    "the scripted multinomial enumerates exactly the indices with non-zero probability (mc/seams.py)",
    "packed input: eos is documented as ignored; the reference for packed input ignores eos, and cases where this "
    "differs from the first-eos definition are counted (counter packed_eos_inside_valid) but not judged",
    "contents of y beyond y_lens / of greedy paths beyond out_lens are undefined and not compared",
    "scores at positions the property declares ignored (OOV token, after the first eos, frames >= in_lens, LM "
    "outputs for finished paths) may be anything including nan/+-inf; valid positions are always finite",
    "each a/p case gets ONE kind of garbage in its ignored positions (rotating), not all four",
    "lifecycle operations are run on reduced configurations (V=3, max_iters<=3), not on the whole enumeration; "
    "no history of this check reassigns a __constants__ attribute of a live module (new configurations are new "
    "objects)",
    "beam_search_advance / ctc_prefix_search_advance belong to C04 / C05 and are not driven here",
    "max_iters=None (unbounded walks) is not explored; CUDA not explored; the process-wide PYTORCH_JIT=1 "
    "(config.USE_JIT, every helper compiled at import) configuration is not explored",
    "scripted / traced modules are exercised per batch (part j), not per enumerated case; the draws inside a "
    "scripted RandomWalk cannot be owned by the seam, so that comparison is over 8 generator seeds, not exhaustive; "
    "traced packed input is evaluated on packings with sorted/unsorted indices only (a trace cannot carry None)",
    "int32 hyp / in_lens and float64 scores are accepted although the docstrings say 'long tensor' (they work on "
    "the unchanged tree); results for float64 input are compared at the float32 tolerance",
]
BUDGET_S = {"quick": 240, "thorough": 2400}
TOL = 2e-5
API_LP = "SequentialLanguageModelDistribution.log_prob"
API_SAMPLE = "SequentialLanguageModelDistribution.sample"
API_SUP = "SequentialLanguageModelDistribution.enumerate_support"


# =========================================================================================
# helpers
# =========================================================================================
def _rng(seed, *key):
    h = 1469598103934665603
    for k in (seed,) + key:
        for ch in repr(k):
            h = ((h ^ ord(ch)) * 1099511628211) % (1 << 64)
    return random.Random(h)


def _rand_tensor(rng, shape, lo=-3.0, hi=3.0):
    n = 1
    for s in shape:
        n *= s
    return torch.tensor([round(rng.uniform(lo, hi), 3) for _ in range(n)], dtype=torch.float32).view(shape)


def _msg_class(e):
    s = str(e)
    for key, pat in (
        ("hist-2d", "hist must be 2 dimensional"),
        ("cannot-broadcast", "cannot broadcast"),
        ("dim-out-of-range", "Dimension out of range"),
        ("outside-support", "outside of the support"),
    ):
        if pat in s:
            return key
    return "other"


def _prod(xs):
    p = 1
    for x in xs:
        p *= x
    return p


NINF, NAN, PINF = float("-inf"), float("nan"), float("inf")
FILL_KINDS = ("finite", "neg-inf", "nan", "pos-inf")


def _fill_kind(ci, off=0):
    """Which garbage goes into the ignored positions of case number ci: a multiplicative hash, so the
    kind is unrelated to the digits of the enumerated content; the same for every seed."""
    return FILL_KINDS[((((ci + 1) * 2654435761) >> 9) + off) % 4]


def _poison_row(row, kind, alt):
    """Overwrites one score vector (last dimension) in place: all -inf / nan / +inf, or (alt) only class 0."""
    if kind == "neg-inf":
        row[...] = NINF
    elif kind == "nan":
        if alt:
            row[..., 0] = NAN
        else:
            row[...] = NAN
    elif kind == "pos-inf":
        if alt:
            row[..., 0] = PINF
        else:
            row[...] = PINF


def _flat_tensors(x, out=None):
    out = [] if out is None else out
    if isinstance(x, torch.Tensor):
        out.append(x)
    elif isinstance(x, dict):
        for v in x.values():
            _flat_tensors(v, out)
    elif isinstance(x, (tuple, list)):  # includes PackedSequence (a namedtuple)
        for v in x:
            _flat_tensors(v, out)
    return out


def _bits_equal(a, b):
    if a.shape != b.shape or a.dtype != b.dtype:
        return False
    if a.is_floating_point():
        return bool(((a == b) | (a.isnan() & b.isnan())).all())
    return torch.equal(a, b)


class _Guard:
    """Two generic guards around every call into the library:
    (1) the caller's argument tensors are unchanged (nan == nan) after the call;
    (2) the tensors returned by the previous call through the same function / module object are
        unchanged (nan == nan) after this (unrelated) call - no aliasing with internal buffers."""

    def __init__(self, ctx):
        self.ctx = ctx
        self.kept = {}

    def __call__(self, key, api, case, fn, *args):
        snaps = [(t, t.clone()) for t in _flat_tensors(args)]
        out = fn()
        for i, (t, c) in enumerate(snaps):
            if not _bits_equal(t, c):
                self.ctx.violation({"api": api, "symptom": "argument-modified"}, case,
                                   {"argument_tensor": i, "before": c, "after": t})
        prev = self.kept.get(key)
        if prev is not None:
            for i, (t, c) in enumerate(prev):
                if not _bits_equal(t, c):
                    self.ctx.violation({"api": api, "symptom": "earlier-result-changed-by-later-call"},
                                       dict(case, whole_unit=True), {"result_tensor": i, "was": c, "now": t})
        self.kept[key] = [(t, t.clone()) for t in _flat_tensors(out)]
        self.ctx.count("guarded_calls")
        return out


@contextlib.contextmanager
def _torch_state(mode):
    """Global torch state around library calls: 'default-float64' / 'inference' / anything else = plain."""
    if mode == "default-float64":
        old = torch.get_default_dtype()
        torch.set_default_dtype(torch.float64)
        try:
            yield
        finally:
            torch.set_default_dtype(old)
    elif mode == "inference":
        with torch.inference_mode():
            yield
    else:
        yield


def _grad_bit(ci):
    """every third case (hashed) hands over logits that are attached to the autograd graph"""
    return (((ci + 1) * 40503) >> 4) % 3 == 0


class _Tree:
    """Distinct nodes of one explored walk tree (node = the joint draws of the steps so far)."""

    def __init__(self, unit_key):
        self.key = unit_key
        self.nodes = set()

    def add_leaf(self, draws):
        for k in range(len(draws) + 1):
            self.nodes.add(tuple(tuple(d) for d in draws[:k]))

    def flush(self, ctx):
        for n in self.nodes:
            ctx.state([self.key, n])
        ctx.transitions += max(len(self.nodes) - 1, 0)


# =========================================================================================
# part a: sequence_log_probs on tensors
# =========================================================================================
LAYOUTS = {  # name -> (needs batch dim, extra dim sizes, position of T in the hyp shape, number of hyp dims)
    "1d": (False, (1,), 0, 1),
    "TN": (True, (1,), 0, 2),
    "NT": (True, (1,), 1, 2),
    "ETN": (True, (1, 2), 1, 3),
    "TEN": (True, (1, 2), 0, 3),
    "ENT": (True, (1, 2), 2, 3),
}


def _a_units(tier):
    units = []
    Vs = (1, 2, 3) if tier == "thorough" else (2, 3)
    cap = 20000 if tier == "thorough" else 5000
    for V in Vs:
        for N in (None, 1, 2):
            for T in range(0, 4):
                ncontent = (V + 2) ** (T * (N or 1))
                if ncontent > cap:
                    continue
                for layout, (needs_n, Es, pos, nd) in LAYOUTS.items():
                    if needs_n != (N is not None):
                        continue
                    for E in Es:
                        for dim in (pos, pos - nd):
                            for eos in [None] + list(range(V)):
                                units.append({"part": "a", "V": V, "N": N, "T": T, "E": E, "layout": layout,
                                              "dim": dim, "eos": eos, "w": ncontent * 330 + 3000})
    return units


def _a_layout(layout, H, L):
    """H: (E,T,n) tokens, L: (E,T,n,V) logits -> tensors in the unit's layout."""
    if layout == "1d":
        return H[0, :, 0], L[0, :, 0]
    if layout == "TN":
        return H[0], L[0]
    if layout == "NT":
        return H[0].t(), L[0].transpose(0, 1)
    if layout == "ETN":
        return H, L
    if layout == "TEN":
        return H.permute(1, 0, 2), L.permute(1, 0, 2, 3)
    if layout == "ENT":
        return H.permute(0, 2, 1), L.permute(0, 2, 1, 3)
    raise HarnessError(layout)


def _a_contents(V, T, n):
    alpha = list(range(-1, V + 1))
    seqs = O.all_sequences(alpha, T)
    if n == 1:
        return [(s,) for s in seqs]
    return list(itertools.product(seqs, seqs))


def _a_unit(ctx, u, tier, seed, only=None):
    V, N, T, E, layout, dim, eos = u["V"], u["N"], u["T"], u["E"], u["layout"], u["dim"], u["eos"]
    n = N or 1
    rng = _rng(seed, "a", V, n, T, E)
    L = _rand_tensor(rng, (E, T, n, V))
    lsm = [[[O.log_softmax(L[e, t, b].double().tolist()) for t in range(T)] for b in range(n)] for e in range(E)]
    contents = _a_contents(V, T, n) if only is None else [tuple(tuple(s) for s in only)]
    module = M.SequenceLogProbabilities(dim, eos)
    guard = _Guard(ctx)
    uoff = E + 3 * abs(dim) + 5 * (0 if eos is None else eos + 1) + 7 * list(LAYOUTS).index(layout)
    if only is not None:
        all_contents = _a_contents(V, T, n)
        ci0 = all_contents.index(contents[0]) if contents[0] in all_contents else 0
    if u is not None and only is None:
        ctx.sample({"part": "a", "unit": {k: u[k] for k in u if k != "w"}, "contents": len(contents),
                    "example_hyp": contents[len(contents) // 2]})
    for ci, content in enumerate(contents):
        if only is not None:
            ci = ci0
        # slice e=1 holds the batch in reversed order (n==2) / the reversed sequence (n==1)
        per_e = [content]
        if E == 2:
            per_e.append(tuple(reversed(content)) if n == 2 else (tuple(reversed(content[0])),))
        if T == 0:
            H = torch.zeros((E, 0, n), dtype=torch.long)
        else:
            H = torch.tensor(per_e, dtype=torch.long).permute(0, 2, 1)  # (E,n,T) -> (E,T,n)
        # positions the property says are ignored (out-of-vocabulary token, after the first eos) hold
        # arbitrary scores - also non-finite ones
        kind = _fill_kind(ci, uoff)
        Lc = L
        if kind != "finite":
            Lc = L.clone()
            for e in range(E):
                for b in range(n):
                    seq = per_e[e][b]
                    stop = O.first_eos_len(seq, eos)
                    for t in range(T):
                        if t >= stop or not (0 <= seq[t] < V):
                            _poison_row(Lc[e, t, b], kind, (t + b + e) % 2 == 1)
                            ctx.count("ignored_positions_made_non_finite")
        hyp, logits = _a_layout(layout, H, Lc)
        if ci % 2:
            hyp, logits = hyp.contiguous(), logits.contiguous()
        grad = _grad_bit(ci)
        if grad:  # autograd state of the input must not change the value
            logits = logits.clone().requires_grad_(True)
        exp = [[O.seq_log_prob(lsm[e][b], per_e[e][b], eos) for b in range(n)] for e in range(E)]
        scored = any(0 <= tok < V for e in range(E) for b in range(n)
                     for tok in per_e[e][b][: O.first_eos_len(per_e[e][b], eos)])
        ctx.case(1, 1 if scored else 0)
        case = {"part": "a", "unit": u, "content": content, "seed": seed, "tier": tier}
        sig0 = {"api": "sequence_log_probs", "input": "tensor", "eos_set": eos is not None,
                "neg_dim": dim < 0, "hyp_dims": hyp.dim(), "zero_steps": T == 0, "ignored_positions": kind,
                "requires_grad": grad}
        try:
            if ci % 4 < 2:
                out = guard("F", "sequence_log_probs", case,
                            lambda: F.sequence_log_probs(logits, hyp, dim, eos), logits, hyp)
            else:
                out = guard("M", "sequence_log_probs", case, lambda: module(logits, hyp), logits, hyp)
        except Exception as e:  # a legal input must not raise
            ctx.violation(dict(sig0, symptom="raises", type=type(e).__name__), case, {"error": str(e)[-300:]})
            continue
        if layout == "1d":
            want_shape, flat_exp = (), [exp[0][0]]
        elif hyp.dim() == 2:
            want_shape, flat_exp = (n,), exp[0]
        else:
            want_shape, flat_exp = (E, n), [x for row in exp for x in row]
        if tuple(out.shape) != want_shape:
            ctx.violation(dict(sig0, symptom="wrong-shape"), case,
                          {"expected": list(want_shape), "observed": list(out.shape)})
            continue
        got = out.detach().reshape(-1).tolist()
        bad = [i for i, (g, x) in enumerate(zip(got, flat_exp)) if not O.close(g, x, TOL)]
        if bad:
            ctx.violation(dict(sig0, symptom="wrong-value"), case, {"expected": flat_exp, "observed": got})
        else:
            ctx.outcome([[O.first_eos_len(s, eos) for s in pe] for pe in per_e] + [scored])


# =========================================================================================
# part p: sequence_log_probs on packed sequences
# =========================================================================================
def _p_units(tier):
    units = []
    for V in (2, 3):
        for N in (1, 2, 3):
            for T in (1, 2, 3):
                full = N == 1 or (N == 2 and (T <= 2 or (tier == "thorough" and V == 2)))
                ncontent = (V + 2) ** (T * N) if full else 4
                for dim in (0, 1, -1, -2):
                    for eos in [None] + list(range(V)):
                        if eos is not None and full and N == 2 and tier == "quick" and T == 2 and eos > 0:
                            continue
                        units.append({"part": "p", "V": V, "N": N, "T": T, "dim": dim, "eos": eos, "full": full,
                                      "w": ncontent * (T ** N) * 2 * 450 + 3000})
    return units


def _p_contents(V, T, N, full):
    alpha = list(range(-1, V + 1))
    if full:
        seqs = O.all_sequences(alpha, T)
        return [tuple(c) for c in itertools.product(seqs, repeat=N)]
    out = []
    for k in range(4):
        if k == 0:  # all in vocabulary
            out.append(tuple(tuple((t + b) % V for t in range(T)) for b in range(N)))
        else:  # cyclic through the alphabet: OOV on both sides at shifting places
            out.append(tuple(tuple(alpha[(t * (k + 1) + b + k) % len(alpha)] for t in range(T)) for b in range(N)))
    return out


def _pack(Lx, lens, mode):
    """mode: True / False = enforce_sorted; 'reversed-ties' = a legal hand-built packing whose sorted_indices
    break length ties in reverse batch order (e.g. a collate function that sorts ascending and flips);
    round-trips through pad_packed_sequence."""
    N = len(lens)
    if mode == "reversed-ties":
        perm = sorted(range(N), key=lambda b: (-lens[b], -b))
        sidx = torch.tensor(perm)
        base = torch.nn.utils.rnn.pack_padded_sequence(
            Lx[:, sidx], torch.tensor([lens[b] for b in perm]), enforce_sorted=True)
        uidx = torch.empty(N, dtype=torch.long)
        uidx[sidx] = torch.arange(N)
        return torch.nn.utils.rnn.PackedSequence(base.data, base.batch_sizes, sidx, uidx)
    return torch.nn.utils.rnn.pack_padded_sequence(Lx, torch.tensor(lens), enforce_sorted=mode)


def _p_unit(ctx, u, tier, seed, only=None):
    V, N, T, dim, eos, full = u["V"], u["N"], u["T"], u["dim"], u["eos"], u["full"]
    rng = _rng(seed, "p", V, N, T)
    L = _rand_tensor(rng, (T, N, V))
    lsm = [[O.log_softmax(L[t, b].double().tolist()) for t in range(T)] for b in range(N)]
    contents = _p_contents(V, T, N, full)
    patterns = list(itertools.product(range(1, T + 1), repeat=N))
    module = M.SequenceLogProbabilities(dim, eos)
    guard = _Guard(ctx)
    uoff = 3 * abs(dim) + (dim < 0) + 5 * (0 if eos is None else eos + 1)
    if only is not None:
        contents = [tuple(tuple(s) for s in only["content"])]
        patterns = [tuple(only["lens"])]
    else:
        ctx.sample({"part": "p", "unit": {k: u[k] for k in u if k != "w"}, "length_patterns": patterns,
                    "contents": len(contents)})
    ci = 0
    for lens in patterns:
        descending = all(lens[i] >= lens[i + 1] for i in range(N - 1))
        for enforce_sorted in (True, False, "reversed-ties"):
            if enforce_sorted is True and not descending:
                continue
            if only is not None and only["enforce_sorted"] != enforce_sorted:
                continue
            if enforce_sorted == "reversed-ties" and len(set(lens)) == len(lens):
                continue

            def pack(Lx, lens=lens, enforce_sorted=enforce_sorted):
                return _pack(Lx, lens, enforce_sorted)

            ps_plain = pack(L)
            for content in contents:
                ci += 1
                if only is not None:
                    ci = only.get("ci", ci)
                kind = _fill_kind(ci, uoff)
                ps = ps_plain
                if kind != "finite":
                    # scores at out-of-vocabulary token positions (and in the padding past the lengths, which
                    # packing drops) are arbitrary, also non-finite
                    Lc = L.clone()
                    for b in range(N):
                        for t in range(T):
                            if t >= lens[b] or not (0 <= content[b][t] < V):
                                _poison_row(Lc[t, b], kind, (t + b) % 2 == 1)
                                ctx.count("ignored_positions_made_non_finite")
                    ps = pack(Lc)
                grad = _grad_bit(ci)
                if grad:
                    ps = pack((L if kind == "finite" else Lc).clone().requires_grad_(True))
                H = torch.tensor(content, dtype=torch.long)  # (N,T)
                hyp = H if dim in (1, -1) else H.t()
                if ci % 2:
                    hyp = hyp.contiguous()
                exp = [O.seq_log_prob(lsm[b], content[b], None, lens[b]) for b in range(N)]
                if eos is not None:
                    strict = [O.seq_log_prob(lsm[b], content[b][: lens[b]], eos) for b in range(N)]
                    if any(not O.close(a, b_, 1e-9) for a, b_ in zip(exp, strict)):
                        ctx.count("packed_eos_inside_valid")
                scored = any(0 <= tok < V for b in range(N) for tok in content[b][: lens[b]])
                ctx.case(1, 1 if scored else 0)
                case = {"part": "p", "unit": u, "seed": seed, "tier": tier,
                        "sub": {"content": content, "lens": lens, "enforce_sorted": enforce_sorted, "ci": ci}}
                sig0 = {"api": "sequence_log_probs", "input": "packed", "eos_set": eos is not None,
                        "neg_dim": dim < 0, "sorted": enforce_sorted, "ignored_positions": kind,
                        "requires_grad": grad}
                try:
                    if ci % 4 < 2:
                        out = guard("F", "sequence_log_probs", case,
                                    lambda: F.sequence_log_probs(ps, hyp, dim, eos), ps, hyp)
                    else:
                        out = guard("M", "sequence_log_probs", case, lambda: module(ps, hyp), ps, hyp)
                except Exception as e:
                    ctx.violation(dict(sig0, symptom="raises", type=type(e).__name__), case,
                                  {"error": str(e)[-300:]})
                    continue
                if tuple(out.shape) != (N,):
                    ctx.violation(dict(sig0, symptom="wrong-shape"), case, {"observed": list(out.shape)})
                    continue
                got = out.detach().tolist()
                if any(not O.close(g, x, TOL) for g, x in zip(got, exp)):
                    ctx.violation(dict(sig0, symptom="wrong-value"), case, {"expected": exp, "observed": got})
                else:
                    ctx.outcome([lens, enforce_sorted, scored])


# =========================================================================================
# distribution.log_prob with the work-arounds for F17/F18 (each failure is still reported)
# =========================================================================================
def _dist_log_prob(ctx, d, value, case, T, eosn, bset, guard=None, history=None):
    """Calls d.log_prob(value) with the distribution's own (default) validation.  Every raise is
    recorded as a violation with a precise signature; then the matching work-around is applied
    (pad short samples with eos / give the sample exactly one sample dimension) so that the score
    itself can still be cross-validated.  Returns (tensor shaped value.shape[:-1] or None, work-arounds)."""
    sample_dims = value.dim() - 1 - (1 if bset else 0)
    wa = []
    v = value
    lp = None
    for _ in range(4):
        try:
            if guard is None:
                lp = d.log_prob(v)
            else:
                lp = guard("log_prob", API_LP, case, lambda: d.log_prob(v), v, d.initial_state)
            break
        except Exception as e:  # noqa: BLE001
            msg = _msg_class(e)
            S = v.size(-1)
            ctx.violation(
                {"api": API_LP, "symptom": "raises", "type": type(e).__name__, "msg": msg,
                 "batch_size_set": bset, "sample_dims": v.dim() - 1 - (1 if bset else 0),
                 "one_sample_dim": v.dim() - 1 - (1 if bset else 0) == 1, "shorter_than_max_iters": S < T,
                 "history": history or "none"},
                dict(case, log_prob_value=v, workarounds=list(wa)),
                {"error": str(e)[-300:]},
            )
            if msg == "cannot-broadcast" and "pad" not in wa and eosn is not None and S < T:
                v = torch.nn.functional.pad(v, (0, T - S), value=eosn)
                wa.append("pad")
            elif msg == "hist-2d" and "flatten" not in wa and not bset and v.dim() != 2:
                v = v.reshape(-1, v.size(-1))
                wa.append("flatten")
            elif msg == "dim-out-of-range" and "unsqueeze" not in wa and bset and v.dim() == 2:
                v = v.unsqueeze(0)
                wa.append("unsqueeze")
            else:
                return None, wa
    if lp is None:
        return None, wa
    if not wa and tuple(lp.shape) != tuple(value.shape[:-1]):
        ctx.violation({"api": API_LP, "symptom": "wrong-shape", "batch_size_set": bset, "sample_dims": sample_dims},
                      case, {"expected": list(value.shape[:-1]), "observed": list(lp.shape)})
        return None, wa
    if lp.numel() != _prod(value.shape[:-1]):
        ctx.violation({"api": API_LP, "symptom": "wrong-shape", "batch_size_set": bset, "sample_dims": sample_dims,
                       "after_workaround": True}, case,
                      {"expected": list(value.shape[:-1]), "observed": list(lp.shape)})
        return None, wa
    return lp.reshape(value.shape[:-1]), wa


def _lm_protocol(ctx, lm, api, case):
    if lm.protocol_errors:
        ctx.violation({"api": api, "symptom": "lm-called-out-of-protocol"}, case, {"errors": lm.protocol_errors[:4]})
        del lm.protocol_errors[:]
        return False
    return True


# =========================================================================================
# part b: RandomWalk, whole tree
# =========================================================================================
LC_GENERIC = ("deepcopy", "pickle", "torch.save", "used+deepcopy")
LC_MODULE = ("eval+deepcopy", "state_dict", "state_dict-after-use", "double-float", "state_dict-into-other")


def _lifecycle_objects(kind, V, T, eos, eos_src, seed, dist_from_walk, used_walk, used_dist):
    """The walk / distribution that is evaluated after a lifecycle operation, plus the table a FRESH object with
    the evaluated object's option values would read.  Generic operations are applied to the distribution (the walk
    and its LM travel inside); module-only operations to the walk.  'state_dict-into-other': a walk built with the
    option values under evaluation (eos) but other weights loads the state dict written by a walk with eos_src:
    a state dict carries weights, never configuration."""
    ref = TableLM(V, T, seed)

    def make_walk():
        return M.RandomWalk(TableLM(V, T, seed), eos)

    if kind in LC_GENERIC:
        got = list(lifecycle_variants(lambda: dist_from_walk(make_walk()), used_dist, kinds={kind}))
        if not got:
            return None
        d = got[0][1]
        walk = d.random_walk
    elif kind == "state_dict-into-other":
        got = list(lifecycle_variants(lambda: M.RandomWalk(TableLM(V, T, seed), eos_src), used_walk, kinds={kind},
                                      make_other=lambda: M.RandomWalk(TableLM(V, T, seed + 7919), eos)))
        if not got:
            return None
        walk = got[0][1]
        d = dist_from_walk(walk)
    else:
        got = list(lifecycle_variants(make_walk, used_walk, kinds={kind}))
        if not got:
            return None
        walk = got[0][1]
        d = dist_from_walk(walk)
    return walk.lm, ref.table_list, walk, d


def _lc_configs():
    """(kind, eos, eos_src): falsy-but-legal eos=0, an ordinary one, and unset; for the state-dict-into-other
    variant every ordered pair of different option values."""
    for kind in LC_GENERIC + LC_MODULE:
        for eos in (0, 2, None):
            if kind == "state_dict-into-other":
                for src in (0, 2, None):
                    if src != eos:
                        yield kind, eos, src
            else:
                yield kind, eos, None


def _walk_configs(tier):
    Ts = (1, 2, 3, 4) if tier == "thorough" else (1, 2, 3)
    for V in (2, 3):
        eoss = [None] + list(range(V))
        eoss += [-1 - e for e in range(V)] if tier == "thorough" else [-1]  # negative spellings
        for T in Ts:
            for eos in eoss:
                for bs in (None, 1, 2) + ((3,) if tier == "thorough" and V == 2 else ()):
                    yield V, T, eos, bs


def _n_leaves(V, T, eosn, rows):
    return len(O.complete_paths(V, T, eosn)) ** rows


def _b_units(tier):
    units = []
    for V, T, eos, bs in _walk_configs(tier):
        eosn = None if eos is None else eos % V
        leaves = _n_leaves(V, T, eosn, bs or 1)
        for mode in B_MODES:
            units.append({"part": "b", "V": V, "max_iters": T, "eos": eos, "batch_size": bs, "mode": mode,
                          "w": leaves * 2500 + 5000})
    # object lifecycle: the whole (small) tree again on the walk / wrapper after each lifecycle operation
    for kind, eos, src in _lc_configs():
        for bs, T in ((None, 3), (2, 2)):
            units.append({"part": "b", "V": 3, "max_iters": T, "eos": eos, "batch_size": bs, "mode": "plain",
                          "lifecycle": kind, "eos_src": src, "w": _n_leaves(3, T, eos, bs or 1) * 2500 + 30000})
    return units


B_MODES = ("plain", "requires-grad", "inference", "default-float64")


def _b_unit(ctx, u, tier, seed, only=None):
    with _torch_state(u.get("mode", "plain")):
        _b_unit_inner(ctx, u, tier, seed, only)


def _b_unit_inner(ctx, u, tier, seed, only=None):
    V, T, eos, bs = u["V"], u["max_iters"], u["eos"], u["batch_size"]
    mode = u.get("mode", "plain")
    N = bs or 1
    eosn = None if eos is None else eos % V
    lc = u.get("lifecycle")
    rows = [(b + 1) % 2 for b in range(N)]
    init = {"row": torch.tensor(rows)}
    tree = _Tree(["b", V, T, eos, bs, mode, lc, u.get("eos_src")])
    guard = _Guard(ctx)
    gcase = {"part": "b", "unit": u, "seed": seed, "tier": tier}
    try:
        if lc is None:
            lm = TableLM(V, T, seed, poison_eos=eosn, grad=mode == "requires-grad")
            table_list = lm.table_list
            walk = M.RandomWalk(lm, eos)
            dist = SequentialLanguageModelDistribution(walk, None, dict(init), max_iters=T)
        else:
            objs = _lifecycle_objects(
                lc, V, T, eos, u.get("eos_src"), seed,
                lambda w: SequentialLanguageModelDistribution(w, None, dict(init), max_iters=T),
                lambda w: w(dict(init), bs, T),
                lambda dd: dd.log_prob(dd.sample([N])))
            if objs is None:
                ctx.count("lifecycle_variant_not_available")
                return
            lm, table_list, walk, dist = objs
            ctx.count("lifecycle_objects")
    except Exception as e:  # noqa: BLE001
        ctx.case(1)
        ctx.violation({"api": "RandomWalk", "symptom": "raises", "where": "constructor", "type": type(e).__name__,
                       "lifecycle": lc},
                      {"part": "b", "unit": u, "seed": seed, "tier": tier}, {"error": str(e)[-300:]})
        return

    def run(ch):
        with ScriptedRandom(ch) as sr:
            state = dict(init)
            out = guard("walk", "RandomWalk", dict(gcase, choices=ch.prefix), lambda: walk(state, bs, T), state)
        return out, sr.calls

    if only is not None:
        ch = Chooser(prefix=only)
        try:
            res = run(ch)
        except HarnessError:
            raise
        except Exception as e:  # noqa: BLE001
            res = e
        executions = [(ch, res)]
    else:
        executions = explore(run)

    mass = 0.0
    mass_reported = 0.0
    leaf_paths = []
    for ch, res in executions:
        case = {"part": "b", "unit": u, "choices": ch.choices, "seed": seed, "tier": tier}
        sig0 = {"api": "RandomWalk", "eos_set": eos is not None, "batched": bs is not None, "torch_state": mode,
                "lifecycle": lc}
        mass += ch.prob
        if isinstance(res, Exception):
            ctx.case(1)
            ctx.violation(dict(sig0, symptom="raises", type=type(res).__name__), case, {"error": str(res)[-300:]})
            continue
        (y, y_lens, lp), calls = res
        draws = [[r[0] for r in c[2]] for c in calls if c[0] == "multinomial"]
        tree.add_leaf(draws)
        _lm_protocol(ctx, lm, "RandomWalk", case)
        # ---- shapes ------------------------------------------------------------------
        if bs is None:
            ok_shape = y.dim() == 1 and y_lens.dim() == 0 and lp.dim() == 0
            if ok_shape:
                y, y_lens, lp = y.unsqueeze(1), y_lens.unsqueeze(0), lp.unsqueeze(0)
        else:
            ok_shape = y.dim() == 2 and y.size(1) == N and tuple(y_lens.shape) == (N,) and tuple(lp.shape) == (N,)
        if not ok_shape:
            ctx.case(1)
            ctx.violation(dict(sig0, symptom="wrong-shape"), case,
                          {"y": list(y.shape), "y_lens": list(y_lens.shape), "log_probs": list(lp.shape)})
            continue
        S = y.size(0)
        lens = y_lens.tolist()
        reported = lp.detach().tolist()
        want = O.replay_walk_draws(draws, N, T, eosn)
        paths = []
        bad = None
        if len(want) != 1 or not (max(lens) <= S <= T) or min(lens) < 0:
            bad = "length-bookkeeping"
        else:
            for b in range(N):
                path = y[: lens[b], b].tolist()
                paths.append(path)
                if not O.path_is_complete(path, V, T, eosn):
                    bad = "path-not-ended-at-first-eos-or-limit"
                    break
                if path != want[0][b]:
                    bad = "path-differs-from-draws"
                    break
        nontrivial = bad is None and any(len(p) >= 2 or len(p) < T for p in paths)
        ctx.case(1, 1 if nontrivial else 0)
        if bad:
            ctx.violation(dict(sig0, symptom=bad), case,
                          {"y": y.t().tolist(), "y_lens": lens, "draws": draws, "max_iters": T, "eos": eosn})
            continue
        leaf_paths.append(tuple(tuple(p) for p in paths))
        mass_reported += math.exp(sum(reported))
        # ---- score 1: reported == chain rule; leaf probability == exp(reported) ------------
        chain = [O.chain_rule(table_list[rows[b]], paths[b], V) for b in range(N)]
        agree = True
        if any(not O.close(r, c, TOL) for r, c in zip(reported, chain)):
            agree = False
            ctx.violation(dict(sig0, symptom="reported-log-prob-vs-chain-rule"), case,
                          {"paths": paths, "reported": reported, "chain_rule": chain})
        if not O.close(math.log(ch.prob), sum(reported), TOL):
            agree = False
            ctx.violation(dict(sig0, symptom="reported-log-prob-vs-draw-probabilities"), case,
                          {"paths": paths, "reported": reported, "log_path_prob_from_multinomial": math.log(ch.prob)})
        # the path, padded with eos where it ended early (what the wrapper itself would hand out)
        clean = y.clone()
        for b in range(N):
            if lens[b] < S:
                clean[lens[b]:, b] = eosn
        # ---- score 2: the definition applied to the model's outputs --------------------------
        try:
            full = lm(clean[:-1], dict(init))
            slp = guard("F", "sequence_log_probs", case,
                        lambda: F.sequence_log_probs(full, clean, 0, eosn), full, clean)
            if tuple(slp.shape) != (N,):
                raise AssertionError(f"shape {tuple(slp.shape)}")
            slp = slp.detach().tolist()
        except Exception as e:  # noqa: BLE001
            slp = None
            agree = False
            ctx.violation({"api": "sequence_log_probs", "input": "model-outputs", "symptom": "raises",
                           "type": type(e).__name__}, case, {"error": str(e)[-300:]})
        _lm_protocol(ctx, lm, "SequentialLanguageModel.forward", case)
        if slp is not None and any(not O.close(a, c, TOL) for a, c in zip(slp, chain)):
            agree = False
            ctx.violation({"api": "sequence_log_probs", "input": "model-outputs", "symptom": "wrong-value",
                           "eos_set": eos is not None}, case, {"paths": paths, "observed": slp, "chain_rule": chain})
        # ---- score 3: the wrapper's log_prob of the path ------------------------------------
        value = clean.t() if bs is not None else clean[:, 0]
        dlp, wa = _dist_log_prob(ctx, dist, value, case, T, eosn, False, guard)
        _lm_protocol(ctx, lm, API_LP, case)
        if dlp is None:
            agree = False
        else:
            dl = dlp.detach().reshape(-1).tolist()
            if any(not O.close(a, c, TOL) for a, c in zip(dl, chain)):
                agree = False
                ctx.violation({"api": API_LP, "symptom": "wrong-value", "batch_size_set": False,
                               "eos_set": eos is not None}, case,
                              {"paths": paths, "observed": dl, "chain_rule": chain, "workarounds": wa})
            if wa:
                ctx.count("leaves_scored_through_workaround")
        if agree:
            ctx.traces += 1
            ctx.outcome([paths, [round(c, 3) for c in chain]])
    if only is not None:
        return
    tree.flush(ctx)
    # ---- over the whole tree -----------------------------------------------------------
    tcase = {"part": "b", "unit": u, "seed": seed, "tier": tier}
    tsig = {"api": "RandomWalk", "eos_set": eos is not None, "batched": bs is not None, "torch_state": mode,
            "lifecycle": lc}
    if not O.close(mass, 1.0, 1e-9):
        ctx.violation(dict(tsig, symptom="tree-mass-not-one"), tcase, {"sum_of_leaf_probabilities": mass})
    if not O.close(mass_reported, 1.0, 1e-4):
        ctx.violation(dict(tsig, symptom="reported-probabilities-do-not-sum-to-one"), tcase,
                      {"sum_exp_reported": mass_reported})
    comp = O.complete_paths(V, T, eosn)
    want_leaves = sorted(itertools.product(comp, repeat=N))
    if sorted(leaf_paths) != want_leaves:
        ctx.violation(dict(tsig, symptom="leaf-set-differs-from-complete-paths"), tcase,
                      {"leaves": len(leaf_paths), "expected": len(want_leaves),
                       "missing": [p for p in want_leaves if p not in set(leaf_paths)][:3]})
    ctx.sample({"part": "b", "unit": {k: u[k] for k in u if k != "w"}, "leaves": len(leaf_paths),
                "tree_nodes": len(tree.nodes), "sum_leaf_prob": mass, "sum_exp_reported": mass_reported})


# =========================================================================================
# part c: distribution.sample / log_prob, whole sampling tree
# =========================================================================================
SAMPLE_SHAPES = ([], [1], [2], [1, 2], [2, 1], [2, 2])


def _c_units(tier):
    units = []
    cap = 20000 if tier == "thorough" else 1500
    seen = set()
    for V, T, eos, bs in _walk_configs(tier):
        if eos is not None and eos < 0:
            continue
        if bs == 3:
            continue
        for shape in SAMPLE_SHAPES:
            rows = _prod(shape) * (bs or 1)
            leaves = _n_leaves(V, T, eos, rows)
            if leaves > cap:
                continue
            for cache in (False, True):
                key = (V, T, eos, bs, tuple(shape), cache)
                if key in seen:
                    continue
                seen.add(key)
                units.append({"part": "c", "V": V, "max_iters": T, "eos": eos, "batch_size": bs,
                              "shape": list(shape), "cache": cache,
                              "w": leaves * ((6500 if leaves <= 100 else 3800) if cache else 3000) + 5000})
    # object lifecycle (generic operations on the wrapper itself, with and without its cache; module operations
    # on the walk inside a fresh wrapper)
    for kind, eos, src in _lc_configs():
        for bs, shape in ((None, [2]), (2, [])):
            for cache in ((False, True) if kind in LC_GENERIC else (False,)):
                units.append({"part": "c", "V": 3, "max_iters": 2, "eos": eos, "batch_size": bs, "shape": shape,
                              "cache": cache, "lifecycle": kind, "eos_src": src,
                              "w": _n_leaves(3, 2, eos, 2) * (6500 if cache else 3200) + 30000})
    return units


def _make_dist(V, T, eos, bs, cache, seed, grad=False):
    lm = TableLM(V, T, seed, poison_eos=eos, grad=grad)
    rows = [(b + 1) % 2 for b in range(bs or 1)] if bs else [0]
    init = {"row": torch.tensor(rows)} if bs else None
    walk = M.RandomWalk(lm, eos)
    d = SequentialLanguageModelDistribution(walk, bs, init, max_iters=T, cache_samples=cache)
    return lm, rows, d


def _c_unit(ctx, u, tier, seed, only=None):
    V, T, eos, bs = u["V"], u["max_iters"], u["eos"], u["batch_size"]
    shape, cache = u["shape"], u["cache"]
    N = bs or 1
    Msz = _prod(shape)
    bset = bs is not None
    # the LM's scores are attached to the autograd graph in one of the two cache variants of every configuration
    grad = cache != ((V + T + (bs or 0) + len(shape) + sum(shape)) % 2 == 0)
    lc = u.get("lifecycle")
    if lc is None:
        lm, rows, d = _make_dist(V, T, eos, bs, cache, seed, grad)
        table_list = lm.table_list
    else:
        rows = [(b + 1) % 2 for b in range(bs)] if bs else [0]
        init_c = {"row": torch.tensor(rows)} if bs else None
        try:
            objs = _lifecycle_objects(
                lc, V, T, eos, u.get("eos_src"), seed,
                lambda w: SequentialLanguageModelDistribution(w, bs, init_c, max_iters=T, cache_samples=cache),
                lambda w: w(dict(init_c or {}), bs or 2, T),
                lambda dd: dd.log_prob(dd.sample(torch.Size(shape))))
        except Exception as e:  # noqa: BLE001
            ctx.case(1)
            ctx.violation({"api": API_SAMPLE, "symptom": "raises", "where": "lifecycle-operation", "lifecycle": lc,
                           "type": type(e).__name__}, {"part": "c", "unit": u, "seed": seed, "tier": tier},
                          {"error": str(e)[-300:]})
            return
        if objs is None:
            ctx.count("lifecycle_variant_not_available")
            return
        lm, table_list, _, d = objs
        ctx.count("lifecycle_objects")
    first_leaf = [lc is not None]  # a cache that travelled with a copied wrapper is not cleared before its first use
    tree = _Tree(["c", V, T, eos, bs, shape, cache, lc, u.get("eos_src")])
    comp = set(O.complete_paths(V, T, eos))
    guard = _Guard(ctx)
    gcase = {"part": "c", "unit": u, "seed": seed, "tier": tier}

    def run(ch):
        if not first_leaf[0]:
            d.clear_cache()
        first_leaf[0] = False
        with ScriptedRandom(ch) as sr:
            s = guard("sample", API_SAMPLE, dict(gcase, choices=ch.prefix),
                      lambda: d.sample(torch.Size(shape)), d.initial_state)
        return s, sr.calls

    if only is not None:
        ch = Chooser(prefix=only)
        try:
            res = run(ch)
        except HarnessError:
            raise
        except Exception as e:  # noqa: BLE001
            res = e
        executions = [(ch, res)]
    else:
        executions = explore(run)
    mass = 0.0
    mass_oracle = 0.0
    nleaves = 0
    for ch, res in executions:
        nleaves += 1
        case = {"part": "c", "unit": u, "choices": ch.choices, "seed": seed, "tier": tier}
        sig0 = {"api": API_SAMPLE, "eos_set": eos is not None, "batch_size_set": bset, "sample_dims": len(shape),
                "cache": cache, "lifecycle": lc}
        mass += ch.prob
        if isinstance(res, Exception):
            ctx.case(1)
            ctx.violation(dict(sig0, symptom="raises", type=type(res).__name__), case, {"error": str(res)[-300:]})
            continue
        s, calls = res
        draws = [[r[0] for r in c[2]] for c in calls if c[0] == "multinomial"]
        tree.add_leaf(draws)
        _lm_protocol(ctx, lm, API_SAMPLE, case)
        # what was drawn, re-derived from the raw draws: walks[m][row]
        walks = O.replay_walk_draws(draws, N if bset else Msz, T, eos)
        n_walks = Msz if bset else 1
        drawn = {}  # batch element -> sorted list of paths
        if len(walks) == n_walks:
            for m, w in enumerate(walks):
                for r, p in enumerate(w):
                    drawn.setdefault(r if bset else 0, []).append(tuple(p))
        longest = max((len(p) for w in walks for p in w), default=0)
        # ---- shape -------------------------------------------------------------------
        S = s.size(-1) if s.dim() else -1
        want_prefix = tuple(shape) + ((bs,) if bset else ())
        bad = None
        if len(walks) != n_walks:
            bad = "number-of-walks"
        elif s.dim() != len(want_prefix) + 1 or tuple(s.shape[:-1]) != want_prefix or not (longest <= S <= T):
            bad = "wrong-shape"
        if bad:
            ctx.case(1)
            ctx.violation(dict(sig0, symptom=bad), case,
                          {"shape": list(s.shape), "expected_prefix": list(want_prefix), "longest_path": longest,
                           "walks": len(walks), "expected_walks": n_walks})
            continue
        s3 = s.reshape(Msz, N, S)
        paths = [[tuple(O.strip_after_eos(s3[m, b].tolist(), eos)) for b in range(N)] for m in range(Msz)]
        got = {}
        for m in range(Msz):
            for b in range(N):
                got.setdefault(b if bset else 0, []).append(paths[m][b])
        nontrivial = any(len(p) >= 2 or len(p) < T for row in paths for p in row)
        ctx.case(1, 1 if nontrivial else 0)
        if any(p not in comp for row in paths for p in row):
            ctx.violation(dict(sig0, symptom="sample-not-a-complete-path"), case,
                          {"sample": s, "max_iters": T, "eos": eos})
            continue
        if {k: sorted(v) for k, v in got.items()} != {k: sorted(v) for k, v in drawn.items()}:
            ctx.violation(dict(sig0, symptom="sample-differs-from-draws"), case,
                          {"sample": s, "drawn_per_batch_element": drawn})
            continue
        # ---- support.check, with the wrapper's own constraint object ------------------------
        try:
            ok = guard("check", "TokenSequenceConstraint.check", case, lambda: d.support.check(s), s)
            if tuple(ok.shape) != want_prefix or not bool(ok.all()):
                ctx.violation({"api": "TokenSequenceConstraint.check", "symptom": "sample-rejected",
                               "eos_set": eos is not None, "shorter_than_max_iters": S < T}, case,
                              {"sample": s, "check": ok})
        except Exception as e:  # noqa: BLE001
            ctx.violation({"api": "TokenSequenceConstraint.check", "symptom": "raises", "type": type(e).__name__},
                          case, {"error": str(e)[-300:]})
        # ---- scores ------------------------------------------------------------------
        chain = [[O.chain_rule(table_list[rows[b]], paths[m][b], V) for b in range(N)] for m in range(Msz)]
        flat_chain = [x for row in chain for x in row]
        total = sum(flat_chain)
        mass_oracle += math.exp(total)
        agree = True
        if not O.close(math.log(ch.prob), total, TOL):
            agree = False
            ctx.violation(dict(sig0, symptom="sample-probability-vs-chain-rule"), case,
                          {"sample": s, "log_prob_of_draws": math.log(ch.prob), "chain_rule_total": total})

        def compare(tag, value, want):
            lp, wa = _dist_log_prob(ctx, d, value, dict(case, step=tag), T, eos, bset, guard,
                                    history=tag if tag.startswith("after-eos:") else None)
            if lm.protocol_errors:
                ctx.violation({"api": API_LP, "symptom": "lm-called-out-of-protocol",
                               "history": tag if tag.startswith(("cache:", "after-eos:")) else "none"},
                              dict(case, step=tag), {"errors": lm.protocol_errors[:4], "value": value})
                del lm.protocol_errors[:]
                return False
            if lp is None:
                return False
            gl = lp.detach().reshape(-1).tolist()
            if any(not O.close(a, c, TOL) for a, c in zip(gl, want)):
                ctx.violation({"api": API_LP, "symptom": "wrong-value", "batch_size_set": bset,
                               "eos_set": eos is not None,
                               "cache_probe": tag == "different-value-same-shape" or tag.startswith("cache:"),
                               "history": tag if tag.startswith(("cache:", "after-eos:")) else "none",
                               "lifecycle": lc},
                              dict(case, step=tag),
                              {"sample": value, "observed": gl, "chain_rule": want, "workarounds": wa})
                return False
            if wa:
                ctx.count("leaves_scored_through_workaround")
            return True

        agree &= compare("after-sample", s, flat_chain)
        if eos is not None and any(len(p) < S for row in paths for p in row):
            # "any value beyond the first eos in each sequence is ignored" (TokenSequenceConstraint): the positions
            # after the end of a path hold another token / an out-of-vocabulary id instead of the eos padding
            gk = ("other-token", "oov-high", "oov-negative")[nleaves % 3]
            junk = {"other-token": (eos + 1) % V, "oov-high": V, "oov-negative": -1}[gk]
            dirty = s3.clone()
            for m in range(Msz):
                for b in range(N):
                    dirty[m, b, len(paths[m][b]):] = junk
            d.clear_cache()
            del lm.protocol_errors[:]
            agree &= compare("after-eos:" + gk, dirty.reshape(s.shape), flat_chain)
            d.clear_cache()
        if cache:
            d.clear_cache()
            agree &= compare("after-clear-cache", s, flat_chain)
            agree &= compare("repeated", s, flat_chain)
            if Msz > 1:
                # another value of the same shape: the cache must not answer for it
                alt = s3.roll(1, 0).reshape(s.shape)
                alt_chain = [x for row in (chain[-1:] + chain[:-1]) for x in row]
                agree &= compare("different-value-same-shape", alt, alt_chain)
                if not torch.equal(alt, s) and len(comp) ** (Msz * N) <= 100:
                    # (histories on the trees with at most 100 leaves: they need a handful of values, not all)
                    # (i) tensors handed out / handed in belong to the caller: editing them in place afterwards
                    # must not make log_prob answer from a cache entry that no longer describes the value
                    d.clear_cache()
                    mine = s.clone()
                    compare("cache:fill-by-log_prob", mine, flat_chain)
                    mine.copy_(alt)
                    agree &= compare("cache:value-edited-in-place-after-log_prob", mine, alt_chain)
                    d.clear_cache()
                    with ScriptedRandom(Chooser(prefix=ch.choices)):
                        again = d.sample(torch.Size(shape))
                    if torch.equal(again, s):
                        again.copy_(alt)
                        agree &= compare("cache:sample-edited-in-place", again, alt_chain)
                    d.clear_cache()
                    lp_mine, _ = _dist_log_prob(ctx, d, s, dict(case, step="cache:fill-by-log_prob"), T, eos, bset)
                    if lp_mine is not None:
                        lp_mine.detach().add_(1.0)  # the result belongs to the caller too
                        guard.kept.pop("log_prob", None)
                        agree &= compare("cache:log_prob-result-edited-in-place", s, flat_chain)
                    # (ii) the wrapper is used again after a call failed inside the language model and the caller
                    # caught the error
                    d.clear_cache()
                    compare("cache:fill-by-log_prob", s, flat_chain)
                    lm.fail_next = 1
                    try:
                        d.log_prob(alt.clone())
                    except RuntimeError:
                        pass
                    lm.fail_next = 0
                    agree &= compare("cache:after-caught-failure-in-lm", alt, alt_chain)
        if agree:
            ctx.traces += 1
            ctx.outcome([paths, S])
    if only is not None:
        return
    tree.flush(ctx)
    tcase = {"part": "c", "unit": u, "seed": seed, "tier": tier}
    tsig = {"api": API_SAMPLE, "eos_set": eos is not None, "batch_size_set": bset, "sample_dims": len(shape)}
    if not O.close(mass, 1.0, 1e-9):
        ctx.violation(dict(tsig, symptom="tree-mass-not-one"), tcase, {"sum_of_leaf_probabilities": mass})
    want_leaves = len(comp) ** (Msz * N)
    if nleaves != want_leaves or not O.close(mass_oracle, 1.0, 1e-4):
        ctx.violation(dict(tsig, symptom="sampling-tree-differs-from-support"), tcase,
                      {"leaves": nleaves, "expected_leaves": want_leaves, "sum_chain_rule_probabilities": mass_oracle})
    ctx.sample({"part": "c", "unit": {k: u[k] for k in u if k != "w"}, "leaves": nleaves,
                "tree_nodes": len(tree.nodes), "sum_leaf_prob": mass})


# =========================================================================================
# part s: enumerate_support
# =========================================================================================
def _s_units(tier):
    units = []
    for V, T, eos, bs in _walk_configs(tier):
        if (eos is not None and eos < 0) or bs == 3:
            continue
        for cache in (False, True):
            units.append({"part": "s", "V": V, "max_iters": T, "eos": eos, "batch_size": bs, "cache": cache,
                          "w": len(O.complete_paths(V, T, eos)) * (1200 if cache else 100) + 8000})
    return units


def _s_unit(ctx, u, tier, seed, only=None):
    V, T, eos, bs, cache = u["V"], u["max_iters"], u["eos"], u["batch_size"], u["cache"]
    N = bs or 1
    bset = bs is not None
    grad = cache != ((V + T + (bs or 0)) % 2 == 0)
    lm, rows, d = _make_dist(V, T, eos, bs, cache, seed, grad)
    case = {"part": "s", "unit": u, "seed": seed, "tier": tier}
    sig0 = {"api": API_SUP, "eos_set": eos is not None, "batch_size_set": bset}
    comp = O.complete_paths(V, T, eos)
    padded = {tuple(list(p) + [eos] * (T - len(p))): p for p in comp}
    K = len(comp)
    ctx.case(1, 1)
    guard = _Guard(ctx)
    try:
        if not d.has_enumerate_support:
            raise AssertionError("has_enumerate_support is False although max_iters is set")
        sup = guard("sup", API_SUP, case, lambda: d.enumerate_support(), d.initial_state)
        sup_ne = guard("sup", API_SUP, case, lambda: d.enumerate_support(expand=False), d.initial_state)
    except Exception as e:  # noqa: BLE001
        ctx.violation(dict(sig0, symptom="raises", type=type(e).__name__), case, {"error": str(e)[-300:]})
        return
    want_shape = (K,) + ((bs,) if bset else ()) + (T,)
    want_ne = (K,) + ((1,) if bset else ()) + (T,)
    if tuple(sup.shape) != want_shape or tuple(sup_ne.shape) != want_ne:
        ctx.violation(dict(sig0, symptom="wrong-shape"), case,
                      {"expected": [list(want_shape), list(want_ne)], "observed": [list(sup.shape), list(sup_ne.shape)]})
        return
    s3 = sup.reshape(K, N, T)
    listed = [tuple(s3[k, 0].tolist()) for k in range(K)]
    same_over_batch = all(tuple(s3[k, b].tolist()) == listed[k] for k in range(K) for b in range(N))
    ne_rows = [tuple(r) for r in sup_ne.reshape(K, T).tolist()]
    if sorted(listed) != sorted(padded) or not same_over_batch or ne_rows != listed:
        ctx.violation(dict(sig0, symptom="support-differs-from-complete-paths"), case,
                      {"listed": listed, "expected": sorted(padded)})
        return
    try:
        ok = guard("check", "TokenSequenceConstraint.check", case, lambda: d.support.check(sup), sup)
        if tuple(ok.shape) != want_shape[:-1] or not bool(ok.all()):
            ctx.violation({"api": "TokenSequenceConstraint.check", "symptom": "support-element-rejected",
                           "eos_set": eos is not None}, case, {"check": ok})
    except Exception as e:  # noqa: BLE001
        ctx.violation({"api": "TokenSequenceConstraint.check", "symptom": "raises", "type": type(e).__name__},
                      case, {"error": str(e)[-300:]})
    chain = [[O.chain_rule(lm.table_list[rows[b]], padded[listed[k]], V) for b in range(N)] for k in range(K)]
    # the reference distribution itself is normalised (sanity of the oracle, not of the library)
    for b in range(N):
        tot = sum(math.exp(chain[k][b]) for k in range(K))
        if not O.close(tot, 1.0, 1e-9):
            raise HarnessError(f"oracle support mass {tot}")
    lp, wa = _dist_log_prob(ctx, d, sup, dict(case, step="whole-support"), T, eos, bset, guard)
    _lm_protocol(ctx, lm, API_LP, case)
    ok_all = lp is not None
    if lp is not None:
        lp2 = lp.detach().reshape(K, N).tolist()
        for b in range(N):
            tot = sum(math.exp(lp2[k][b]) for k in range(K))
            if not O.close(tot, 1.0, 1e-4):
                ok_all = False
                ctx.violation(dict(sig0, symptom="support-probabilities-do-not-sum-to-one"), case,
                              {"sum": tot, "batch_element": b})
        if any(not O.close(lp2[k][b], chain[k][b], TOL) for k in range(K) for b in range(N)):
            ok_all = False
            ctx.violation({"api": API_LP, "symptom": "wrong-value", "batch_size_set": bset,
                           "eos_set": eos is not None}, dict(case, step="whole-support"),
                          {"observed": lp2, "chain_rule": chain, "workarounds": wa})
    if cache:
        # consecutive queries of the same shape with different values: a stale cache would show
        for k in range(K):
            ctx.case(1, 1)
            v = sup[k: k + 1]
            lpk, wa = _dist_log_prob(ctx, d, v, dict(case, step="one-element", k=k), T, eos, bset, guard)
            if lpk is None:
                ok_all = False
                continue
            gl = lpk.detach().reshape(-1).tolist()
            if any(not O.close(a, c, TOL) for a, c in zip(gl, chain[k])):
                ok_all = False
                ctx.violation({"api": API_LP, "symptom": "wrong-value", "batch_size_set": bset,
                               "eos_set": eos is not None, "cache_probe": True}, dict(case, k=k, step="one-element"),
                              {"value": v, "observed": gl, "chain_rule": chain[k], "workarounds": wa})
        _lm_protocol(ctx, lm, API_LP, case)
    if ok_all:
        ctx.outcome(["support", V, T, eos, bs])
        ctx.count("supports_normalised")


# =========================================================================================
# part d: greedy CTC
# =========================================================================================
def _d_units(tier):
    units = []
    for C in (1, 2, 3):
        for T in range(0, 5):
            for blank in range(-C, C):
                units.append({"part": "d", "C": C, "T": T, "blank_idx": blank,
                              "w": (C ** T) * (T + 1) * 4 * 700 + 30000})
    return units


def _d_logits(rng, labels, C):
    """seed-valued frame scores with a seed-valued margin around the chosen arg-max."""
    rows = []
    for lab in labels:
        r = [round(rng.uniform(-2.0, 2.0), 3) for _ in range(C)]
        top = max([r[c] for c in range(C) if c != lab], default=r[lab])
        r[lab] = round(top + rng.uniform(0.05, 1.5), 3)
        rows.append(r)
    return rows


D_FILLS = {  # what the frames at or beyond in_lens[n] hold (they are not valid and must not matter)
    False: ("own-frames", "neg-inf", "nan", "pos-inf", "huge"),  # un-normalised log scores
    True: ("own-frames", "zero", "nan", "pos-inf", "huge"),  # probabilities
}


def _d_fill(x, rows, fill):
    """x: (T,R,C).  Overwrites, for every row, the frames t >= in_len."""
    if fill == "own-frames":
        return x
    x = x.clone()
    T = x.size(0)
    for r, (_, in_len) in enumerate(rows):
        if in_len >= T:
            continue
        pad = x[in_len:, r]  # (T - in_len, C) view
        if fill == "neg-inf":
            pad[...] = NINF  # pad_sequence(..., padding_value=-inf)
        elif fill == "zero":
            pad[...] = 0.0
        elif fill == "huge":
            pad[...] = 1e30
            pad[:, r % x.size(2)] = -1e30 if r % 3 == 0 else 3e38
        elif fill == "nan":
            if r % 2:
                pad[...] = NAN
            else:
                pad[:, r % x.size(2)] = NAN  # one class only (an uninitialised buffer)
        elif fill == "pos-inf":
            if r % 2:
                pad[...] = PINF
            else:
                pad[:, r % x.size(2)] = PINF
    return x


STATES = ("plain", "requires-grad", "float64", "int32", "default-float64", "inference")


def _d_eval(ctx, u, case, logits_tnc, rows, in_lens_given, blank, batch_first, is_probs, use_module, tag,
            guard=None, mods=None, fill="own-frames", state="plain", call=None, variant=None):
    """rows: list of (labels, in_len); logits_tnc: (T,R,C) float32 tensor of frame scores.
    state: autograd / dtype / global torch state of the call (the value must not depend on it);
    call: optional callable (inp, in_lens) replacing the eager function/module (scripted, traced)."""
    T, R, C = logits_tnc.shape
    x = logits_tnc.softmax(2) if is_probs else logits_tnc
    if in_lens_given:
        x = _d_fill(x, rows, fill)
    frames = x.double().tolist()  # [t][r][c] exactly what the implementation sees
    inp = x.transpose(0, 1).contiguous() if batch_first else x
    in_lens = torch.tensor([r[1] for r in rows], dtype=torch.long) if in_lens_given else None
    if state == "requires-grad":
        inp = inp.clone().requires_grad_(True)
    elif state == "float64":
        inp = inp.double()
    elif state == "int32" and in_lens is not None:
        in_lens = in_lens.int()
    variant = variant or ("module" if use_module else "functional")
    sig0 = {"api": "ctc_greedy_search", "is_probs": is_probs, "batch_first": batch_first,
            "in_lens_given": in_lens_given, "neg_blank": blank < 0, "batching": tag, "frames_past_in_lens": fill,
            "input_state": state, "variant": variant}
    guard = guard if guard is not None else _Guard(ctx)
    gcase = dict(case, batching=tag, batch_first=batch_first, is_probs=is_probs, in_lens_given=in_lens_given,
                 module=use_module, fill=fill, state=state, variant=variant)
    try:
        if call is not None:
            with _torch_state(state):
                mx, paths, out_lens = guard((variant, batch_first, is_probs, in_lens_given), "ctc_greedy_search",
                                            gcase, lambda: call(inp, in_lens), inp, in_lens)
            mx = mx.detach()
        elif use_module:
            mod = None if mods is None else mods.get((batch_first, is_probs))
            if mod is None:
                mod = M.CTCGreedySearch(blank, batch_first, is_probs)
                if mods is not None:
                    mods[(batch_first, is_probs)] = mod
            with _torch_state(state):
                mx, paths, out_lens = guard(("M", batch_first, is_probs), "ctc_greedy_search", gcase,
                                            lambda: mod(inp, in_lens), inp, in_lens)
            mx = mx.detach()
        else:
            with _torch_state(state):
                mx, paths, out_lens = guard("F", "ctc_greedy_search", gcase,
                                            lambda: F.ctc_greedy_search(inp, in_lens, blank, batch_first, is_probs),
                                            inp, in_lens)
            mx = mx.detach()
    except Exception as e:  # noqa: BLE001
        ctx.case(R)
        ctx.violation(dict(sig0, symptom="raises", type=type(e).__name__), case, {"error": str(e)[-300:]})
        return
    want_paths_shape = (R, T) if batch_first else (T, R)
    if tuple(paths.shape) != want_paths_shape or tuple(mx.shape) != (R,) or tuple(out_lens.shape) != (R,):
        ctx.case(R)
        ctx.violation(dict(sig0, symptom="wrong-shape"), case,
                      {"paths": list(paths.shape), "max": list(mx.shape), "out_lens": list(out_lens.shape)})
        return
    pl = (paths if batch_first else paths.t()).tolist()
    ml, ol = mx.tolist(), out_lens.tolist()
    bnorm = blank % C
    for r, (labels, in_len) in enumerate(rows):
        L = in_len if in_lens_given else T
        want = O.ctc_collapse(labels, L, bnorm)
        score = O.ctc_score([frames[t][r] for t in range(T)], labels, L, is_probs)
        ctx.case(1, 1 if want != list(labels[:L]) else 0)
        rcase = dict(gcase, row={"labels": labels, "in_len": in_len})
        if ol[r] != len(want) or pl[r][: len(want)] != want:
            sym = "wrong-path"
            if len(want) > 0 and labels[0] == bnorm and pl[r][: ol[r]][:1] == [bnorm]:
                sym = "blank-kept"
            ctx.violation(dict(sig0, symptom=sym), rcase,
                          {"expected": want, "observed": pl[r][: max(ol[r], 0)], "out_len": ol[r]})
        elif not O.close(ml[r], score, TOL):
            ctx.violation(dict(sig0, symptom="wrong-score"), rcase, {"expected": score, "observed": ml[r]})
        else:
            ctx.outcome([want, L])


def _d_unit(ctx, u, tier, seed, only=None):
    C, T, blank = u["C"], u["T"], u["blank_idx"]
    rng = _rng(seed, "d", C, T)
    rows = [(labels, in_len) for labels in O.all_sequences(range(C), T) for in_len in range(T + 1)]
    per_row = [_d_logits(rng, labels, C) for labels, _ in rows]  # [r][t][c]
    R = len(rows)
    if T == 0:
        full = torch.zeros((0, R, C), dtype=torch.float32)
    else:
        full = torch.tensor(per_row, dtype=torch.float32).transpose(0, 1).contiguous()  # (T,R,C)
    case = {"part": "d", "unit": u, "seed": seed, "tier": tier}
    ctx.sample({"part": "d", "unit": {k: u[k] for k in u if k != "w"}, "rows_in_ragged_batch": R,
                "example_row": {"labels": rows[R // 2][0], "in_len": rows[R // 2][1]}})
    k = 0
    guard = _Guard(ctx)
    mods = {}  # one module object per configuration, reused across all the unrelated calls of the unit
    rev = list(reversed(rows))
    for batch_first, is_probs, in_lens_given in itertools.product((False, True), (False, True), (True, False)):
        k += 1
        fills = D_FILLS[is_probs] if (in_lens_given and T > 0) else ("own-frames",)
        for fi, fill in enumerate(fills):
            # autograd state of the scores: each padding kind once detached and once attached to the graph
            st = ("plain", "requires-grad") if (k + fi) % 2 else ("requires-grad", "plain")
            _d_eval(ctx, u, case, full, rows, in_lens_given, blank, batch_first, is_probs, (k + fi) % 2 == 0,
                    "ragged-batch", guard, mods, fill, st[0])
            _d_eval(ctx, u, case, full.flip(1), rev, in_lens_given, blank, batch_first, is_probs, (k + fi) % 2 == 1,
                    "ragged-batch-reversed", guard, mods, fill, st[1])
        if in_lens_given:
            step = 1 if (tier == "thorough" or R <= 60) else 5
            for r in range(k % step, R, step):
                _d_eval(ctx, u, case, full[:, r: r + 1], rows[r: r + 1], True, blank, batch_first, is_probs,
                        (r + k) % 2 == 0, "single", guard, mods, fills[(r + k) % len(fills)],
                        STATES[(r // 2 + k) % len(STATES)])


# =========================================================================================
# part j: scripted / traced modules, autograd state, dtypes, global torch state (one batch per call)
# =========================================================================================
def _j_units(tier):
    units = []
    for V in (2, 3):
        for layout in ("TN", "NT", "ETN", "TEN", "ENT"):
            _, _, pos, nd = LAYOUTS[layout]
            for dim in (pos, pos - nd):
                for eos in [None] + list(range(V)):
                    units.append({"part": "j", "kind": "seq", "V": V, "layout": layout, "dim": dim, "eos": eos,
                                  "w": 30000})
        for dim in (0, 1, -1, -2):
            for eos in (None, 0):
                units.append({"part": "j", "kind": "seqp", "V": V, "dim": dim, "eos": eos, "w": 200000})
        for eos in [None] + list(range(V)) + [-1]:
            for bs in (None, 2, 3):
                units.append({"part": "j", "kind": "walk", "V": V, "eos": eos, "batch_size": bs, "w": 50000})
    for C in (1, 2, 3):
        for blank in range(-C, C):
            units.append({"part": "j", "kind": "ctc", "C": C, "T": 3, "blank_idx": blank, "w": 300000})
    return units


def _jit_variants(ctx, module, examples, api, case):
    """eager module + torch.jit.script(module) + torch.jit.trace(module, example) for every example."""
    out = [("eager", module)]
    try:
        out.append(("script", torch.jit.script(module)))
    except Exception as e:  # noqa: BLE001
        ctx.violation({"api": api, "symptom": "raises", "where": "torch.jit.script", "type": type(e).__name__},
                      case, {"error": str(e)[-300:]})
    for name, ex in examples:
        try:
            out.append((name, torch.jit.trace(module, ex, check_trace=False)))
        except Exception as e:  # noqa: BLE001
            ctx.violation({"api": api, "symptom": "raises", "where": "torch.jit.trace", "type": type(e).__name__},
                          dict(case, example=name), {"error": str(e)[-300:]})
    return out


def _lifecycle_modules(ctx, make, make_src, used, api, case):
    """('lc:<operation>', module) for every lifecycle operation; make_src() has OTHER option values and writes the
    state dict that is loaded into a module built by make() (which must keep its own options)."""
    out = []
    try:
        for name, obj in lifecycle_variants(make, used, kinds=set(LC_GENERIC + LC_MODULE) - {"state_dict-into-other"}):
            out.append(("lc:" + name, obj))
        for name, obj in lifecycle_variants(make_src, used, kinds={"state_dict-into-other"}, make_other=make):
            out.append(("lc:" + name, obj))
    except Exception as e:  # noqa: BLE001
        ctx.violation({"api": api, "symptom": "raises", "where": "lifecycle-operation", "type": type(e).__name__},
                      case, {"error": str(e)[-300:]})
    ctx.count("lifecycle_objects", len(out))
    return out


def _states_for(vname, k):
    if vname.startswith("lc:"):
        return ("plain", STATES[1 + k % (len(STATES) - 1)])
    return STATES


def _j_seq(ctx, u, tier, seed):
    V, layout, dim, eos = u["V"], u["layout"], u["dim"], u["eos"]
    T = 3
    E = 2 if len(layout) == 3 else 1
    alpha = list(range(-1, V + 1))
    seqs = O.all_sequences(alpha, T)
    K = len(seqs)
    per_e = [seqs, list(reversed(seqs))][:E]
    rng = _rng(seed, "j", V, layout)
    L = _rand_tensor(rng, (E, T, K, V))
    lsm = [[[O.log_softmax(L[e, t, b].double().tolist()) for t in range(T)] for b in range(K)] for e in range(E)]
    for e in range(E):
        for b in range(K):
            stop = O.first_eos_len(per_e[e][b], eos)
            for t in range(T):
                if t >= stop or not (0 <= per_e[e][b][t] < V):
                    _poison_row(L[e, t, b], FILL_KINDS[(b + e + t) % 4], (t + b) % 2 == 1)
    H = torch.tensor(per_e, dtype=torch.long).permute(0, 2, 1)
    hyp, logits = _a_layout(layout, H, L)
    hyp, logits = hyp.contiguous(), logits.contiguous()
    exp = [O.seq_log_prob(lsm[e][b], per_e[e][b], eos) for e in range(E) for b in range(K)]
    scored = sum(1 for e in range(E) for b in range(K)
                 if any(0 <= tok < V for tok in per_e[e][b][: O.first_eos_len(per_e[e][b], eos)]))
    # the tracing example differs from the evaluated batch in every way that matters: other T, N (and E), every
    # token in vocabulary and none of them the eos
    tok = 1 if eos == 0 else 0
    Hx = torch.full((1, 2, 3), tok, dtype=torch.long)
    hx, lx = _a_layout(layout, Hx, _rand_tensor(rng, (1, 2, 3, V)))
    case = {"part": "j", "unit": u, "seed": seed, "tier": tier}
    module = M.SequenceLogProbabilities(dim, eos)
    variants = _jit_variants(ctx, module, [("trace", (lx.contiguous(), hx.contiguous()))], "sequence_log_probs", case)
    eos_src = 1 if eos in (None, 0) else 0
    variants += _lifecycle_modules(ctx, lambda: M.SequenceLogProbabilities(dim, eos),
                                   lambda: M.SequenceLogProbabilities(dim, eos_src),
                                   lambda m: m(lx.contiguous(), hx.contiguous()), "sequence_log_probs", case)
    guard = _Guard(ctx)
    ctx.sample({"part": "j", "unit": {k: u[k] for k in u if k != "w"}, "batch_of_all_hyps": K * E,
                "variants": [v[0] for v in variants], "states": STATES})
    for vk, (vname, fn) in enumerate(variants):
        for state in _states_for(vname, vk):
            lg, hy = logits, hyp
            if state == "requires-grad":
                lg = logits.clone().requires_grad_(True)
            elif state == "float64":
                lg = logits.double()
            elif state == "int32":
                hy = hyp.int()
            ctx.case(K * E, scored)
            sig0 = {"api": "sequence_log_probs", "input": "tensor", "eos_set": eos is not None, "neg_dim": dim < 0,
                    "variant": vname, "input_state": state}
            c2 = dict(case, variant=vname, state=state)
            try:
                with _torch_state(state):
                    out = guard(vname, "sequence_log_probs", c2, lambda: fn(lg, hy), lg, hy)
            except Exception as e:  # noqa: BLE001
                ctx.violation(dict(sig0, symptom="raises", type=type(e).__name__), c2, {"error": str(e)[-300:]})
                continue
            if out.numel() != K * E:
                ctx.violation(dict(sig0, symptom="wrong-shape"), c2, {"observed": list(out.shape)})
                continue
            got = out.detach().reshape(-1).tolist()
            bad = [i for i, (g, x) in enumerate(zip(got, exp)) if not O.close(g, x, TOL)]
            if bad:
                i = bad[0]
                ctx.violation(dict(sig0, symptom="wrong-value"), c2,
                              {"hyp": per_e[i // K][i % K], "expected": exp[i], "observed": got[i],
                               "wrong_elements": len(bad)})
            else:
                ctx.outcome(["j-seq", vname, state])


def _j_seqp(ctx, u, tier, seed):
    V, dim, eos = u["V"], u["dim"], u["eos"]
    N = T = 3
    rng = _rng(seed, "jp", V)
    L = _rand_tensor(rng, (T, N, V))
    lsm = [[O.log_softmax(L[t, b].double().tolist()) for t in range(T)] for b in range(N)]
    contents = _p_contents(V, T, N, False)
    case = {"part": "j", "unit": u, "seed": seed, "tier": tier}
    module = M.SequenceLogProbabilities(dim, eos)
    # tracing example: one sequence of one step (an unsorted packing: traces cannot carry None indices)
    ex_ps = torch.nn.utils.rnn.pack_padded_sequence(_rand_tensor(rng, (1, 1, V)), torch.tensor([1]),
                                                    enforce_sorted=False)
    variants = _jit_variants(ctx, module, [("trace", (ex_ps, torch.zeros((1, 1), dtype=torch.long)))],
                             "sequence_log_probs", case)
    guard = _Guard(ctx)
    k = 0
    for pi, lens in enumerate(itertools.product(range(1, T + 1), repeat=N)):
        descending = all(lens[i] >= lens[i + 1] for i in range(N - 1))
        for mode in (True, False, "reversed-ties"):
            if (mode is True and not descending) or (mode == "reversed-ties" and len(set(lens)) == N):
                continue
            for ci, content in enumerate(contents):
                Lc = L.clone()
                for b in range(N):
                    for t in range(T):
                        if t >= lens[b] or not (0 <= content[b][t] < V):
                            _poison_row(Lc[t, b], FILL_KINDS[(pi + ci + t) % 4], (t + b) % 2 == 1)
                Hc = torch.tensor(content, dtype=torch.long)
                hyp0 = (Hc if dim in (1, -1) else Hc.t()).contiguous()
                exp = [O.seq_log_prob(lsm[b], content[b], None, lens[b]) for b in range(N)]
                scored = any(0 <= tok < V for b in range(N) for tok in content[b][: lens[b]])
                for vname, fn in variants:
                    if vname == "trace" and mode is True:
                        continue
                    k += 1
                    state = STATES[k % len(STATES)]
                    Lx, hy = Lc, hyp0
                    if state == "requires-grad":
                        Lx = Lc.clone().requires_grad_(True)
                    elif state == "float64":
                        Lx = Lc.double()
                    elif state == "int32":
                        hy = hyp0.int()
                    ps = _pack(Lx, lens, mode)
                    ctx.case(1, 1 if scored else 0)
                    sig0 = {"api": "sequence_log_probs", "input": "packed", "eos_set": eos is not None,
                            "neg_dim": dim < 0, "sorted": mode, "variant": vname, "input_state": state}
                    c2 = dict(case, variant=vname, state=state, lens=lens, mode=mode, content=content)
                    try:
                        with _torch_state(state):
                            out = guard(vname, "sequence_log_probs", c2, lambda: fn(ps, hy), ps, hy)
                    except Exception as e:  # noqa: BLE001
                        ctx.violation(dict(sig0, symptom="raises", type=type(e).__name__), c2,
                                      {"error": str(e)[-300:]})
                        continue
                    got = out.detach().reshape(-1).tolist()
                    if len(got) != N or any(not O.close(g, x, TOL) for g, x in zip(got, exp)):
                        ctx.violation(dict(sig0, symptom="wrong-value"), c2, {"expected": exp, "observed": got})
                    else:
                        ctx.outcome(["j-seqp", vname, state, mode])


def _j_ctc(ctx, u, tier, seed):
    C, T, blank = u["C"], u["T"], u["blank_idx"]
    rng = _rng(seed, "jd", C, T)
    rows = [(labels, in_len) for labels in O.all_sequences(range(C), T) for in_len in range(T + 1)]
    per_row = [_d_logits(rng, labels, C) for labels, _ in rows]
    full = torch.tensor(per_row, dtype=torch.float32).transpose(0, 1).contiguous()
    case = {"part": "j", "unit": u, "seed": seed, "tier": tier}
    guard = _Guard(ctx)
    for batch_first, is_probs in itertools.product((False, True), (False, True)):
        module = M.CTCGreedySearch(blank, batch_first, is_probs)
        # tracing example: one full-length element of two frames (no padding, other T and N than the batch)
        ex = _rand_tensor(rng, (1, 2, C) if batch_first else (2, 1, C))
        if is_probs:
            ex = ex.softmax(2)
        for given in (True, False):
            example = (ex, torch.tensor([2])) if given else (ex,)
            variants = _jit_variants(ctx, module, [("trace", example)], "ctc_greedy_search",
                                     dict(case, batch_first=batch_first, is_probs=is_probs, in_lens_given=given))
            if given:
                variants += _lifecycle_modules(
                    ctx, lambda: M.CTCGreedySearch(blank, batch_first, is_probs),
                    lambda: M.CTCGreedySearch((blank + 1 + C) % C, not batch_first, not is_probs),
                    lambda m: m(ex, torch.tensor([2])), "ctc_greedy_search", case)
            fills = D_FILLS[is_probs] if given else ("own-frames",)
            for vi, (vname, fn) in enumerate(variants):
                call = (lambda inp, il, fn=fn: fn(inp, il)) if given else (lambda inp, il, fn=fn: fn(inp))
                for si, state in enumerate(_states_for(vname, vi)):
                    _d_eval(ctx, u, case, full, rows, given, blank, batch_first, is_probs, True, "ragged-batch",
                            guard, None, fills[(si + vi) % len(fills)], state, call, vname)


def _j_walk(ctx, u, tier, seed):
    """RandomWalk scripted together with its LM (as the repository's tests do).  torch.multinomial inside
    TorchScript cannot be scripted from outside, so the generator seed is the enumerated input here: for
    generator seeds 0..7 the scripted walk must return exactly what the eager walk returns from the same
    generator state, and every returned path must satisfy the per-leaf clauses."""
    V, eos, bs = u["V"], u["eos"], u["batch_size"]
    T = 3
    N = bs or 1
    eosn = None if eos is None else eos % V
    rows = [(b + 1) % 2 for b in range(N)]
    case = {"part": "j", "unit": u, "seed": seed, "tier": tier}
    sig0 = {"api": "RandomWalk", "eos_set": eos is not None, "batched": bs is not None, "variant": "script"}
    try:
        lm = ScriptTableLM(V, T, seed, poison_eos=eosn)
        eager = M.RandomWalk(lm, eos)
        scripted = torch.jit.script(M.RandomWalk(torch.jit.script(ScriptTableLM(V, T, seed, poison_eos=eosn)), eos))
    except Exception as e:  # noqa: BLE001
        ctx.case(1)
        ctx.violation(dict(sig0, symptom="raises", where="torch.jit.script", type=type(e).__name__), case,
                      {"error": str(e)[-300:]})
        return
    guard = _Guard(ctx)
    for state in ("plain", "inference", "default-float64"):
        for g in range(8):
            c2 = dict(case, generator_seed=g, state=state)
            s2 = dict(sig0, torch_state=state)
            init = {"row": torch.tensor(rows)}
            try:
                with _torch_state(state):
                    torch.manual_seed(g)
                    ref = eager(dict(init), bs, T)
                    torch.manual_seed(g)
                    out = guard("walk", "RandomWalk", c2, lambda: scripted(init, bs, T), init)
            except Exception as e:  # noqa: BLE001
                ctx.case(1)
                ctx.violation(dict(s2, symptom="raises", type=type(e).__name__), c2, {"error": str(e)[-300:]})
                continue
            y, y_lens, lp = out
            same = all(a.shape == b.shape and _bits_equal(a.detach(), b.detach()) for a, b in zip(out, ref))
            y2 = y.reshape(y.size(0), N)
            lens = y_lens.reshape(N).tolist()
            paths = [y2[: lens[b], b].tolist() for b in range(N)]
            ctx.case(1, 1)  # (state, generator seed) pairs are distinct by construction
            if not same:
                ctx.violation(dict(s2, symptom="scripted-differs-from-eager"), c2,
                              {"eager": ref, "scripted": out})
                continue
            if any(not O.path_is_complete(p, V, T, eosn) for p in paths):
                ctx.violation(dict(s2, symptom="path-not-ended-at-first-eos-or-limit"), c2, {"y": y2.t(), "lens": lens})
                continue
            chain = [O.chain_rule(lm.table_list[rows[b]], paths[b], V) for b in range(N)]
            rep_ = lp.detach().reshape(N).tolist()
            if any(not O.close(a, c, TOL) for a, c in zip(rep_, chain)):
                ctx.violation(dict(s2, symptom="reported-log-prob-vs-chain-rule"), c2,
                              {"paths": paths, "reported": rep_, "chain_rule": chain})
            else:
                ctx.outcome(["j-walk", paths])
                ctx.count("scripted_walks_equal_to_eager")


# =========================================================================================
# part w: random_walk_advance (public step helper) driven directly, preallocated histories
# =========================================================================================
def _w_units(tier):
    units = []
    for V in (2, 3):
        for N in (1, 2):
            for S in range(0, 4):
                units.append({"part": "w", "V": V, "N": N, "S": S, "w": ((S + 1) ** N + 1) * (V ** (2 * N)) * 700 + 20000})
    return units


def _w_unit(ctx, u, tier, seed, only=None):
    """Two consecutive steps of random_walk_advance from ONE shared prompt buffer of S rows, for every y_prev_lens
    (None and every vector in {0..S}^N - spare rows whenever max(lens) < S), the whole tree of draws; the step-1
    result is kept while step 2 is computed, and every rollout is kept until all rollouts from the buffer are done."""
    import pydrobert.torch.util as U

    V, N, S = u["V"], u["N"], u["S"]
    rng = _rng(seed, "w", V, N, S)
    garbage = [-1, V] + list(range(V))
    prompt = torch.tensor([[garbage[(3 * t + 5 * b + t * b) % len(garbage)] for b in range(N)] for t in range(S)],
                          dtype=torch.long).reshape(S, N)
    lpt = [_rand_tensor(rng, (N, V)).log_softmax(1) for _ in range(2)]
    lp0 = _rand_tensor(rng, (N,))
    lpt_l = [x.double().tolist() for x in lpt]
    lp0_l = lp0.double().tolist()
    prompt_l = prompt.t().tolist() if S else [[] for _ in range(N)]
    guard = _Guard(ctx)
    patterns = [None] + [list(p) for p in itertools.product(range(S + 1), repeat=N)]
    for pi, lens in enumerate(patterns):
        if only is not None and only.get("lens", "x") != lens:
            continue
        y_lens = None if lens is None else torch.tensor(lens, dtype=torch.long)
        eff = [S] * N if lens is None else lens
        adv = F.random_walk_advance if pi % 2 == 0 else U.random_walk_advance
        case0 = {"part": "w", "unit": u, "seed": seed, "tier": tier, "sub": {"lens": lens}}
        sig0 = {"api": "random_walk_advance", "y_prev_lens_given": lens is not None,
                "spare_rows": lens is not None and S > 0 and max(lens) < S, "empty_history": S == 0}
        tree = _Tree(["w", V, N, S, lens])

        def run(ch):
            with ScriptedRandom(ch) as sr:
                c = dict(case0, whole_unit=True)
                y1, lp1 = guard("adv", "random_walk_advance", c, lambda: adv(lpt[0], lp0, prompt, y_lens),
                                lpt[0], lp0, prompt, y_lens)
                lens1 = None if y_lens is None else y_lens + 1
                y2, lp2 = guard("adv", "random_walk_advance", c, lambda: adv(lpt[1], lp1, y1, lens1),
                                lpt[1], lp1, y1, lens1)
            return (y1, lp1, y2, lp2), sr.calls

        kept = []
        mass = 0.0
        for ch, res in explore(run):
            case = dict(case0, choices=ch.choices)
            mass += ch.prob
            ctx.case(1, 1)
            if isinstance(res, Exception):
                ctx.violation(dict(sig0, symptom="raises", type=type(res).__name__), case, {"error": str(res)[-300:]})
                continue
            (y1, lp1, y2, lp2), calls = res
            draws = [[r[0] for r in c[2]] for c in calls if c[0] == "multinomial"]
            tree.add_leaf(draws)
            if len(draws) != 2:
                ctx.violation(dict(sig0, symptom="number-of-draws"), case, {"draws": draws})
                continue
            rows1 = S + 1 if (lens is None or max(eff) >= S) else S
            rows2 = rows1 + 1 if (lens is None or max(eff) + 1 >= rows1) else rows1
            if tuple(y1.shape) != (rows1, N) or tuple(y2.shape) != (rows2, N) or tuple(lp1.shape) != (N,) \
                    or tuple(lp2.shape) != (N,):
                ctx.violation(dict(sig0, symptom="wrong-shape"), case,
                              {"y1": list(y1.shape), "y2": list(y2.shape), "expected_rows": [rows1, rows2]})
                continue
            ok = True
            for b in range(N):
                h1 = prompt_l[b][: eff[b]] + [draws[0][b]]
                h2 = h1 + [draws[1][b]]
                e1 = lp0_l[b] + lpt_l[0][b][draws[0][b]]
                e2 = e1 + lpt_l[1][b][draws[1][b]]
                if y1[: eff[b] + 1, b].tolist() != h1 or y2[: eff[b] + 2, b].tolist() != h2:
                    ok = False
                    ctx.violation(dict(sig0, symptom="wrong-path"), case,
                                  {"batch_element": b, "expected": [h1, h2],
                                   "observed": [y1[:, b].tolist(), y2[:, b].tolist()], "lens": lens})
                    break
                if not O.close(lp1[b].item(), e1, TOL) or not O.close(lp2[b].item(), e2, TOL):
                    ok = False
                    ctx.violation(dict(sig0, symptom="wrong-log-prob"), case,
                                  {"batch_element": b, "expected": [e1, e2], "observed": [lp1[b].item(), lp2[b].item()]})
                    break
            want_lp = sum(lpt_l[k][b][draws[k][b]] for k in range(2) for b in range(N))
            if ok and not O.close(math.log(ch.prob), want_lp, TOL):
                ok = False
                ctx.violation(dict(sig0, symptom="log-prob-vs-draw-probabilities"), case,
                              {"log_prob_of_draws": math.log(ch.prob), "expected": want_lp})
            if ok:
                ctx.traces += 1
                ctx.outcome(["w", rows1, rows2, lens is None])
                kept.append((ch.choices, [(t, t.clone()) for t in (y1, lp1, y2, lp2)]))
        # every rollout from the shared buffer is still what it was when it was returned
        for choices, pairs in kept:
            if any(not _bits_equal(t, c) for t, c in pairs):
                ctx.violation(dict(sig0, symptom="earlier-rollout-changed-by-later-rollout"),
                              dict(case0, choices=choices, whole_unit=True),
                              {"was": [c for _, c in pairs], "now": [t for t, _ in pairs]})
                break
        if not O.close(mass, 1.0, 1e-9):
            ctx.violation(dict(sig0, symptom="tree-mass-not-one"), dict(case0, whole_unit=True), {"mass": mass})
        tree.flush(ctx)
    ctx.sample({"part": "w", "unit": {k: u[k] for k in u if k != "w"}, "lens_patterns": len(patterns),
                "prompt": prompt_l})


def _j_unit(ctx, u, tier, seed, only=None):
    {"seq": _j_seq, "seqp": _j_seqp, "ctc": _j_ctc, "walk": _j_walk}[u["kind"]](ctx, u, tier, seed)


# =========================================================================================
# driver
# =========================================================================================
_RUN = {"a": _a_unit, "p": _p_unit, "b": _b_unit, "c": _c_unit, "s": _s_unit, "d": _d_unit, "j": _j_unit, "w": _w_unit}


def _all_units(tier):
    return (_a_units(tier) + _p_units(tier) + _b_units(tier) + _c_units(tier) + _s_units(tier) + _d_units(tier)
            + _j_units(tier) + _w_units(tier))


def shards(tier, seed):
    units = sorted(_all_units(tier), key=lambda u: -u["w"])
    k = 32 if tier == "quick" else 96
    bins = [[0, []] for _ in range(k)]
    for u in units:  # longest-processing-time first
        b = min(bins, key=lambda x: x[0])
        b[0] += u["w"]
        b[1].append(u)
    bins.sort(key=lambda x: -x[0])
    return [{"units": b[1]} for b in bins if b[1]]


def run_shard(spec, tier, seed):
    ctx = Ctx()
    for u in spec["units"]:
        _RUN[u["part"]](ctx, u, tier, seed)
        ctx.count("units_" + u["part"])
    return ctx


def replay(case):
    ctx = Ctx()
    u = case["unit"]
    seed, tier = case.get("seed", 0), case.get("tier", "quick")
    part = case["part"]
    if case.get("whole_unit"):  # an aliasing violation needs the earlier calls of the unit as well
        _RUN[part](ctx, u, tier, seed)
    elif part == "a":
        _a_unit(ctx, u, tier, seed, only=case.get("content"))
    elif part == "p":
        _p_unit(ctx, u, tier, seed, only=case.get("sub"))
    elif part in ("b", "c"):
        _RUN[part](ctx, u, tier, seed, only=case.get("choices"))
    elif part == "w":
        _w_unit(ctx, u, tier, seed, only=case.get("sub"))
    else:
        _RUN[part](ctx, u, tier, seed)
    return ctx
