"""C03 - optimal-completion targets and the hard OCD loss (E1)."""

import itertools
import math
import random

import torch

import pydrobert.torch.functional as F
import pydrobert.torch.modules as M
from pydrobert.torch import config

from mc.runner import Ctx
from mc.oracles import strings as O
from checks import _strings_common as S

PROP = "C03"
LEVEL = "exploration"
RULE = (
    "every stored (ref, hyp) pair over {0,1,2} with tensor sizes R,H in 1..3 (quick) / 1..4 "
    "(thorough) as one ragged batch per (R,H) (and reversed; references with repeated tokens are all "
    "included), x 4/8 cost triples x eos in {None,2} x include_eos x exclude_last x batch_first x "
    "two padding values; per prefix the oracle tries every token of the alphabet and keeps those "
    "whose best reachable distance (row minimum of the Levenshtein table) does not rise. Hard OCD "
    "loss on the same batches with seed-valued logits, V=3 (and V=4 with the in-range but unused class 3 as ignore_index), reductions none/sum/mean, optional class "
    "weights, logits also attached to the autograd graph and a 'confident' variant with exactly-zero step losses. "
    "Rows are checked only for hypotheses with >=1 counted token (as the property states); with an eos the reduced "
    "losses are judged on the sub-batch of those hypotheses, which still contains empty references (no target at any "
    "prefix), and a non-finite reduced loss is a violation of its own. "
    "Distinct by construction; non-trivial = target set for some prefix has size != 1. Plus a larger instance "
    "(R,H,N) = (40,36,24) over 3 symbols + eos handed in as offset non-contiguous views, one module object reused "
    "across unrelated calls, module == functional on clones, arguments unchanged, targets against an integer DP."
)
ASSUMPTIONS = [
    "small-scope alphabet/lengths/cost menu as for C01",
    "'mean' reduction of the loss: 'averaged' admits three readings (per sequence over its prefixes with targets, then "
    "over the batch; over all H*N entries; over all prefixes with targets) - the value must equal one of them",
    "zero-sized reference dimension not enumerated (length-0 references are covered through eos)",
]
BUDGET_S = {"quick": 900, "thorough": 3000}


def shards(tier, seed):
    LIFE = [{"lifecycle": [n]} for n in ['OptimalCompletion', 'HardOptimalCompletionDistillationLoss']]
    L = S.max_len(tier)
    out = [{"R": R, "H": H} for R in range(1, L + 1) for H in range(1, L + 1)]
    # long references over a binary alphabet: the same token at three or more positions, so that the
    # duplicate-collapsing logic meets flagged occurrences that are not neighbours among the occurrences
    for R in ((4, 5, 6) if tier == "quick" else (5, 6, 7)):
        for H in ((2, 3, 4) if tier == "quick" else (2, 3, 4, 5)):
            out.append({"R": R, "H": H, "sigma": [0, 1]})
    if tier == "thorough":
        out += [{"R": 5, "H": H, "sigma": [0, 1, 2]} for H in (3, 4)]
    out += [{"large": [40, 36, 24], "cost": c} for c in ((1.0, 1.0, 1.0), (1.0, 0.5, 2.0), (0.7, 0.7, 0.7), (0.3, 0.3, 0.3))]
    out += [{"large": [20, 18, 12], "cost": (1.0, 2.0, 3.0), "id_offset": S.BIG_ID},
            {"large": [20, 18, 12], "cost": (1.0, 0.5, 2.0), "jit": True}]
    return LIFE + out


def _targets(er, eh, cost, exclude_last, rows, sigma=S.SIGMA):
    """list over prefix rows of the oracle target list (sorted) or None for padding rows."""
    out = []
    nvalid = len(eh) + (0 if exclude_last else 1)
    for j in range(rows):
        if j < nvalid:
            out.append(O.ocd_targets(er, eh[:j], cost, sigma))
        else:
            out.append(None)
    return out


def _check_batch(ctx, pairs, ref, hyp, eos, include_eos, cost, tier, tag, seed, sigma=S.SIGMA):
    N = len(pairs)
    H = hyp.size(0)
    effs = [S.eff_pair(p, eos, include_eos) for p in pairs]
    for exclude_last, batch_first, padding in itertools.product(
        (False, True), (False, True), (config.INDEX_PAD_VALUE, -1, 7)
    ):  # 7 is larger than every token: the padding value may sort after the targets
        if padding != config.INDEX_PAD_VALUE and (tier == "quick" and batch_first == (padding == -1)):
            continue
        r_in, h_in = (ref.t(), hyp.t()) if batch_first else (ref, hyp)
        kw = dict(eos=eos, include_eos=include_eos, batch_first=batch_first, ins_cost=cost[0],
                  del_cost=cost[1], sub_cost=cost[2], padding=padding, exclude_last=exclude_last)
        base = {"kind": "oc", "eos": eos, "include_eos": include_eos, "cost": cost, "batching": tag,
                "batch_first": batch_first, "padding": padding, "exclude_last": exclude_last}
        rows = H + (0 if exclude_last else 1)
        try:
            if (N + rows) % 2 == 0:
                out = F.optimal_completion(r_in, h_in, warn=False, **kw)
            else:
                out = M.OptimalCompletion(warn=False, **kw)(r_in, h_in)
            kept, kept_copy = out, out.clone()
            # an unrelated later call must not disturb a result the caller still holds
            F.optimal_completion(h_in.flip(0 if not batch_first else 1), r_in, warn=False, **kw)
            if not torch.equal(kept, kept_copy):
                raise AssertionError("result of an earlier call changed after a later call (aliased buffer)")
            if batch_first:
                out = out.transpose(0, 1)
            if tuple(out.shape[:2]) != (rows, N):
                raise AssertionError(f"shape {tuple(out.shape)} vs {(rows, N)}")
            out = out.transpose(0, 1).tolist()  # N, rows, C
            err = None
        except Exception as e:
            err = e
        for n in range(N):
            er, eh = effs[n]
            if len(eh) == 0:
                continue
            exp = _targets(er, eh, cost, exclude_last, rows, sigma)
            nt = any(t is not None and len(t) != 1 for t in exp)
            ctx.case(1, 1 if nt else 0)
            case = dict(base, ref=pairs[n][0], hyp=pairs[n][1])
            if err is not None:
                ctx.violation({"api": "optimal_completion", "symptom": "raises", "type": type(err).__name__},
                              case, {"error": str(err)[-400:]})
                break
            bad = None
            for j in range(rows):
                row = out[n][j]
                k = 0
                while k < len(row) and row[k] != padding:
                    k += 1
                got, tail = row[:k], row[k:]
                if any(v != padding for v in tail):
                    bad = (j, "token-after-padding")
                    break
                want = exp[j] if exp[j] is not None else []
                if sorted(got) != want:
                    if len(set(got)) != len(got) and sorted(set(got)) == want:
                        bad = (j, "duplicate-target")
                    elif exp[j] is None:
                        bad = (j, "targets-past-hypothesis-end")
                    else:
                        bad = (j, "wrong-target-set")
                    break
            if bad:
                ctx.violation({"api": "optimal_completion", "symptom": bad[1], "exclude_last": exclude_last},
                              case, {"prefix_row": bad[0], "expected": exp, "observed": out[n]})
            else:
                ctx.outcome([exp])
    # ---- hard OCD loss ---------------------------------------------------------------
    V = 3
    rng = random.Random(seed * 7919 + ref.size(0) * 31 + H)
    for variant in ("seed", "confident"):
        if variant == "seed":
            logits = torch.tensor([[[round(rng.uniform(-2, 2), 3) for _ in range(V)] for _ in range(N)]
                                   for _ in range(H)])
        else:
            # a confident model: all mass on one token per step, so some per-step losses are exactly zero
            logits = torch.tensor([[[40.0 if v == (j + n) % V else 0.0 for v in range(V)] for n in range(N)]
                                   for j in range(H)])
        _check_loss(ctx, pairs, effs, ref, hyp, logits, eos, include_eos, cost, tier, tag, seed, sigma, variant)
        if variant == "seed":  # four classes, tokens still from {0,1,2}: ignore_index 3 is a valid class index
            logits4 = torch.tensor([[[round(rng.uniform(-2, 2), 3) for _ in range(4)] for _ in range(N)] for _ in range(H)])
            _check_loss(ctx, pairs, effs, ref, hyp, logits4, eos, include_eos, cost, "quick", tag, seed, sigma, "seed-v4")
        # the same logits attached to the autograd graph (the training path) must give the same values
        _check_loss(ctx, pairs, effs, ref, hyp, logits.clone().requires_grad_(True), eos, include_eos, cost, "quick",
                    tag, seed, sigma, variant + "+grad")


def _check_loss(ctx, pairs, effs, ref, hyp, logits, eos, include_eos, cost, tier, tag, seed, sigma, variant,
                sub=False):
    N, H, V = len(pairs), hyp.size(0), logits.size(-1)
    keep = [n for n in range(len(pairs)) if len(effs[n][1]) > 0]
    if not sub and 0 < len(keep) < N:
        # with an eos some hypotheses of the all-pairs batch have no counted token, which leaves the reduced losses
        # of the whole batch unconstrained; the sub-batch of the constrained columns (it still holds EMPTY REFERENCES,
        # whose prefixes have no target at all, next to ordinary ones) is constrained in every reduction
        idx = torch.tensor(keep)
        _check_loss(ctx, [pairs[n] for n in keep], [effs[n] for n in keep], ref[:, idx], hyp[:, idx],
                    logits.detach()[:, idx].clone().requires_grad_(logits.requires_grad), eos, include_eos, cost, "quick",
                    tag, seed, sigma, variant, sub=True)  # the quick weight menu: the sub-batch adds references, not weights
    lsm = torch.log_softmax(logits.detach().double(), -1).tolist()
    weights = [None, [0.5, 2.0, 1.0], [0.0, 1.0, 1.0]] if tier == "thorough" else [None, [0.0, 2.0, 1.0]]
    if V != 3:  # the four-class variant: class 3 is in the logits but never a token; it serves as ignore_index
        weights = [None, [0.5, 2.0, 1.0, 3.0]]
    for batch_first, reduction, weight in itertools.product((False, True), ("none", "sum", "mean"), weights):
        if eos is not None and include_eos is False and False:
            continue
        r_in, h_in, l_in = (ref.t(), hyp.t(), logits.transpose(0, 1)) if batch_first else (ref, hyp, logits)
        kw = dict(eos=eos, include_eos=include_eos, batch_first=batch_first, ins_cost=cost[0],
                  del_cost=cost[1], sub_cost=cost[2], reduction=reduction,
                  ignore_index=((3 if not batch_first else -2) if V == 4 else
                                (-2 if (batch_first or weight is not None) else 5)))  # 5: a positive unused id; 3 (V=4): an
        # IN-RANGE class index that never occurs as a token - padding must not be scored as that class
        wt = None if weight is None else torch.tensor(weight)
        case = {"kind": "ocd-loss", "tag": tag, "R": ref.size(0), "H": H, "seed": seed, "weight": weight,
                "reversed": tag.endswith("reversed"), "sigma": list(sigma), "logits": variant,
                "counted_hyps_only": sub, **kw}
        ctx.case(1, 1)
        if sub:
            ctx.count("loss_calls_on_batches_with_empty_references",
                      1 if any(len(e[0]) == 0 for e in effs) else 0)
        try:
            out = F.hard_optimal_completion_distillation_loss(l_in, r_in, h_in, weight=wt, warn=False, **kw)
        except Exception as e:
            ctx.violation({"api": "hard_ocd_loss", "symptom": "raises", "type": type(e).__name__}, case,
                          {"error": str(e)[-400:]})
            continue
        exp = [[0.0] * N for _ in range(H)]
        nonempty = [[False] * N for _ in range(H)]
        for n in range(N):
            er, eh = effs[n]
            tg = _targets(er, eh, cost, True, H, sigma)
            for j in range(H):
                if tg[j]:
                    w = [1.0] * V if weight is None else weight
                    exp[j][n] = sum(-lsm[j][n][t] * w[t] for t in tg[j]) / len(tg[j])
                    nonempty[j][n] = True
        # rows of hypotheses with no counted token are not constrained by the property
        constrained = [len(effs[n][1]) > 0 for n in range(N)]
        if reduction == "none":
            o = out.transpose(0, 1) if batch_first else out
            if tuple(o.shape) != (H, N):
                ctx.violation({"api": "hard_ocd_loss", "symptom": "wrong-shape"}, case, {"shape": list(o.shape)})
                continue
            o = o.tolist()
            bad = [(j, n) for j in range(H) for n in range(N)
                   if constrained[n] and not S.close(o[j][n], exp[j][n], 2e-5)]
            if bad:
                j, n = bad[0]
                ctx.violation({"api": "hard_ocd_loss", "symptom": "wrong-step-loss", "weighted": weight is not None},
                              dict(case, ref=pairs[n][0], hyp=pairs[n][1], step=j),
                              {"expected": exp[j][n], "observed": o[j][n]})
        elif all(constrained):
            tot = sum(exp[j][n] for j in range(H) for n in range(N))
            if not math.isfinite(out.item()):
                ctx.violation({"api": "hard_ocd_loss", "symptom": "non-finite-reduced-loss", "reduction": reduction,
                               "has_empty_reference": any(len(e[0]) == 0 for e in effs)}, case,
                              {"observed": out.item(), "sum_of_step_losses": tot})
                continue
            if reduction == "sum":
                if not S.close(out.item(), tot, 1e-4):
                    ctx.violation({"api": "hard_ocd_loss", "symptom": "wrong-sum"}, case,
                                  {"expected": tot, "observed": out.item()})
            else:
                # 'averaged' admits three readings: per sequence over the prefixes that have targets then over
                # the batch (what the implementation documents by its code), over all H*N entries, or over all
                # prefixes that have targets; any other value is not an average of the per-prefix losses
                per_seq = []
                for n in range(N):
                    k = sum(1 for j in range(H) if nonempty[j][n])
                    per_seq.append(sum(exp[j][n] for j in range(H)) / max(k, 1))
                cnt = sum(1 for j in range(H) for n in range(N) if nonempty[j][n])
                readings = [sum(per_seq) / N, tot / (H * N), tot / max(cnt, 1)]
                if not any(S.close(out.item(), r, 1e-4) for r in readings):
                    ctx.violation({"api": "hard_ocd_loss", "symptom": "mean-is-no-average-of-the-step-losses",
                                   "logits": variant, "weighted": weight is not None}, case,
                                  {"admissible": readings, "observed": out.item()})


def _large(ctx, R, H, N, cost, seed, id_offset=0, jit=False):
    """Larger instance (long references with many repeats), offset non-contiguous views, one module object reused."""
    eos = 3 + id_offset
    refs, hyps, ref, hyp = S.large_batch(R, H, N, seed, 3, id_offset)
    ci, cd, cs = (1, 1, 1) if cost[0] == cost[1] == cost[2] else (int(round(c * 2)) for c in cost)
    for include_eos, exclude_last, batch_first in itertools.product((False, True), (False, True), (False, True)):
        r_in, h_in = (ref.t(), hyp.t()) if batch_first else (ref, hyp)
        r0, h0 = r_in.clone(), h_in.clone()
        kw = dict(eos=eos, include_eos=include_eos, batch_first=batch_first, ins_cost=cost[0], del_cost=cost[1],
                  sub_cost=cost[2], exclude_last=exclude_last)
        case = {"kind": "large", "R": R, "H": H, "N": N, "cost": cost, "seed": seed, "id_offset": id_offset,
                "jit": jit, **kw}
        ctx.case(N, N)
        try:
            mod = M.OptimalCompletion(warn=False, **kw)
            mod(h_in, r_in)  # unrelated call first on the same object
            out = mod(r_in, h_in)
            out2 = F.optimal_completion(r_in.clone(), h_in.clone(), warn=False, **kw)
            if jit:
                ex = (torch.full((1, 1), eos, dtype=torch.long),) * 2
                for nm, v in S.jit_variants(lambda: M.OptimalCompletion(warn=False, **kw), ex):
                    if isinstance(v, Exception):
                        raise v
                    o3 = v(r_in, h_in)
                    if o3.shape != out.shape or not torch.equal(o3, out):
                        ctx.violation({"api": "OptimalCompletion/" + nm, "symptom": "differs-from-eager", "large": True},
                                      case, {"shapes": [list(out.shape), list(o3.shape)]})
        except Exception as e:
            ctx.violation({"api": "optimal_completion", "symptom": "raises", "type": type(e).__name__, "large": True},
                          case, {"error": str(e)[-300:]})
            continue
        if not (torch.equal(r0, r_in) and torch.equal(h0, h_in)):
            ctx.violation({"api": "optimal_completion", "symptom": "argument-modified-in-place", "large": True}, case, {})
            continue
        if out.shape != out2.shape or not torch.equal(out, out2):
            ctx.violation({"api": "optimal_completion", "symptom": "depends-on-layout-or-object-history", "large": True},
                          case, {"shapes": [list(out.shape), list(out2.shape)]})
            continue
        o = (out if batch_first else out.transpose(0, 1)).tolist()  # N, rows, C
        pad = config.INDEX_PAD_VALUE
        for n in range(N):
            er, eh = O.effective(refs[n], eos, include_eos), O.effective(hyps[n], eos, include_eos)
            if not eh:
                continue
            _, cols = O.lev_int_full(er, eh, ci, cd, cs)
            nvalid = len(eh) + (0 if exclude_last else 1)
            bad = None
            for j in range(len(o[n])):
                got = [v for v in o[n][j] if v != pad]
                want = O.ocd_targets_int(er, cols[j], ci, cd, cs,
                                         (id_offset, 1 + id_offset, 2 + id_offset, eos)) if j < nvalid else []
                if sorted(got) != want or o[n][j][len(got):] != [pad] * (len(o[n][j]) - len(got)):
                    bad = (j, want, o[n][j])
                    break
            if bad:
                ctx.violation({"api": "optimal_completion", "symptom": "wrong-target-set", "large": True,
                               "exclude_last": exclude_last}, dict(case, pair=n),
                              {"prefix_row": bad[0], "expected": bad[1], "observed": bad[2]})
                break
        else:
            ctx.outcome([include_eos, exclude_last])
    ctx.sample({"large_instance": {"R": R, "H": H, "N": N, "cost": cost}})


def run_shard(spec, tier, seed):
    ctx = Ctx()
    if "lifecycle" in spec:
        S.lifecycle_pass(ctx, spec["lifecycle"], seed)
        return ctx
    if "large" in spec:
        for gs in S.GLOBAL_STATES:  # the same instance under every global torch state: results must not change
            sub = Ctx()
            with S.global_state(gs):
                _large(sub, *spec["large"], tuple(spec["cost"]), seed, spec.get("id_offset", 0),
                       spec.get("jit", False) and gs == "default")
            for v in sub.violations:
                v["sig"]["global_state"] = gs
            sub.viol_count = type(sub.viol_count)({k.replace("}", ', "global_state": "%s"}' % gs, 1) if k.endswith("}") else k: n
                                                   for k, n in sub.viol_count.items()})
            ctx.merge(sub)
        return ctx
    R, H = spec["R"], spec["H"]
    sigma = tuple(spec.get("sigma", S.SIGMA))
    long_ref = "sigma" in spec
    pairs, ref, hyp = S.pair_batch(R, H, sigma=sigma)
    pairs_r, ref_r, hyp_r = S.pair_batch(R, H, reverse=True, sigma=sigma)
    ctx.sample({"R": R, "H": H, "alphabet": list(sigma), "N": len(pairs),
                "example": {"ref": pairs[5 % len(pairs)][0], "hyp": pairs[5 % len(pairs)][1]}})
    ci = 0
    eos_tok = max(sigma)
    cfgs = [(None, False), (eos_tok, False), (eos_tok, True)]
    costs = (S.costs(tier)[:3] + [(0.7, 0.7, 0.7)]) if long_ref else S.costs(tier)
    for eos, include_eos in cfgs:
        for cost in costs:
            ci += 1
            if (tier == "thorough" and not long_ref) or ci % 2 == 0:
                _check_batch(ctx, pairs, ref, hyp, eos, include_eos, cost, tier, "all-pairs", seed, sigma)
            if (tier == "thorough" and not long_ref) or ci % 2 == 1:
                _check_batch(ctx, pairs_r, ref_r, hyp_r, eos, include_eos, cost, tier, "all-pairs-reversed", seed,
                             sigma)
    # hypotheses with >=1 counted token everywhere => sum/mean reductions are constrained:
    # eos unset makes every stored token counted
    return ctx


def replay(case):
    ctx = Ctx()
    if case.get("kind") == "lifecycle":
        S.lifecycle_pass(ctx, [case["module"]], case.get("seed", 0))
        return ctx
    if case["kind"] == "large":
        _large(ctx, case["R"], case["H"], case["N"], tuple(case["cost"]), case["seed"], case.get("id_offset", 0),
               case.get("jit", False))
        return ctx
    if case["kind"] == "oc":
        ref = torch.tensor(case["ref"], dtype=torch.long).view(-1, 1)
        hyp = torch.tensor(case["hyp"], dtype=torch.long).view(-1, 1)
        sg = tuple(sorted(set(case["ref"]) | set(case["hyp"]) | set(S.SIGMA)))
        _check_batch(ctx, [(tuple(case["ref"]), tuple(case["hyp"]))], ref, hyp, case["eos"],
                     case["include_eos"], tuple(case["cost"]), "thorough", "replay", 0, sg)
    else:
        sg = tuple(case.get("sigma", S.SIGMA))
        pairs, ref, hyp = S.pair_batch(case["R"], case["H"], reverse=case["reversed"], sigma=sg)
        _check_batch(ctx, pairs, ref, hyp, case["eos"], case["include_eos"],
                     (case["ins_cost"], case["del_cost"], case["sub_cost"]), "thorough", case["tag"],
                     case["seed"], sg)
    return ctx
