"""Shared driver for C15/C16: a tiny 'training loop' around the real TrainingStateController."""

import os
import shutil
import warnings

import torch

from pydrobert.torch.training import TrainingStateController, TrainingStateParams

warnings.filterwarnings("ignore")

SCRATCH = f"/dev/shm/verif-{os.getpid()}"


def fresh_dir(name):
    d = os.path.join(SCRATCH, name)
    shutil.rmtree(d, ignore_errors=True)
    os.makedirs(d)
    return d


def cleanup():
    shutil.rmtree(SCRATCH, ignore_errors=True)


def make_params(cfg):
    p = TrainingStateParams()
    for k, v in cfg.items():
        if k in ("user_entries", "best_is_train", "init_lr"):
            continue
        setattr(p, k, v)
    return p


def new_model_optim(cfg):
    m = torch.nn.Linear(1, 1, bias=False)
    with torch.no_grad():
        m.weight.fill_(-1.0)
    # two parameter groups (weight / an extra bias-like parameter) with the same rate: the controller must
    # write a reduced rate into every group
    extra = torch.nn.Parameter(torch.zeros(1))
    m.register_parameter("extra", extra)
    lr = cfg.get("init_lr", 1.0)
    o = torch.optim.SGD([{"params": [m.weight]}, {"params": [extra]}], lr=lr, momentum=0.5)
    return m, o


def stamp(model, optim, epoch):
    """'Training' for one epoch: parameters and optimizer state become functions of the epoch, so that
    'exactly the parameters saved for that epoch' is checkable after a reload."""
    with torch.no_grad():
        model.weight.fill_(float(epoch))
    p = next(iter(model.parameters()))
    optim.state[p]["momentum_buffer"] = torch.full_like(p, 100.0 + epoch)


def read_stamp(model, optim):
    p = next(iter(model.parameters()))
    st = optim.state.get(p, {})
    mb = st.get("momentum_buffer")
    return float(model.weight.item()), (None if mb is None else float(mb.item()))


USER_VALUES = {
    "note": lambda e: ["x y", "a,b", 'q"r', "", "z"][e % 5],
    "cnt": lambda e: 7 * e - 3,
    "flt": lambda e: 0.25 * e,
}
USER_TYPES = {"note": (str, "{}"), "cnt": (int, "{}"), "flt": (float, "{:.3e}")}


def new_controller(cfg, root):
    c = TrainingStateController(
        make_params(cfg), os.path.join(root, "hist.csv"), os.path.join(root, "state"), warn=False
    )
    for name in cfg.get("user_entries", ()):
        t, f = USER_TYPES[name]
        c.add_entry(name, t, f)
    return c


def user_kwargs(cfg, epoch):
    return {n: USER_VALUES[n](epoch) for n in cfg.get("user_entries", ())}


def csv_text(root):
    p = os.path.join(root, "hist.csv")
    if not os.path.exists(p):
        return None
    with open(p, newline="") as f:
        return f.read()


def listing(root):
    d = os.path.join(root, "state")
    if not os.path.isdir(d):
        return []
    return sorted(os.listdir(d))


def cache_canon(c):
    out = []
    for e in sorted(c.cache_hist):
        info = c.cache_hist[e]
        out.append([(k, repr(info[k])) for k in sorted(info)])
    return out
