"""python -m checks._c17_fresh jobs.json

Runs every job (one console entry point + arguments) as the first command call of a process: this interpreter
imports the library and then only forks; each child calls exactly one command and writes what it observed."""

import json
import os
import sys


def main():
    import warnings

    warnings.simplefilter("ignore")
    import torch

    torch.set_num_threads(1)
    from pydrobert.torch import command_line  # noqa: F401 - imported before forking to share the cost
    from checks._c17_seams import observe_call

    with open(sys.argv[1]) as f:
        jobs = json.load(f)
    for job in jobs:
        pid = os.fork()
        if pid == 0:
            code = 0
            try:
                obs = observe_call(job["func"], job["args"], job["out"])
                with open(job["result"], "w") as g:
                    json.dump(obs, g)
            except BaseException as e:  # noqa: BLE001
                sys.stderr.write("job failed: %r %r\n" % (job, e))
                code = 3
            finally:
                os._exit(code)
        _, status = os.waitpid(pid, 0)
        if status:
            sys.exit("child failed for job %r" % (job,))


if __name__ == "__main__":
    main()
