"""Helper of C13: one member of a REAL torch.distributed (gloo, file store) process group.

usage: python _c13_realgroup.py <rank> <world> <store-file> <json list of configurations>
prints one JSON line: {"rank": r, "results": [...]}, a result being
{"raised": type-name} or {"hist": [[indices of epoch 0], ...], "lens": [...]}.
"""

import json
import sys
import warnings


def run_config(cfg):
    from pydrobert.torch.data import EpochRandomSampler, EpochSequentialSampler

    N, mode, seed, K = cfg["N"], cfg["mode"], cfg["seed"], cfg["K"]
    try:
        if seed is None:
            s = EpochSequentialSampler(range(N), 0, mode)
        else:
            s = EpochRandomSampler(range(N), 0, seed, mode)
    except ValueError as e:
        return {"raised": type(e).__name__}
    hist, lens = [], []
    for _ in range(K + 1):
        lens.append(len(s))
        hist.append([int(i) for i in s])
    return {"hist": hist, "lens": lens}


def main():
    warnings.filterwarnings("ignore")
    rank, world, store = int(sys.argv[1]), int(sys.argv[2]), sys.argv[3]
    cfgs = json.loads(sys.argv[4])
    import torch.distributed as dist

    dist.init_process_group("gloo", init_method=f"file://{store}", rank=rank, world_size=world)
    try:
        out = [run_config(c) for c in cfgs]
    finally:
        dist.destroy_process_group()
    print(json.dumps({"rank": rank, "results": out}))


if __name__ == "__main__":
    main()
